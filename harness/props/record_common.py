"""Shared pieces of the RecordTensor checks (C01, C02, C13): model-checking configs,
graph generation + replay, random trace drivers, canaries."""
from __future__ import annotations
import copy, math, random
from concurrent.futures import ThreadPoolExecutor
from ..core import Check, MachineryFailure
from .. import tlc, graph, tracecheck
from ..impl_record import RecordImpl


OFFDT = ["int64", "int32", "int16", "int8", "uint8", "uint8"]      # dtypes of tensor-valued offsets (seeded C01-m5)


def mc_constants(*, dur, E0, vals, pdty, kinds, dt=4, incl=False, kind0="none", dty0="f", kmul=2, tols=(0,),
                 offs=(0, 1), dtset=(4,), durset=(8,), esizes=(1,), depth=100, taunear=()):
    return dict(E0=E0, Kind0=kind0, Dty0=dty0, Dt0=dt, Dur0=dur, Incl0=incl, Vals=set(vals), PDty=set(pdty),
                OpKinds=set(kinds), KMul=kmul, Tols=set(tols), Offs=set(offs), DtSet=set(dtset),
                DurSet=set(durset), ESizes=set(esizes), SentP=8, SentN=10, MaxDepth=depth, TauNear=set(taunear))


def run_mc_configs(chk: Check, configs, invariants, workers_each=4, parallel=4, timeout=3000):
    """Exhaustive TLC runs; every named invariant must hold, the run must complete."""
    def one(item):
        name, consts = item
        cfg = tlc.cfg_text(constants=consts, invariants=invariants, constraints=["Bounded"])
        return name, tlc.run("RecordMC", cfg, workers=workers_each, timeout=timeout)

    with ThreadPoolExecutor(max_workers=parallel) as ex:
        results = list(ex.map(one, configs))
    for name, res in results:
        if res.violated:
            # the DESIGN admits a violation: a counterexample at specification level
            chk.violation({"clause": "MC:" + ",".join(res.violated), "site": "spec", "config": name},
                          {"config": name, "tlc_tail": res.out[-4000:]})
        elif not res.ok:
            raise MachineryFailure(f"TLC run {name} did not complete: {res.out[-2000:]}")
        chk.add_tlc("mc:" + name, res)
        chk.note(f"mc {name}: {res.distinct} states, {res.generated} transitions, {res.wall:.1f}s, "
                 f"violated={res.violated}")


def gen_graph(chk: Check, name: str, consts: dict) -> graph.Graph:
    cfg = tlc.cfg_text(constants=consts, invariants=["Emit"], constraints=["Bounded"])
    res = tlc.run("RecordMC", cfg, workers=1, timeout=3000)
    if not res.ok:
        raise MachineryFailure(f"TLC generation run {name} failed: {res.out[-2000:]}")
    g = graph.Graph.from_lines(res.printed())
    if len(g.states) != res.distinct:
        raise MachineryFailure(f"emitted graph has {len(g.states)} states, TLC reports {res.distinct}")
    chk.add_tlc("gen:" + name, res)
    g.name = name
    return g


def hdr_from_consts(consts, param, tick):
    n = max(math.ceil(consts["Dur0"] / consts["Dt0"]) + int(consts["Incl0"]), 1)
    dyadic = float(tick).hex().rstrip("0").endswith(("p", "x1.")) or math.log2(tick) == int(math.log2(tick))
    hdr = {"kind": consts["Kind0"], "dty": consts["Dty0"], "dtk": consts["Dt0"], "durk": consts["Dur0"],
           "incl": consts["Incl0"], "E0": consts["E0"], "shape": (consts["E0"],), "param": param, "tick": tick,
           "track_temporal": dyadic}
    if not dyadic:
        # duration/dt is not exactly representable: give the constructor a duration whose
        # quotient is half a step away from the rounding boundary (same record size)
        dt_s = consts["Dt0"] * tick
        q = n - 1 if consts["Incl0"] else n
        hdr["dt_s"], hdr["dur_s"] = dt_s, max(0.0, (q - 0.5) * dt_s) if q > 0 else 0.0
    return hdr


def replay_graph(chk: Check, g: graph.Graph, consts: dict, *, budget, rng, param, tick, deviate=None,
                 report=True):
    hdr = hdr_from_consts(consts, param, tick)
    if param and hdr["kind"] == "none":
        hdr["kind"] = "empty"   # a parameter record cannot hold None; start from an empty parameter
    hdr["offdt"] = rng.choice(OFFDT)
    make = lambda: RecordImpl(hdr)
    init_key = graph.canon(make().project())
    if init_key not in g.states:
        # parameter replay starts from "empty": find it in the graph
        raise MachineryFailure(f"initial implementation state not in emitted graph {g.name}: {init_key}")
    mism = []

    def on_mismatch(sig, rep):
        rep = dict(rep, hdr=hdr, graph=g.name)
        sig = dict(sig, storage="parameter" if param else "buffer")
        sig.update(_refine_signature(rep))
        mism.append((sig, rep))
        if report:
            chk.violation(sig, rep)

    # a parameter can never be assigned None (documented RuntimeError): not offered there
    flt = (lambda op: op.get("a") != "assign_none") if param else None
    stats = graph.replay(g, init_key, make, budget=budget, rng=rng, on_mismatch=on_mismatch, deviate=deviate,
                         op_filter=flt)
    if report:
        chk.evaluations += stats.edges
        for k, o in stats.pairs:
            if '"kind":"ready"' in k:
                chk.nontrivial.add((g.name, k, o))
        chk.extra["replayed_edges"] = chk.extra.get("replayed_edges", 0) + stats.edges
        chk.extra["impl_states_visited"] = chk.extra.get("impl_states_visited", 0) + len(stats.states_visited)
        chk.note(f"replay {g.name} param={param} tick={tick}: {stats.edges} edges of {g.n_edges}, "
                 f"{len(stats.states_visited)}/{len(g.states)} states, mismatches={len(stats.mismatches)}")
        if stats.pairs:
            k, o = next(iter(stats.pairs))
            chk.sample({"kind": "replayed-edge", "state": k, "op": o})
    return stats, mism


def _refine_signature(rep):
    """Attributes of a failing edge that identify *what* fails (used to match known
    findings precisely, never to hide a different failure)."""
    op = rep.get("op") or {}
    st = rep.get("state") or {}
    out = {}
    if isinstance(op, dict):
        a = op.get("a")
        if a in ("readrange", "writerange"):
            L = op.get("L", len(op.get("vs", [])))
            out["len_eq_n"] = (L == st.get("n"))
            out["tens"] = op.get("tens")
        if "d" in op:
            out["payload_dtype_differs"] = (op["d"] != st.get("dty"))
        out["kind"] = st.get("kind")
        obs = rep.get("observed", {}).get("ret", {})
        if obs.get("t") == "err":
            out["raised"] = obs.get("e")
    return out


# ------------------------------------------------------------------ direction B
SHAPES = [(), (1,), (2,), (3,), (2, 2), (2, 3)]


def _payload(rng, d, E, hi=8):
    if d == "f":
        return [rng.randint(0, hi) for _ in range(E)]
    if d == "i":
        return [2 * rng.randint(0, hi // 2) for _ in range(E)]
    return [2 * rng.randint(0, 1) for _ in range(E)]


def random_op(rng, st, E, families, D, same_dtype_only=False):
    n = st["n"]
    fam = rng.choice(families)
    K = lambda: rng.randint(0, 2 * n)
    dts = ["f", "i", "b"]
    sd = st["dty"] if st["dty"] in dts else "f"
    d = sd if (same_dtype_only or rng.random() < 0.6) else rng.choice(dts)
    if fam == "basic":
        a = rng.choice(["push", "push", "push", "pop", "peek", "read", "write", "incr", "decr", "align", "reset",
                        "latest_get", "latest_set", "latest_del"])
        if a == "push":
            return {"a": a, "v": _payload(rng, d, E), "d": d, "inpl": rng.random() < 0.5}
        if a == "latest_set":
            return {"a": a, "v": _payload(rng, d, E), "d": d}
        if a == "write":
            return {"a": a, "v": _payload(rng, d, E), "d": d, "k": K(), "inpl": rng.random() < 0.5}
        if a == "read":
            return {"a": a, "k": K()}
        if a in ("incr", "decr"):
            return {"a": a, "p": K()}
        if a == "align":
            return {"a": a, "i": rng.randint(0, n - 1) if rng.random() < 0.9 else n}
        if a == "reset":
            return {"a": a, "fill": rng.choice([-1, 0, 2, 3, 4])}
        return {"a": a}
    if fam in ("range", "trange"):
        tens = fam == "trange"
        L = rng.randint(1, n) if rng.random() < 0.95 else n + 1
        if rng.random() < 0.25:
            L = n
        o = {"a": rng.choice(["readrange", "writerange"]), "fwd": rng.random() < 0.5, "tens": tens}
        if tens:
            o["kv"] = [K() for _ in range(E)]
        else:
            o["k"] = K()
        if o["a"] == "readrange":
            o["L"] = min(L, n)
        else:
            o["vs"] = [_payload(rng, d, E) for _ in range(L)]
            o["d"] = d
            o["inpl"] = rng.random() < 0.5
        return o
    if fam == "life":
        a = rng.choice(["initialize", "deinit", "assign_none", "push", "push"] if not st.get("_param")
                       else ["initialize", "deinit", "push", "push"])
        if a == "initialize":
            return {"a": a, "E": E, "fill": rng.choice([0, 2, 3])}
        if a == "deinit":
            return {"a": a, "uninit": rng.random() < 0.5}
        if a == "push":
            return {"a": a, "v": _payload(rng, d, E), "d": d, "inpl": rng.random() < 0.5}
        return {"a": a}
    if fam == "time":
        hi = D * (n - 1)
        def tau():
            r = rng.random()
            if r < 0.1:
                return rng.choice([-2, -1, hi + 1, hi + 2])
            return rng.randint(0, max(hi, 0))
        tens = rng.random() < 0.5
        tol = rng.choice([0, 1]) if D >= 4 else 0
        o = {"a": rng.choice(["select", "insert"]), "tens": tens, "off": rng.randint(0, 3), "tol2": 2 * tol + 1}
        if tens:
            o["tauv"] = [tau() for _ in range(E)]
        else:
            o["tau"] = tau()
        if o["a"] == "insert":
            o["v"] = _payload(rng, "f", E)
            o["pv"] = [20 + 2 * rng.randint(0, 3) for _ in range(E)]
            o["nv"] = [40 + 2 * rng.randint(0, 3) for _ in range(E)]
            o["inpl"] = rng.random() < 0.5
        return o
    if fam == "resize":
        a = rng.choice(["set_dt", "set_duration", "set_inclusive"])
        if a == "set_dt":
            return {"a": a, "x": rng.choice([1, 2, 3, 4, 6, 8])}
        if a == "set_duration":
            return {"a": a, "x": rng.randint(0, 24)}
        return {"a": a, "x": rng.random() < 0.5}
    if fam == "recon":
        return {"a": "recon", "size": rng.choice([-1, 1, 2, 3, E, E])}
    raise KeyError(fam)


def random_record_traces(rng, count, families, steps=30, dyadic_only=False, track_temporal=False):
    traces = []
    for t in range(count):
        shape = rng.choice(SHAPES if "recon" not in families else [(1,), (2,), (3,)])
        n = rng.choice([1, 1, 2, 2, 3, 3, 4, 5, 6, 7, 8, 9])
        D = rng.choice([1, 2, 4]) if "time" not in families else 4
        tick = rng.choice([0.25, 0.5, 0.125] if (dyadic_only or track_temporal) else [0.25, 0.5, 0.325, 0.025, 0.075])
        incl = rng.random() < 0.3
        kind = rng.choice(["ready", "ready", "none", "empty", "uninit"])
        dty = rng.choice(["f", "f", "i", "b"]) if "time" not in families else "f"
        param = rng.random() < 0.4 and kind != "none"
        dt_s = D * tick
        if track_temporal:
            durk = D * (n - 1 if incl else n)
            if incl and n == 1:
                durk = 0
            dur_s = durk * tick
        else:
            durk = D * n
            dur_s = max(0.0, ((n - 1.5) if incl else (n - 0.5)) * dt_s) if not (incl and n == 1) else 0.0
        hdr = {"kind": kind, "dty": dty, "dtk": D, "durk": durk, "incl": incl, "shape": list(shape),
               "param": param, "tick": tick, "dt_s": dt_s, "dur_s": dur_s, "track_temporal": track_temporal,
               "offdt": rng.choice(OFFDT)}
        impl = RecordImpl(hdr)
        st = impl.project()
        if st["n"] != n:
            raise MachineryFailure(f"driver built a record of size {st['n']} instead of {n}: {hdr}")
        E0 = math.prod(shape) if shape else 1
        evs = []
        for _ in range(steps):
            E = len(st["store"][0]) if st["kind"] == "ready" else E0
            fams = list(families)
            if st["kind"] != "ready" and rng.random() < 0.5:
                fams = ["life"] if "life" in families else fams
            o = random_op(rng, dict(st, _param=param), E, fams, st["dtk"] if st["dtk"] > 0 else D)
            ret = impl.apply(o)
            st = impl.project()
            evs.append({"op": o, "ret": ret, "st": st})
        traces.append({"hdr": {"init": RecordImpl(hdr).project(), "cfg": hdr, "waive": []}, "ev": evs})
    return traces


def validate_traces(chk: Check, traces, site: str, module="RecordTrace", report=True):
    # TLC reads the traces; events must only hold what the spec compares
    stats, rej = tracecheck.validate(module, traces)
    if report:
        chk.traces += len(traces)
        chk.transitions += stats["generated"]
        chk.states += stats["distinct"]
        nev = 0
        for ti, t in enumerate(traces):
            for e in t["ev"]:
                nev += 1
                if e["st"]["kind"] == "ready":
                    chk.nontrivial.add(("trace", ti, nev))
        chk.evaluations += nev
        chk.extra["trace_events"] = chk.extra.get("trace_events", 0) + nev
        chk.note(f"traces[{site}]: {len(traces)} traces, {nev} events, rejected lines={len(rej)}")
        chk.sample({"kind": "trace", "hdr": traces[0]["hdr"]["cfg"], "first_events": traces[0]["ev"][:3]})
        for r in rej:
            t = traces[r["trace"]]
            prev = t["ev"][r["line"] - 2]["st"] if r["line"] > 1 else t["hdr"]["init"]
            exp = (r["diag"] or {}).get("expected")
            clause = _clause(r["event"], exp, r["diag"])
            rep = {"hdr": t["hdr"]["cfg"], "ops": [e["op"] for e in t["ev"][: r["line"]]], "line": r["line"],
                   "state": prev, "op": r["event"]["op"], "expected": exp,
                   "observed": {"ret": r["event"]["ret"], "st": r["event"]["st"]}}
            sig = {"clause": clause, "op": r["event"]["op"].get("a"), "site": site,
                   "storage": "parameter" if t["hdr"]["cfg"].get("param") else "buffer"}
            sig.update(_refine_signature(rep))
            chk.violation(sig, rep)
    return stats, rej


def _clause(ev, expected, diag):
    if diag is not None and diag.get("refok") is False:
        return "AbsOK"
    if not expected:
        return "Unexplained"
    cr, cs = graph.canon(ev["ret"]), graph.canon(ev["st"])
    if not any(graph.canon(o["ret"]) == cr for o in expected):
        return "RetOK"
    if not any(graph.canon(o["st"]) == cs for o in expected):
        return "StateOK"
    return "OutcomeOK"


def canary_trace(chk: Check, trace, module="RecordTrace"):
    """A trace with one corrupted field must be rejected at that line; an untouched copy
    must be accepted - otherwise the binding is not doing anything.  `trace` may be a list of
    traces: the first one that validation accepted is used (a trace that already contains a real
    violation cannot serve as a canary; if every trace was rejected the violations speak for
    themselves and the canary is skipped)."""
    if isinstance(trace, list):
        ok = [t for t in trace if not t["hdr"].get("waive") and len(t["ev"]) > 1]
        if not ok:
            chk.note("canary skipped: no accepted trace available (violations are being reported)")
            return
        trace = ok[0]
    good = copy.deepcopy(trace)
    good["hdr"]["waive"] = []
    bad = copy.deepcopy(good)
    # corrupt the pointer reported after the first event that has ready storage
    line = None
    for i, e in enumerate(bad["ev"]):
        if e["st"]["kind"] == "ready":
            e["st"]["ptr"] = (e["st"]["ptr"] + 1) % max(e["st"]["n"], 2)
            line = i + 1
            break
    if line is None:
        bad["ev"][0]["ret"] = {"t": "int", "i": 12345}
        line = 1
    stats, rej = tracecheck.validate(module, [good, bad], shards=1, max_waive_rounds=1)
    lines = {(r["trace"], r["line"]) for r in rej}
    if any(t == 0 for t, _ in lines):
        if chk.violations:
            chk.note("canary skipped: its base trace is rejected by a violation that is being reported")
            return
        raise MachineryFailure(f"canary: the untouched copy of an accepted trace was rejected: {lines}")
    if (1, line) not in lines:
        raise MachineryFailure(f"canary: corrupted trace was accepted (expected rejection at line {line}, got {lines})")
    chk.extra["canary_trace_rejected_at_line"] = line
    chk.note(f"canary: corrupted trace rejected at line {line}")


def replay_file(pid: str, path: str) -> int:
    """Re-execute a recorded violation against the current tree: exit 1 (and the VIOLATION
    line) if the implementation still leaves the specified outcome set, else 0."""
    import json
    d = json.load(open(path))
    rep = d["replay"]
    hdr = rep["hdr"]
    impl = RecordImpl(hdr)
    ops = rep.get("path")
    if ops is None:
        ops = rep.get("ops", [])[:-1]
    for o in ops:
        impl.apply(o)
    op = rep.get("op")
    if op is None or op == "path":
        got = impl.project()
        ok = graph.canon(got) == graph.canon(rep.get("expected_state"))
        print(f"[{pid}] replay: state after path {'matches' if ok else 'differs from'} the specified state")
    else:
        ret = impl.apply(op)
        st = impl.project()
        exp = rep.get("expected") or []
        ok = any(graph.canon(o["ret"]) == graph.canon(ret) and graph.canon(o["st"]) == graph.canon(st) for o in exp)
        print(f"[{pid}] replay: op={op} observed ret={ret} state={st}")
        print(f"[{pid}] replay: specified outcomes={exp}")
    if ok:
        print(f"[{pid}] replay: the recorded violation no longer reproduces")
        return 0
    print(f"VIOLATION property={pid} replay={path}")
    return 1


def canary_replay(chk: Check, g: graph.Graph, consts: dict, rng):
    """A replay in which the implementation's reported return values are corrupted must
    produce mismatches; otherwise the comparison is not comparing anything."""
    def deviate(op, ret, st):
        if ret.get("t") == "val":
            ret = dict(ret, v=[x + 2 for x in ret["v"]])
        elif ret.get("t") == "sel":
            ret = dict(ret, r=[{"x": "ex", "v": -5}] + list(ret["r"][1:]))
        elif ret.get("t") in ("ok", "ins") and st.get("kind") == "ready":
            st = dict(st, ptr=(st["ptr"] + 1) % max(st["n"], 2))
        return ret, st
    stats, mism = replay_graph(chk, g, consts, budget=400, rng=rng, param=False, tick=0.25, deviate=deviate,
                               report=False)
    if not mism:
        raise MachineryFailure("canary: deviating replay produced no mismatch")
    chk.extra["canary_replay_mismatches"] = len(mism)
    chk.note(f"canary: deviating replay rejected ({len(mism)} mismatches in {stats.edges} edges)")
