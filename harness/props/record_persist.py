"""Extension of the RecordTensor family (DESIGN section 7 item 2 + persistence clause of C12):
spec/RecordPersist.tla, spec/RecordPersistMC.tla.

  1. state_dict persistence of a RecordTensor: save / load between two owners with independent
     histories and sizes, persist_data / persist_constraints / persist_temporal, buffer and
     Parameter storage, all storage kinds;
  2. finalisers of ShapedTensor / RecordTensor (attribute removal on collection, owner first,
     re-creation under the same name);
  3. `.value = tensor` (live / not live) and initialize(dtype=, fill=) over all storage kinds.

T: RecordPersistMC explores all interleavings to a depth bound (one worker per run, many runs in
   parallel) with the property invariants evaluated at every state.
A: the emitted outcome tables are executed edge by edge on real Modules.
"""
from __future__ import annotations
import json, random, time
from concurrent.futures import ThreadPoolExecutor
from ..core import Check, MachineryFailure
from .. import tlc, graph
from ..impl_record_persist import PersistImpl, FinImpl

MODULE = "RecordPersistMC"
P_INV = ["LoadRestores", "LoadRestoresConfig", "LoadPointer", "LoadKeepsRest", "LoadSafe", "SaveKeeps", "SameFuture",
         "WellFormed", "AssignProps"]
F_INV = ["FinalUsable", "FinalClean", "FinalOnlyOwn", "FinalNoRaise"]


def pconsts(*, depth, kinds, dur=0, kind0="ready", dty0="f", E0=1, dt=4, incl=False, pdata=True, pcons=False, ptmp=False,
            param=False, live=False, vals_a=(2,), vals_b=(4,), durset=(0, 12)):
    return dict(Mode="persist", E0=E0, Kind0=kind0, Dty0=dty0, Dt0=dt, Dur0=dur, Incl0=incl, PData=pdata, PCons=pcons,
                PTmp=ptmp, Param=param, Live=live, ValsA=set(vals_a), ValsB=set(vals_b), DurSet=set(durset),
                OpKinds=set(kinds), Names={"p"}, Wipes=False, MaxDepth=depth)


def fconsts(*, depth, names=("p", "q"), wipes=False):
    c = pconsts(depth=depth, kinds=("push",))
    c.update(Mode="final", Names=set(names), Wipes=wipes)
    return c


def hdr_of(c, tick=0.25):
    return {"kind": c["Kind0"], "dty": c["Dty0"], "dtk": c["Dt0"], "durk": c["Dur0"], "incl": c["Incl0"], "E0": c["E0"],
            "shape": (c["E0"],), "param": c["Param"], "tick": tick, "pdata": c["PData"], "pcons": c["PCons"],
            "ptmp": c["PTmp"], "live": c["Live"]}


CK = ("push", "incr", "resize", "ckpt")


def _jobs(tier):
    """(name, constants, invariants, expect_violation)"""
    q = tier == "quick"
    d = 5 if q else 6
    jobs = [
        # the m1 shape of history: built with one slot, lengthened later
        ("P-n1-ready", pconsts(depth=d, kinds=CK, dur=0), P_INV, None),
        ("P-n1-none", pconsts(depth=d, kinds=CK, dur=0, kind0="none"), P_INV, None),
        ("P-n2-param", pconsts(depth=d, kinds=CK, dur=8, param=True, durset=(4, 12)), P_INV, None),
        ("P-n1-tmpcon", pconsts(depth=d, kinds=CK, dur=0, ptmp=True, pcons=True), P_INV, None),
        ("P-n1-tmp", pconsts(depth=d - 1, kinds=CK, dur=0, ptmp=True), P_INV, None),
        ("P-n2-nodata", pconsts(depth=d - 1, kinds=CK, dur=8, pdata=False, durset=(8, 12)), P_INV, None),
        ("P-n2-nodata-none", pconsts(depth=d - 1, kinds=CK, dur=8, kind0="none", pdata=False, durset=(8, 12)), P_INV, None),
        ("P-life", pconsts(depth=4 if q else 5, kinds=("push", "life", "ckpt"), dur=8, kind0="none", durset=(8,)), P_INV, None),
        ("P-life-param", pconsts(depth=4 if q else 5, kinds=("push", "life", "ckpt"), dur=8, kind0="uninit", param=True,
                                 durset=(8,)), P_INV, None),
        ("P-int-target", pconsts(depth=4, kinds=("push", "init", "ckpt"), dur=8, vals_a=(3,), vals_b=(4,), durset=(8,)),
         P_INV, None),
        # part 3
        ("X-assign", pconsts(depth=3, kinds=("push", "assign"), dur=8, durset=(8, 12)), P_INV, None),
        ("X-assign-live", pconsts(depth=3, kinds=("push", "assign"), dur=8, durset=(8, 12), live=True), P_INV, None),
        ("X-assign-param", pconsts(depth=3, kinds=("push", "assign"), dur=8, durset=(8, 12), param=True, live=True,
                                   kind0="uninit"), P_INV, None),
        ("X-init", pconsts(depth=2 if q else 3, kinds=("push", "init"), dur=8, kind0="none", vals_a=(3,), durset=(8,)),
         P_INV, None),
        ("X-init-param", pconsts(depth=2 if q else 3, kinds=("push", "init"), dur=8, kind0="uninit", param=True,
                                 vals_a=(3,), durset=(8,)), P_INV, None),
        # part 2
        ("F-2names", fconsts(depth=4 if q else 5), F_INV, None),
        # documented hazards / deviations: these invariants must FAIL
        ("H-refused-load", pconsts(depth=4, kinds=CK, dur=0), ["RefusedLoadNoSideEffects"], "RefusedLoadNoSideEffects"),
        ("H-size-formula", pconsts(depth=4, kinds=CK, dur=0, kind0="none", ptmp=True), ["SizeFormulaAfterLoad"],
         "SizeFormulaAfterLoad"),
        ("H-finalizer-wipes", fconsts(depth=3, names=("p",), wipes=True), ["FinalUsable"], "FinalUsable"),
    ]
    if not q:
        jobs += [
            ("P-n1-ready-2vals", pconsts(depth=5, kinds=CK, dur=0, vals_a=(2, 6), vals_b=(4,)), P_INV, None),
            ("P-n3-incl", pconsts(depth=5, kinds=CK, dur=8, incl=True, durset=(0, 8)), P_INV, None),
            ("P-n1-con", pconsts(depth=5, kinds=CK, dur=0, pcons=True), P_INV, None),
            ("P-E2", pconsts(depth=5, kinds=CK, dur=0, E0=2), P_INV, None),
            ("F-3names", fconsts(depth=4, names=("p", "q", "r")), F_INV, None),
        ]
    return jobs


def _gens(tier):
    q = tier == "quick"
    g = [
        ("G-n1-ready", pconsts(depth=4, kinds=CK, dur=0)),
        ("G-n1-tmpcon", pconsts(depth=3 if q else 4, kinds=CK, dur=0, ptmp=True, pcons=True)),
        ("G-n2-param", pconsts(depth=3 if q else 4, kinds=CK, dur=8, param=True, durset=(4, 12))),
        ("G-life", pconsts(depth=3, kinds=("push", "life", "ckpt"), dur=8, kind0="none", durset=(8,))),
        ("G-life-param", pconsts(depth=3, kinds=("push", "life", "ckpt"), dur=8, kind0="uninit", param=True, durset=(8,))),
        ("G-nodata", pconsts(depth=3, kinds=CK, dur=8, pdata=False, durset=(8, 12))),
        ("G-nodata-none", pconsts(depth=4, kinds=CK, dur=8, kind0="none", pdata=False, durset=(8, 12))),
        ("G-int-target", pconsts(depth=3, kinds=("push", "init", "ckpt"), dur=8, vals_a=(3,), vals_b=(4,), durset=(8,))),
        ("G-assign", pconsts(depth=2, kinds=("push", "assign"), dur=8, durset=(8, 12))),
        ("G-assign-live-param", pconsts(depth=2, kinds=("push", "assign"), dur=8, durset=(8, 12), param=True, live=True,
                                        kind0="uninit")),
        ("G-init", pconsts(depth=2, kinds=("push", "init"), dur=8, kind0="none", vals_a=(3,), durset=(8,))),
        ("G-init-param", pconsts(depth=2, kinds=("push", "init"), dur=8, kind0="uninit", param=True, vals_a=(3,), durset=(8,))),
    ]
    # the finaliser graph comes FIRST: its replay calls gc.collect() after every operation, whose cost grows with
    # the number of live objects (the parsed outcome tables of the larger graphs are millions of them)
    g.insert(0, ("G-final", fconsts(depth=3 if q else 4)))
    if not q:
        g += [("G-n1-none", pconsts(depth=4, kinds=CK, dur=0, kind0="none")),
              ("G-n1-tmp", pconsts(depth=4, kinds=CK, dur=0, ptmp=True)),
              ]
        g.insert(1, ("G-final-3", fconsts(depth=3, names=("p", "q", "r"))))
    return g


def _run_mc(job):
    name, c, invs, expect = job
    res = tlc.run(MODULE, tlc.cfg_text(constants=c, invariants=invs), workers=1, timeout=3000)
    named = None
    if res.violated and not expect and len(invs) > 1:
        named = []
        for inv in invs:
            r2 = tlc.run(MODULE, tlc.cfg_text(constants=c, invariants=[inv]), workers=1, timeout=3000)
            if r2.violated:
                named.append((inv, r2.out[-3000:]))
    return name, c, res, expect, named


def _gen(job):
    name, c = job
    return name, c, tlc.run(MODULE, tlc.cfg_text(constants=c, invariants=["Emit"]), workers=1, timeout=3000)


def _opname(op):
    if not isinstance(op, dict):
        return "path"
    if op.get("a") == "on":
        return "on:" + str(op.get("op", {}).get("a"))
    return str(op.get("a"))


def _sig_extra(rep, c):
    out = {"flags": "".join(k for k, f in (("D", c["PData"]), ("C", c["PCons"]), ("T", c["PTmp"]), ("P", c["Param"]),
                                             ("L", c["Live"])) if f)}
    obs = (rep.get("observed") or {}).get("ret") or {}
    if isinstance(obs, dict) and obs.get("t") == "err":
        out["raised"] = obs.get("e")
    st, op = rep.get("state"), rep.get("op")
    if isinstance(st, dict) and isinstance(op, dict) and op.get("a") in ("load", "save") and "A" in st:
        out["target_kind"] = st[op["who"]].get("kind")
        if op["a"] == "load":
            out["snapshot_data"] = st["snap"].get("data")
    if isinstance(st, dict) and isinstance(op, dict) and c["Mode"] == "final" and op.get("a") == "create":
        out["over_existing"] = any(ob["name"] == op["name"] and ob["bound"] for ob in st.get("objs", []))
    return out


def replay_graph(chk: Check, g: graph.Graph, c: dict, *, budget, rng, deviate=None, report=True, tick=0.25):
    if c["Mode"] == "final":
        hdr = {"names": sorted(c["Names"]), "wipes": c["Wipes"], "param": rng.random() < 0.3}
        make = lambda: FinImpl(hdr)
    else:
        hdr = hdr_of(c, tick)
        make = lambda: PersistImpl(hdr)
    init_key = graph.canon(make().project())
    if init_key not in g.states:
        raise MachineryFailure(f"initial implementation state not in emitted graph {g.name}: {init_key[:600]}")
    mism = []

    def on_mismatch(sig, rep):
        rep = dict(rep, hdr=hdr, graph=g.name)
        sig = dict(sig, site="RecordPersist/" + sig.get("site", "graph-replay"), op=_opname(rep.get("op")))
        sig.update(_sig_extra(rep, c))
        mism.append((sig, rep))
        if report:
            chk.violation(sig, rep)

    stats = graph.replay(g, init_key, make, budget=budget, rng=rng, on_mismatch=on_mismatch, deviate=deviate,
                         op_class=_opname)
    if report:
        chk.evaluations += stats.edges
        classes = chk.extra.setdefault("record_persist_edge_classes", {})
        index = {k: {graph.canon(op): outs for op, outs in tab} for k, tab in g.table.items()}
        for k, o in stats.pairs:
            op = json.loads(o)
            outs = index[k][o]
            ret = outs[0]["ret"]
            cl = _opname(op) + "/" + (ret.get("e") or ret.get("t"))
            if op.get("a") == "load":
                cl += "/" + g.states[k]["snap"]["data"] + "->" + g.states[k][op["who"]]["kind"]
            classes[cl] = classes.get(cl, 0) + 1
            if op.get("a") in ("load", "save", "create", "del_attr", "drop", "del_owner") or \
               (op.get("a") == "on" and op["op"]["a"] in ("assign", "initialize_d")):
                chk.nontrivial.add(("rp", g.name, k, o))
        chk.extra["record_persist_replayed_edges"] = chk.extra.get("record_persist_replayed_edges", 0) + stats.edges
        chk.note(f"record-persist replay {g.name}: {stats.edges} edges of {g.n_edges}, "
                 f"{len(stats.states_visited)}/{len(g.states)} states, mismatches={len(stats.mismatches)}")
    return stats, mism


REQUIRED = ("load/ok/ready->ready", "load/RuntimeError/ready->ready", "load/RuntimeError/ready->none", "save/ok",
            "save/ValueError", "on:assign/ok", "on:assign/ValueError", "on:initialize_d/ok", "create/ok", "del_attr/ok",
            "drop/ok", "del_owner/ok")


def run_record_persist(chk: Check, tier: str, rng: random.Random):
    t0 = time.time()
    quick = tier == "quick"
    ex = ThreadPoolExecutor(max_workers=16)
    gen_f = [ex.submit(_gen, j) for j in _gens(tier)]
    mc_f = [ex.submit(_run_mc, j) for j in _jobs(tier)]
    try:
        first = None
        for f in gen_f:
            name, c, res = f.result()
            if not res.ok:
                raise MachineryFailure(f"TLC generation run {name} failed: {res.out[-2000:]}")
            g = graph.Graph.from_lines(res.printed())
            if len(g.states) != res.distinct:
                raise MachineryFailure(f"emitted graph {name} has {len(g.states)} states, TLC reports {res.distinct}")
            g.name = name
            chk.add_tlc("rp-gen:" + name, res)
            replay_graph(chk, g, c, budget=(3000 if quick else None), rng=rng, tick=rng.choice([0.25, 0.5, 0.125]))
            if first is None and c["Mode"] == "persist":
                first = (g, c)
                # canary: a replay that reports a different pointer after every accepted load must be flagged
                def deviate(op, ret, st):
                    if op.get("a") == "load" and ret.get("t") == "ok":
                        w = op["who"]
                        st = dict(st)
                        st[w] = dict(st[w], ptr=st[w]["ptr"] + 1)
                    return ret, st
                _, mism = replay_graph(chk, g, c, budget=3000, rng=random.Random(rng.random()), deviate=deviate, report=False)
                if not mism:
                    raise MachineryFailure("record-persist canary: deviating replay was accepted")
                chk.extra["record_persist_canary_mismatches"] = len(mism)
                chk.note(f"record-persist canary: deviating replay rejected ({len(mism)} mismatches)")
                k = next((k for k in g.order if g.states[k]["snap"]["some"]), g.order[-1])
                chk.sample({"kind": "record-persist-state", "state": g.states[k]})
        classes = chk.extra.get("record_persist_edge_classes", {})
        missing = [k for k in REQUIRED if not any(c.startswith(k) for c in classes)]
        if missing:
            raise MachineryFailure(f"record-persist replay is vacuous for {missing}")

        hazards = {}
        for f in mc_f:
            name, c, res, expect, named = f.result()
            if expect:
                if expect not in res.violated:
                    hazards[name] = "holds"
                    chk.note(f"record-persist: documented hazard {expect} is no longer reachable in {name}")
                else:
                    hazards[name] = "reachable"
                continue
            if res.violated:
                for cl in ([n for n, _ in (named or [])] or res.violated):
                    chk.violation({"clause": "MC:" + cl, "op": "spec", "site": "RecordPersistMC", "config": name},
                                  {"config": name, "constants": {k: (sorted(v) if isinstance(v, set) else v) for k, v in c.items()},
                                   "tlc_tail": dict(named or []).get(cl, res.out[-4000:])})
            elif not res.ok:
                raise MachineryFailure(f"TLC run {name} did not complete: {res.out[-2000:]}")
            elif res.depth != c["MaxDepth"] + 1 and not (c["Mode"] == "final" and res.depth <= c["MaxDepth"] + 1):
                # (the finaliser model is finite since `create` needs a free name: its exploration may close earlier)
                raise MachineryFailure(f"TLC run {name} explored depth {res.depth}, expected {c['MaxDepth'] + 1}")
            chk.add_tlc("rp-mc:" + name, res)
            chk.note(f"record-persist mc {name}: {res.distinct} states, {res.generated} transitions, {res.wall:.1f}s, "
                     f"violated={res.violated}")
        chk.extra["record_persist_documented_hazards"] = hazards
    finally:
        ex.shutdown(wait=False, cancel_futures=True)
    chk.note(f"record-persist part: {time.time() - t0:.1f}s")


def run_unready_resize(chk: Check, tier: str, rng: random.Random):
    """C13's clause "never fails merely because storage is not initialised yet", on the one path that leaves an
    UNINITIALISED record with a non-zero write position: a checkpoint of a record whose data is not persisted
    (persist_data=False) restores only the pointer; the temporal setters must still resize such a record.
    RecordPersistMC with not-ready initial storage, model-checked and replayed (used by ./check C13)."""
    c = pconsts(depth=4 if tier == "quick" else 5, kinds=CK, dur=8, kind0="none", pdata=False, durset=(8, 12))
    name, c, res, expect, named = _run_mc(("P-unready-resize", dict(c), P_INV, None))
    if res.violated:
        chk.violation({"clause": "MC:" + ",".join(res.violated), "op": "spec", "site": "RecordPersistMC", "config": name},
                      {"config": name, "tlc_tail": res.out[-3000:]})
    elif not res.ok:
        raise MachineryFailure(f"TLC run {name} did not complete: {res.out[-2000:]}")
    chk.add_tlc("rp-mc:" + name, res)
    gname, c, gres = _gen(("G-unready-resize", c))
    if not gres.ok:
        raise MachineryFailure(f"TLC generation run {gname} failed: {gres.out[-2000:]}")
    g = graph.Graph.from_lines(gres.printed())
    g.name = gname
    chk.add_tlc("rp-gen:" + gname, gres)
    replay_graph(chk, g, c, budget=(2500 if tier == "quick" else None), rng=rng, tick=rng.choice([0.25, 0.5]))
    classes = chk.extra.get("record_persist_edge_classes", {})
    if not any(k.startswith("load/ok/no->none") for k in classes):
        raise MachineryFailure("unready-resize replay is vacuous: no pointer-only load into unready storage was executed")
