"""Extension of the C13 check: the public static ShapedTensor.resize (spec/ResizeMC.tla).  TLC checks the documented
properties of the slice-sequence model for every length, size, side and fill; the emitted table is executed on real
tensors and Parameters along every dimension of 1-, 2- and 3-dimensional values."""
from __future__ import annotations
import random
from ..core import Check, MachineryFailure
from .. import tlc

INV = ["Refinement", "EndKept", "ShrinkGrow", "Same"]


def run_resize(chk: Check, rng: random.Random, thorough: bool):
    from ..core import setup_repo_path
    setup_repo_path()
    import torch
    from inferno import ShapedTensor
    c = dict(MaxLen=5 if thorough else 4, MaxSize=6 if thorough else 5, Fills={0, 9})
    res = tlc.run("ResizeMC", tlc.cfg_text(constants=c, invariants=INV), workers=2, timeout=1200)
    if res.violated:
        chk.violation({"clause": "MC:" + ",".join(res.violated), "site": "spec:Resize"}, {"tlc_tail": res.out[-3000:], "extension": "Resize"})
        return
    if not res.ok:
        raise MachineryFailure(f"ResizeMC did not complete: {res.out[-2000:]}")
    chk.add_tlc("mc:resize", res)
    gres = tlc.run("ResizeMC", tlc.cfg_text(constants=c, invariants=["Emit"]), workers=1, timeout=1200)
    docs = [d for d in gres.printed() if isinstance(d, dict) and "out" in d]
    if not gres.ok or len(docs) != gres.distinct:
        raise MachineryFailure(f"ResizeMC generation failed: {gres.out[-1500:]}")
    n = 0
    bad = []

    def build(seq, nd, dim, dtype):
        # slice j of dimension `dim` holds j everywhere; the other dimensions have sizes 2 (or 3)
        shape = [2, 3, 2][:nd]
        shape[dim] = len(seq)
        t = torch.zeros(shape, dtype=dtype)
        idx = [None] * nd
        view = [1] * nd
        view[dim] = len(seq)
        return t + torch.tensor(seq, dtype=dtype).reshape(view) if len(seq) else t

    for doc in docs:
        seq = list(doc["s"])
        for o in doc["out"]:
            op, want = o["op"], list(o["res"])
            for nd, dim, dtype, param in ((1, 0, torch.float32, False), (2, 0, torch.float32, True), (2, 1, torch.int64, False),
                                          (2, -1, torch.float32, False), (3, 1, torch.float64, True), (3, -3, torch.bool, False)):
                if dtype == torch.bool and (any(v > 1 for v in seq) or op["fill"] > 1):
                    continue
                if param and not dtype.is_floating_point:
                    continue
                n += 1
                v = build(seq, nd, dim % nd, dtype)
                val = torch.nn.Parameter(v.clone(), False) if param else v.clone()
                try:
                    got = ShapedTensor.resize(val, dim, op["size"], preserve_tail=op["tail"], fill=op["fill"])
                except Exception as ex:
                    bad.append(({"clause": "Raised", "exc": type(ex).__name__}, dict(op=op, seq=seq, nd=nd, dim=dim, dtype=str(dtype), error=repr(ex))))
                    continue
                exp = build(want, nd, dim % nd, dtype)
                ok = tuple(got.shape) == tuple(exp.shape) and got.dtype == dtype and bool((got.detach() == exp).all())
                if param:
                    ok = ok and got is val                       # the same Parameter, its data replaced
                elif op["size"] == len(seq):
                    ok = ok and got is val                       # unchanged size: the very same tensor
                if not ok:
                    bad.append(({"clause": "ResizeOK", "param": param, "tail": op["tail"], "grow": op["size"] > len(seq)},
                                dict(op=op, seq=seq, nd=nd, dim=dim, dtype=str(dtype), param=param, specified=want,
                                     observed=got.detach().to(torch.float64).flatten().tolist()[:24], same_object=got is val)))
                else:
                    chk.nontrivial.add(("resize", len(seq), op["size"], op["tail"], op["fill"], nd, dim, param))
    seen = set()
    for sig, rep in bad:
        k = tuple(sorted(sig.items()))
        if k in seen:
            continue
        seen.add(k)
        chk.violation(dict(sig, site="ShapedTensor.resize"), dict(rep, extension="Resize"))
    chk.evaluations += n
    chk.note(f"ShapedTensor.resize: mc {res.distinct} lengths x {len(docs[0]['out'])} operations; {n} calls on real tensors / "
             f"Parameters (1-3 dimensions, every dimension index, float / int / bool), mismatches={len(bad)}")
    # canary: the wrong side must be noticed
    t = torch.arange(1, 4, dtype=torch.float32)
    if ShapedTensor.resize(t.clone(), 0, 2, preserve_tail=True).tolist() == ShapedTensor.resize(t.clone(), 0, 2, preserve_tail=False).tolist():
        raise MachineryFailure("canary: resize does not distinguish preserve_tail")
