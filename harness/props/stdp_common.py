"""Shared pieces of the STDP-family checks (C08, C18): TLC runs of the STDP / DelayAdj
model, outcome tables keyed by (configuration, history), parameter recipes, numeric
comparison of evaluated symbolic values with what the real trainers accumulated."""
from __future__ import annotations
import itertools, json, math, random
from ..core import Check, MachineryFailure
from .. import tlc
from ..stdp_eval import close, evaluate

LN2 = math.log(2.0)


def run_tlc(chk: Check, module: str, name: str, consts: dict, invariants, workers=4, timeout=3000,
            must_hold=True):
    cfg = tlc.cfg_text(constants=consts, invariants=invariants)
    res = tlc.run(module, cfg, workers=workers, timeout=timeout)
    if res.violated:
        if must_hold:
            chk.violation({"clause": "MC:" + ",".join(res.violated), "site": "spec", "config": name},
                          {"config": name, "constants": {k: sorted(v) if isinstance(v, (set, frozenset)) else v
                                                        for k, v in consts.items()},
                           "tlc_tail": res.out[-4000:]})
    elif not res.ok:
        raise MachineryFailure(f"TLC run {name} did not complete: {res.out[-2500:]}")
    return res


def emitted(res):
    """The JSON documents printed by an Emit invariant."""
    out = [r for r in res.printed() if isinstance(r, dict) and "s" in r and "out" in r]
    return out


def bits(T: int):
    """All 0/1 histories of length T, as tuples."""
    return list(itertools.product((0, 1), repeat=T))


class Mismatch:
    """Collects numeric disagreements; reports each distinct signature once."""

    def __init__(self, chk: Check, report=True):
        self.chk, self.report = chk, report
        self.items = []

    def add(self, sig: dict, rep: dict):
        self.items.append((sig, rep))
        if self.report:
            self.chk.violation(sig, rep)

    def __len__(self):
        return len(self.items)


def compare(exp: float, got: float, rtol=1e-5, atol=1e-6) -> bool:
    return close(exp, got, rtol, atol)


# ----------------------------------------------------------------- parameter recipes
def c08_hp(rule: str, mode: str, sp: int, sn: int, dt: float, rng: random.Random, dyadic: bool, delayed: bool):
    """Hyperparameters of a C08 rule with the requested learning-rate signs."""
    if dyadic:
        amp = lambda: rng.choice([1.0, 0.5, 0.25])  # noqa: E731
        tc = lambda: dt / LN2                        # noqa: E731
    else:
        amp = lambda: rng.choice([1.0, 0.6, 0.35, 0.8])   # noqa: E731
        tc = lambda: rng.choice([2.0, 7.3, 20.0])         # noqa: E731
    if rule in ("triplet", "stable_triplet"):
        tf1, tf2 = tc(), tc()
        return {"rule": rule, "mode": mode, "delayed": delayed,
                "lr_post_pair": sp * amp(), "lr_post_triplet": amp(), "lr_pre_pair": sn * amp(),
                "lr_pre_triplet": amp(), "tc_post_fast": tf1, "tc_post_slow": tf1 * rng.choice([1.5, 2.0]),
                "tc_pre_fast": tf2, "tc_pre_slow": tf2 * rng.choice([1.5, 3.0])}
    hp = {"rule": rule, "mode": mode, "delayed": delayed, "lr_post": sp * amp(), "lr_pre": sn * amp(),
          "tc_post": tc(), "tc_pre": tc()}
    if rule == "mstdpet":
        hp["tc_eligibility"] = tc()
        hp.pop("delayed")
    return hp


def with_form(hp: dict, keys, form: str, rng: random.Random, shape=None) -> dict:
    """The same hyperparameters in another calling form.  form: "float" (python floats), "t0"
    (0-d tensors), "mixed" (each key float or 0-d tensor), "tsyn" (kernel keyword arguments only:
    some keys become per-synapse tensors [N][M] whose values - and, for learning rates, signs -
    differ between synapses)."""
    hp = dict(hp)
    f = {}
    for n, k in enumerate(keys):
        if k not in hp:
            continue
        kind = {"float": "float", "t0": "t0", "mixed": rng.choice(["float", "t0"]),
                "tsyn": rng.choice(["tsyn", "tsyn", "t0", "float"])}[form]
        if kind == "tsyn":
            N, M = shape
            fac = [1.0, 1.25, -0.75] if k.startswith("lr") else [1.0, 1.25, 0.6]
            hp[k] = [[hp[k] * fac[(o + 2 * i + n) % 3] for i in range(M)] for o in range(N)]
        if kind != "float":
            f[k] = kind
    hp["form"] = f
    return hp


def syn_hp(hp: dict, o: int, i: int) -> dict:
    """Hyperparameters of synapse (o, i) when some are given per synapse."""
    return {k: (v[o][i] if isinstance(v, list) else v) for k, v in hp.items() if k != "form"}


def per_synapse(hp: dict) -> bool:
    return any(isinstance(v, list) for v in hp.values())


def spec_rule(rule: str) -> str:
    return {"stable_stdp": "stdp", "stable_triplet": "triplet"}.get(rule, rule)


# ----------------------------------------------------------------- replays
def replay_file(path: str, family: str, trace_module: str) -> int:
    """./check <id> --replay <path>: re-execute a recorded violation on the current tree.
    The expected numbers are the (TLC-derived, evaluated) ones stored in the replay file."""
    import torch
    from ..impl_stdp import Run
    from . import stdp_traces
    doc = json.loads(open(path).read())
    sig, rep = doc["signature"], doc["replay"]
    site = sig.get("site")
    if site == "trace":
        return stdp_traces.redrive(rep["meta"], trace_module)
    if site == "trace-driver":
        try:
            stdp_traces.drive(rep["family"], rep["cell"], rng=random.Random(0))
        except Exception as ex:
            print(f"replay: the implementation raises {ex!r}")
            return 1
        print("replay: no exception")
        return 0
    if site == "spec":
        print("replay: specification-level counterexample; rerun the check")
        return 2
    if site == "multi-cell":
        return _replay_multi(sig, rep)
    hdr = rep["hdr"]
    try:
        run = Run(hdr)
        if site == "cell-1x1":
            pre, post = rep["pre"], rep["post"]
            hist_x = lambda t: torch.tensor([[bool(p[t])] for p in pre])     # noqa: E731
            hist_y = lambda t: torch.tensor([[bool(p[t])] for p in post])    # noqa: E731
            pick = lambda a: float(a.reshape(-1)[0])                         # noqa: E731
        else:
            H = bits(rep.get("T") or int(math.log2(hdr["conn"]["M"])))
            hist_x = hist_y = lambda t: torch.tensor([[bool(h[t]) for h in H]])   # noqa: E731
            pick = lambda a: float(a[rep.get("o", 0)][rep.get("i", 0)])      # noqa: E731
        last = None
        for t, st in enumerate(rep["steps"]):
            if family == "c18" and hdr.get("dmax") is not None:
                if site == "cell-1x1":
                    run.set_delay(st["d"] / 2)
                elif rep.get("shift") not in (None, "zero") and hdr["rule"] != "k_stdp":
                    n = len(H)
                    run.set_delay([[((o + 2 * i + 3 * t + rep["shift"]) % 5) / 2 for i in range(n)] for o in range(n)])
                elif rep.get("shift") not in (None, "zero"):
                    n = len(H)      # KernelSTDP: constant whole-step delays per synapse
                    run.set_delay([[float((o + 2 * i + rep["shift"]) % 3) for i in range(n)] for o in range(n)])
            r = st["r"]
            if isinstance(r, list):
                signal = torch.tensor([x * st["unit"] for x in r], dtype=torch.float32) if rep.get("persample") \
                    else r[0] * st["unit"]
            else:
                signal = r * st["unit"]
            pos, neg = run.step(hist_x(t), hist_y(t), signal=signal, scale=st["scale"])
            last = (pick(pos), pick(neg))
    except Exception as ex:
        print(f"replay: the implementation raises {ex!r}")
        return 1
    exp = rep.get("expected")
    print(f"replay: observed (pos, neg) at the recorded step = {last}, expected = {exp}")
    if isinstance(exp, dict) and last is not None:
        ok = compare(exp["pos"], last[0]) and compare(exp["neg"], last[1])
        return 0 if ok else 1
    return 0


def _replay_multi(sig: dict, rep: dict) -> int:
    """Re-execute a recorded several-cells-on-one-trainer violation: same headers, spike histories, per-step signal,
    scale, `cells` selection and delays; the recorded expectation is compared at the recorded step and cell."""
    import torch
    from ..impl_stdp import MultiRun
    hdrs, steps = rep["hdrs"], rep.get("steps")
    if steps is None:
        try:
            MultiRun(hdrs, via=rep["via"])
        except Exception as ex:
            print(f"replay: the implementation raises {ex!r}")
            return 1
        print("replay: no exception")
        return 0
    n, T = len(hdrs), len(rep["pre"][0])
    guards = bool(sig.get("guards")) and not hdrs[0].get("shared")
    dropped = None
    outs = None
    try:
        run = MultiRun(hdrs, via=rep["via"])
        xs, ys = rep["pre"], rep["post"]
        for t0, st in enumerate(steps):
            if t0 == T:
                run.trainer.clear(keepshape=True)
                for lay in ([run.biclique] if run.shared else run.layers):
                    lay.clear()
                xs, ys = rep["pre2"], rep["post2"]
            t = t0 % T
            if guards and t == 1:
                dropped = n - 1
                run.layers[1].cell.eval()
                del run.layers[dropped].connection.updater
            for j in range(1 if run.oneconn else n):
                if st["d"][j] is not None:
                    run.set_delay(st["d"][j], j)
            run.forward_layers([(torch.tensor([[bool(xs[j][t])]]), torch.tensor([[bool(ys[j][t])]])) for j in range(n)])
            run.train(st["r"] * st["unit"], st["scale"], st["cells"])
            outs = [run.read(0)] if run.oneconn else [None if j == dropped else run.read(j) for j in range(n)]
    except Exception as ex:
        print(f"replay: the implementation raises {ex!r}")
        return 1
    exp, j = rep.get("expected"), rep.get("cell")
    if j == "sum":
        j = 0
    if not isinstance(exp, dict) or j is None or outs is None or outs[j] is None:
        print("replay: no exception")
        return 0
    last = (float(outs[j][0].reshape(-1)[0]), float(outs[j][1].reshape(-1)[0]))
    print(f"replay: cell {j}: observed (pos, neg) at the recorded step = {last}, expected = {exp}")
    return 0 if (compare(exp["pos"], last[0]) and compare(exp["neg"], last[1])) else 1


# ----------------------------------------------------------------- several cells, one trainer
def multi_cells(chk: Check, mm: Mismatch, *, variant: str, hdrs: list, via: str, T: int, rng: random.Random,
                three: bool, dyadic: bool, expect, params, delay_of=None, guards: bool = False, on_edge=None,
                dense: bool = False):
    """Two or three 1x1 cells with DIFFERENT hyperparameters trained by ONE trainer (per-cell
    register_cell overrides): every cell must follow the specification with its own
    hyperparameters (no state or hyperparameter leaks between cells).  Three-factor rules are
    also called with `cells=[...]`: a cell that is not listed accumulates nothing at that step
    (documented), but keeps its history.  With guards=True, after the first step cell 1 is put
    in evaluation mode and the last cell loses its updater: the trainer must skip them without
    raising and cell 0 must be unaffected.

    expect(j, xs, ys, t, r, d) -> admissible symbolic values; params(j, factor) -> Params;
    delay_of(j, t) -> delay of cell j at step t in steps (None: leave the header's delay)."""
    import torch
    from ..impl_stdp import MultiRun
    n = len(hdrs)
    sig = {"site": "multi-cell", "rule": variant, "via": via, "guards": guards}
    # dense: spikes at three steps in four, a non-zero reward, rarely a `cells` selection - the short histories that tell
    # hyperparameters apart (several earlier partners for a spike to pair with)
    bit = (lambda: int(rng.random() < 0.75)) if dense else (lambda: rng.randint(0, 1))
    xs = [tuple(bit() for _ in range(T)) for _ in range(n)]
    ys = [tuple(bit() for _ in range(T)) for _ in range(n)]
    shared = bool(hdrs[0].get("shared"))
    oneconn = hdrs[0].get("shared") == "conn"
    if oneconn:
        xs = [xs[0]] * n                  # one connection: the cells see the same presynaptic spikes ...
        guards = False
        sig["shared"] = "conn"            # ... and accumulate into the one updater
    elif shared:
        ys = [ys[0]] * n                  # one neuron group: the cells see the same postsynaptic spikes
        guards = False
        sig["shared"] = True
    rep = {"hdrs": hdrs, "via": via, "pre": xs, "post": ys}
    try:
        run = MultiRun(hdrs, via=via)
    except Exception as e:
        mm.add(dict(sig, clause="Raised", where="register", exc=type(e).__name__), dict(rep, error=repr(e)))
        return 0
    steps, edges = [], 0
    evald = dropped = None
    episodes = 2 if (not guards and rng.random() < 0.35) else 1
    rep["episodes"] = episodes
    for t in range(T * episodes):
        if t == T:
            # second episode: trainer and layers are cleared KEEPING the shapes of their recorders; what follows must
            # be the documented pair sums of the second episode alone
            try:
                run.trainer.clear(keepshape=True)
                for lay in ([run.biclique] if run.shared else run.layers):
                    lay.clear()
            except Exception as e:
                mm.add(dict(sig, clause="Raised", where="clear", exc=type(e).__name__), dict(rep, error=repr(e)))
                return edges
            xs = [tuple(bit() for _ in range(T)) for _ in range(n)]
            ys = [tuple(bit() for _ in range(T)) for _ in range(n)]
            if oneconn:
                xs = [xs[0]] * n
            elif shared:
                ys = [ys[0]] * n
            rep["pre2"], rep["post2"] = xs, ys
        t0, t = t, t % T
        if guards and t == 1:
            evald, dropped = 1, n - 1
            run.layers[evald].cell.eval()
            del run.layers[dropped].connection.updater
        inputs = [(torch.tensor([[bool(xs[j][t])]]), torch.tensor([[bool(ys[j][t])]])) for j in range(n)]
        r = rng.choice((-1, 1, 2) if dense else (-1, 0, 1, 2)) if three else 1
        unit = rng.choice([1.0, 0.7]) if three and not dyadic else 1.0
        scale = rng.choice([1.0, 0.5, -0.5]) if three else 1.0    # documented: the absolute value of the scale is used
        sel = None
        if three and rng.random() < (0.15 if dense else 0.4):
            sel = [run.names[rng.randrange(n)]]
        ds = [None] * n
        if delay_of:
            for j in range(n):
                ds[j] = ds[0] if (oneconn and j) else delay_of(j, t)
                if ds[j] is not None and not (oneconn and j):
                    run.set_delay(ds[j], j)
        steps.append({"r": r, "unit": unit, "scale": scale, "cells": sel, "d": ds})
        try:
            run.forward_layers(inputs)
            run.train(r * unit, scale, sel)
            if not guards and rng.random() < 0.3:
                # the parts are applied through trainer.update(): every updater exactly once, even when several cells
                # share it (seeded C08-m14)
                allp, once = run.read_all_via_trainer()
                outs = [allp[0]] if oneconn else allp
                steps[-1]["via_trainer_update"] = True
                if not once:
                    mm.add(dict(sig, clause="TrainerUpdateOnce"), dict(rep, steps=steps, t=t))
                    return edges
            else:
                outs = [run.read(0)] if oneconn else [None if j == dropped else run.read(j) for j in range(n)]
        except Exception as e:
            mm.add(dict(sig, clause="Raised", where="step", exc=type(e).__name__),
                   dict(rep, steps=steps, t=t, error=repr(e)))
            return edges
        if oneconn:
            # the one updater holds the SUM of the listed cells' contributions, each with its own hyperparameters
            alts_v = [(0.0, 0.0)]
            for j in range(n):
                if sel is not None and run.names[j] not in sel:
                    continue
                P = params(j, unit * abs(scale))
                cell_alts = [evaluate(b, P) for b in expect(j, xs[j], ys[j], t, r, ds[j])]
                alts_v = [(p + a, q + b) for p, q in alts_v for a, b in cell_alts]
                if on_edge:
                    on_edge(j, xs[j], ys[j], t, r, ds[j])
                edges += 1
            gp, gn = float(outs[0][0].reshape(-1)[0]), float(outs[0][1].reshape(-1)[0])
            if not any(compare(p, gp) and compare(q, gn) for p, q in alts_v):
                p, q = alts_v[0]
                mm.add(dict(sig, clause="PosOK" if not compare(p, gp) else "NegOK", cell="sum", unlisted=False),
                       dict(rep, steps=steps, t=t, cell="sum", expected={"pos": p, "neg": q},
                            observed={"pos": gp, "neg": gn}))
                return edges
            continue
        for j in range(n):
            if j == dropped or j == evald:
                continue                      # skipped by the trainer's guard: only "no exception" is required
            gp, gn = float(outs[j][0].reshape(-1)[0]), float(outs[j][1].reshape(-1)[0])
            if sel is not None and run.names[j] not in sel:
                alts_v = [(0.0, 0.0)]
            else:
                P = params(j, unit * abs(scale))
                alts_v = [evaluate(b, P) for b in expect(j, xs[j], ys[j], t, r, ds[j])]
                if on_edge:
                    on_edge(j, xs[j], ys[j], t, r, ds[j])
            edges += 1
            if not any(compare(p, gp) and compare(q, gn) for p, q in alts_v):
                p, q = alts_v[0]
                mm.add(dict(sig, clause="PosOK" if not compare(p, gp) else "NegOK", cell=j,
                            unlisted=bool(sel is not None and run.names[j] not in sel)),
                       dict(rep, steps=steps, t=t, cell=j, expected={"pos": p, "neg": q},
                            observed={"pos": gp, "neg": gn}))
                return edges
    if guards:
        try:
            run.trainer.eval()
            run.train(1.0, 1.0, None)        # a trainer in evaluation mode is a no-op for every cell
            run.trainer.train()
        except Exception as e:
            mm.add(dict(sig, clause="Raised", where="eval-mode", exc=type(e).__name__), dict(rep, error=repr(e)))
    return edges
