"""Shared pieces of the STDP-family checks (C08, C18): TLC runs of the STDP / DelayAdj
model, outcome tables keyed by (configuration, history), parameter recipes, numeric
comparison of evaluated symbolic values with what the real trainers accumulated."""
from __future__ import annotations
import itertools, json, math, random
from ..core import Check, MachineryFailure
from .. import tlc
from ..stdp_eval import close

LN2 = math.log(2.0)


def run_tlc(chk: Check, module: str, name: str, consts: dict, invariants, workers=4, timeout=3000,
            must_hold=True):
    cfg = tlc.cfg_text(constants=consts, invariants=invariants)
    res = tlc.run(module, cfg, workers=workers, timeout=timeout)
    if res.violated:
        if must_hold:
            chk.violation({"clause": "MC:" + ",".join(res.violated), "site": "spec", "config": name},
                          {"config": name, "constants": {k: sorted(v) if isinstance(v, (set, frozenset)) else v
                                                        for k, v in consts.items()},
                           "tlc_tail": res.out[-4000:]})
    elif not res.ok:
        raise MachineryFailure(f"TLC run {name} did not complete: {res.out[-2500:]}")
    return res


def emitted(res):
    """The JSON documents printed by an Emit invariant."""
    out = [r for r in res.printed() if isinstance(r, dict) and "s" in r and "out" in r]
    return out


def bits(T: int):
    """All 0/1 histories of length T, as tuples."""
    return list(itertools.product((0, 1), repeat=T))


class Mismatch:
    """Collects numeric disagreements; reports each distinct signature once."""

    def __init__(self, chk: Check, report=True):
        self.chk, self.report = chk, report
        self.items = []

    def add(self, sig: dict, rep: dict):
        self.items.append((sig, rep))
        if self.report:
            self.chk.violation(sig, rep)

    def __len__(self):
        return len(self.items)


def compare(exp: float, got: float, rtol=1e-5, atol=1e-6) -> bool:
    return close(exp, got, rtol, atol)


# ----------------------------------------------------------------- parameter recipes
def c08_hp(rule: str, mode: str, sp: int, sn: int, dt: float, rng: random.Random, dyadic: bool, delayed: bool):
    """Hyperparameters of a C08 rule with the requested learning-rate signs."""
    if dyadic:
        amp = lambda: rng.choice([1.0, 0.5, 0.25])  # noqa: E731
        tc = lambda: dt / LN2                        # noqa: E731
    else:
        amp = lambda: rng.choice([1.0, 0.6, 0.35, 0.8])   # noqa: E731
        tc = lambda: rng.choice([2.0, 7.3, 20.0])         # noqa: E731
    if rule in ("triplet", "stable_triplet"):
        tf1, tf2 = tc(), tc()
        return {"rule": rule, "mode": mode, "delayed": delayed,
                "lr_post_pair": sp * amp(), "lr_post_triplet": amp(), "lr_pre_pair": sn * amp(),
                "lr_pre_triplet": amp(), "tc_post_fast": tf1, "tc_post_slow": tf1 * rng.choice([1.5, 2.0]),
                "tc_pre_fast": tf2, "tc_pre_slow": tf2 * rng.choice([1.5, 3.0])}
    hp = {"rule": rule, "mode": mode, "delayed": delayed, "lr_post": sp * amp(), "lr_pre": sn * amp(),
          "tc_post": tc(), "tc_pre": tc()}
    if rule == "mstdpet":
        hp["tc_eligibility"] = tc()
        hp.pop("delayed")
    return hp


def spec_rule(rule: str) -> str:
    return {"stable_stdp": "stdp", "stable_triplet": "triplet"}.get(rule, rule)


# ----------------------------------------------------------------- replays
def replay_file(path: str, family: str, trace_module: str) -> int:
    """./check <id> --replay <path>: re-execute a recorded violation on the current tree.
    The expected numbers are the (TLC-derived, evaluated) ones stored in the replay file."""
    import torch
    from ..impl_stdp import Run
    from . import stdp_traces
    doc = json.loads(open(path).read())
    sig, rep = doc["signature"], doc["replay"]
    site = sig.get("site")
    if site == "trace":
        return stdp_traces.redrive(rep["meta"], trace_module)
    if site == "trace-driver":
        try:
            stdp_traces.drive(rep["family"], rep["cell"], rng=random.Random(0))
        except Exception as ex:
            print(f"replay: the implementation raises {ex!r}")
            return 1
        print("replay: no exception")
        return 0
    if site == "spec":
        print("replay: specification-level counterexample; rerun the check")
        return 2
    hdr = rep["hdr"]
    try:
        run = Run(hdr)
        if site == "cell-1x1":
            pre, post = rep["pre"], rep["post"]
            hist_x = lambda t: torch.tensor([[bool(p[t])] for p in pre])     # noqa: E731
            hist_y = lambda t: torch.tensor([[bool(p[t])] for p in post])    # noqa: E731
            pick = lambda a: float(a.reshape(-1)[0])                         # noqa: E731
        else:
            H = bits(rep.get("T") or int(math.log2(hdr["conn"]["M"])))
            hist_x = hist_y = lambda t: torch.tensor([[bool(h[t]) for h in H]])   # noqa: E731
            pick = lambda a: float(a[rep.get("o", 0)][rep.get("i", 0)])      # noqa: E731
        last = None
        for t, st in enumerate(rep["steps"]):
            if family == "c18" and hdr.get("dmax") is not None:
                if site == "cell-1x1":
                    run.set_delay(st["d"] / 2)
                elif rep.get("shift") not in (None, "zero") and hdr["rule"] != "k_stdp":
                    n = len(H)
                    run.set_delay([[((o + 2 * i + 3 * t + rep["shift"]) % 5) / 2 for i in range(n)] for o in range(n)])
            r = st["r"]
            if isinstance(r, list):
                signal = torch.tensor([x * st["unit"] for x in r], dtype=torch.float32) if rep.get("persample") \
                    else r[0] * st["unit"]
            else:
                signal = r * st["unit"]
            pos, neg = run.step(hist_x(t), hist_y(t), signal=signal, scale=st["scale"])
            last = (pick(pos), pick(neg))
    except Exception as ex:
        print(f"replay: the implementation raises {ex!r}")
        return 1
    exp = rep.get("expected")
    print(f"replay: observed (pos, neg) at the recorded step = {last}, expected = {exp}")
    if isinstance(exp, dict) and last is not None:
        ok = compare(exp["pos"], last[0]) and compare(exp["neg"], last[1])
        return 0 if ok else 1
    return 0
