"""Direction B (code -> spec) for the STDP family: random populations on dense / direct /
lateral / convolutional cells with batches, driven through the REAL trainers in the dyadic
recipe (every decay factor and constant a power of two, so float32 arithmetic is exact);
one recorded trace per trained weight element, validated exactly by TLC against
spec/STDPTrace.tla (C08) or spec/DelayAdjTrace.tla (C18).

The harness only knows the *wiring* of a connection (which (input, output) element pairs
feed a weight element); every expected number comes from the TLA+ specification.
"""
from __future__ import annotations
import math, random
from ..core import Check, MachineryFailure
from .. import tracecheck

K = 16                # values are logged times 2^K
SENTINEL = -777777    # "not a multiple of 2^-K" (never equal to a specified value)
LN2 = math.log(2.0)


def recipe_ok() -> bool:
    """dt = ln 2, tau in {1, 1/2}: the decay factors must come out as exactly 1/2 and 1/4."""
    return math.exp(-LN2 / 1.0) == 0.5 and math.exp(-LN2 / 0.5) == 0.25


def quant(v: float, den: int = 1) -> int:
    q = v * (1 << K)
    r = round(q)
    if abs(q - r) > 0.25 or abs(r) >= 2 ** 30:
        return SENTINEL
    return int(r)


# ---------------------------------------------------------------- wiring of the connections
def random_conn(rng: random.Random):
    k = rng.choice(["dense", "direct", "lateral", "conv", "conv", "dense"])
    if k == "dense":
        return {"kind": "dense", "M": rng.randint(1, 3), "N": rng.randint(1, 3)}
    if k == "direct":
        return {"kind": "direct", "n": rng.randint(1, 4)}
    if k == "lateral":
        return {"kind": "lateral", "n": rng.randint(2, 3)}
    S = rng.choice([1, 2])
    P = rng.choice([0, 1])
    H, W = rng.randint(2, 3), rng.randint(2, 3)
    return {"kind": "conv", "H": H, "W": W, "C": rng.randint(1, 2), "F": rng.randint(1, 2), "K": 2, "S": S, "P": P}


def weight_elements(conn: dict):
    """-> list of (index tuple into the weight tensor, list of (input index, output index))."""
    k = conn["kind"]
    if k == "dense":
        return [((o, i), [((i,), (o,))]) for o in range(conn["N"]) for i in range(conn["M"])]
    if k == "direct":
        return [((i,), [((i,), (i,))]) for i in range(conn["n"])]
    if k == "lateral":
        n = conn["n"]
        return [((o, i), [((i,), (o,))]) for o in range(n) for i in range(n) if o != i]
    H, W, C, F, Kk, S, P = (conn[a] for a in ("H", "W", "C", "F", "K", "S", "P"))
    Ho = (H + 2 * P - Kk) // S + 1
    Wo = (W + 2 * P - Kk) // S + 1
    out = []
    for f in range(F):
        for c in range(C):
            for kh in range(Kk):
                for kw in range(Kk):
                    pairs = []
                    for oh in range(Ho):
                        for ow in range(Wo):
                            ih, iw = oh * S + kh - P, ow * S + kw - P
                            if 0 <= ih < H and 0 <= iw < W:     # padding carries no spikes
                                pairs.append(((c, ih, iw), (f, oh, ow)))
                    out.append(((f, c, kh, kw), pairs))
    return out


def _get(t, idx):
    for i in idx:
        t = t[i]
    return t


# ---------------------------------------------------------------- C08
def c08_cell(rng: random.Random, T2: int, T3: int):
    """One random dyadic configuration: header for impl_stdp.Run + the exponent record."""
    variant = rng.choice(["stdp", "stable_stdp", "triplet", "stable_triplet", "mstdp", "mstdpet"])
    mode = rng.choice(["cumulative", "nearest"])
    sp, sn = rng.choice([(1, -1), (-1, 1), (1, 1), (-1, -1)])
    a = {"1": 0, "post": rng.randint(0, 2), "pre": rng.randint(0, 2), "post3": 0, "pre3": 0}
    e = {"xf": 1, "yf": 1, "xs": 1, "ys": 1, "z": 1, "k": 0, "g": 0}
    tau = {1: 1.0, 2: 0.5}
    if variant in ("triplet", "stable_triplet"):
        a["post3"], a["pre3"] = rng.randint(0, 2), rng.randint(0, 2)
        e.update(xf=2, yf=2, xs=1, ys=1)
        hp = {"rule": variant, "mode": mode, "lr_post_pair": sp * 2.0 ** -a["post"],
              "lr_post_triplet": 2.0 ** -a["post3"], "lr_pre_pair": sn * 2.0 ** -a["pre"],
              "lr_pre_triplet": 2.0 ** -a["pre3"], "tc_post_fast": 0.5, "tc_post_slow": 1.0, "tc_pre_fast": 0.5,
              "tc_pre_slow": 1.0}
        T = T2
    else:
        e.update(xf=rng.choice([1, 2]), yf=rng.choice([1, 2]))
        hp = {"rule": variant, "mode": mode, "lr_post": sp * 2.0 ** -a["post"], "lr_pre": sn * 2.0 ** -a["pre"],
              "tc_pre": tau[e["xf"]], "tc_post": tau[e["yf"]]}
        T = T2
        if variant == "mstdpet":
            e["z"] = rng.choice([1, 2])
            e["k"] = 0 if e["z"] == 1 else -1          # 1/tau_z = 1 or 2
            hp["tc_eligibility"] = tau[e["z"]]
        if variant in ("mstdp", "mstdpet"):
            T = T3
    delays = rng.random() < 0.7
    if variant != "mstdpet":
        hp["delayed"] = bool(delays and rng.random() < 0.5)
    B = rng.choice([1, 2])
    den = 1
    reduction = "sum"
    if rng.random() < 0.3:
        reduction, den = "mean", B
    conn = random_conn(rng)
    three = variant in ("mstdp", "mstdpet")
    persample = three and rng.random() < 0.5
    if persample:
        reduction, den = "sum", 1
    hp["form"] = {k: "t0" for k in hp if (k.startswith("lr_") or k.startswith("tc_")) and rng.random() < 0.3}
    return {"variant": variant, "mode": mode, "sp": sp, "sn": sn, "e": dict(e, a=a), "hp": hp, "T": T,
            "via": rng.choice(["ctor", "override"]),
            "delays": delays, "B": B, "reduction": reduction, "den": den, "conn": conn, "three": three,
            "persample": persample}


# ---------------------------------------------------------------- C18 configuration
C18_DT = 2   # ticks per step


def c18_cell(rng: random.Random, T2: int, T3: int):
    variant = rng.choice(["da_stdp", "da_stdpd", "da_mstdp", "da_mstdpd", "dak_stdp", "dak_stdpd", "k_stdp"])
    rule = {"da_stdp": "w", "dak_stdp": "w", "da_stdpd": "d", "dak_stdpd": "d", "da_mstdp": "mw",
            "da_mstdpd": "md", "k_stdp": "k"}[variant]
    splus, sminus = rng.choice([(1, -1), (-1, 1), (1, 1), (-1, -1)])
    a = {"plus": rng.randint(0, 2), "minus": rng.randint(0, 2)}
    dt = rng.choice([1.0, 0.5, 2.0])          # exact event-time arithmetic in float32
    tick = dt / C18_DT
    tau = tick / LN2                          # exp(-tick / tau) = 1/2
    hp = {"lr_pos": splus * 2.0 ** -a["plus"], "lr_neg": sminus * 2.0 ** -a["minus"], "tc_pos": tau, "tc_neg": tau}
    three = rule in ("mw", "md")
    delays = True if rule != "k" else rng.random() < 0.5
    if rule == "k":
        hp["delayed"] = bool(delays and rng.random() < 0.5)
    B = rng.choice([1, 2])
    reduction, den = ("mean", B) if rng.random() < 0.4 else ("sum", 1)
    persample = three and rng.random() < 0.5
    if persample:
        reduction, den = "sum", 1
    e = {"a": a, "xf": 1, "yf": 1, "xs": 0, "ys": 0, "z": 0, "k": 0, "g": 0}
    hp["form"] = {k: "t0" for k in ("lr_pos", "lr_neg", "tc_pos", "tc_neg") if rng.random() < 0.4}
    return {"variant": variant, "rule": rule, "via": rng.choice(["ctor", "override"]), "splus": splus, "sminus": sminus, "e": e, "hp": hp, "dt": dt,
            "T": T3 if three else T2, "delays": delays, "B": B, "reduction": reduction, "den": den,
            "conn": random_conn(rng), "three": three, "persample": persample}



def make_script(family: str, c: dict, rng: random.Random, dshape, inshape, outshape):
    """Random inputs of one run as plain lists (so that a violation can be re-driven)."""
    B, T = c["B"], c["T"]
    script = {"D": [], "x": [], "y": [], "steps": []}
    fixedD = [rng.randint(0, 2) if c["delays"] else 0 for _ in range(math.prod(dshape))]
    for t in range(T):
        if family == "c08":
            D = fixedD                                   # constant delays, in steps
        elif c["delays"] and c["rule"] != "k":
            D = [rng.randint(0, 2 * C18_DT) for _ in range(math.prod(dshape))]   # ticks, changing every step
        else:
            D = [0] * math.prod(dshape)
        script["D"].append(D)
        script["x"].append([[rng.random() < 0.5 for _ in range(math.prod(inshape))] for _ in range(B)])
        script["y"].append([[rng.random() < 0.5 for _ in range(math.prod(outshape))] for _ in range(B)])
        gexp = rng.choice([0, 1]) if c["three"] else 0
        if c["persample"]:
            rs = [rng.choice([-1, 0, 1, 2]) for _ in range(B)]
        else:
            rs = [rng.choice([-1, 0, 1, 2]) if c["three"] else 1] * B
        script["steps"].append([rs, gexp])
    return script


def drive(family: str, c: dict, rng: random.Random | None = None, script: dict | None = None):
    """Run one real cell; -> (traces, script).  Raises whatever the implementation raises."""
    import torch
    from ..impl_stdp import Run
    from .stdp_common import spec_rule
    conn, B, T = c["conn"], c["B"], c["T"]
    dt = LN2 if family == "c08" else c["dt"]
    per_step = C18_DT if family == "c18" else 1
    hdr = {"rule": c["variant"], "hp": c["hp"], "conn": conn, "dt": dt, "B": B, "reduction": c["reduction"],
           "dmax": 2 if c["delays"] else None, "delay": 0, "via": c.get("via", "ctor")}
    run = Run(hdr)
    dshape = tuple(run.conn.weight.shape)
    inshape, outshape = tuple(run.conn.inshape), tuple(run.conn.outshape)
    if script is None:
        script = make_script(family, c, rng, dshape, inshape, outshape)
    xs, ys, outs, Ds = [], [], [], []
    for t in range(T):
        D = torch.tensor(script["D"][t], dtype=torch.int64).reshape(dshape)
        if c["delays"]:
            run.set_delay((D.to(torch.float64) / per_step).tolist())
        x = torch.tensor(script["x"][t]).reshape(B, *inshape)
        y = torch.tensor(script["y"][t]).reshape(B, *outshape)
        rs, gexp = script["steps"][t]
        signal = torch.tensor([float(r) for r in rs]) if c["persample"] else float(rs[0])
        pos, neg = run.step(x, y, signal=signal, scale=2.0 ** -gexp)
        xs.append(x), ys.append(y), outs.append((pos, neg)), Ds.append(D)
    traces = []
    for widx, pairs in weight_elements(conn):
        if not pairs:
            continue
        plist = [(b, i, o) for b in range(B) for (i, o) in pairs]
        if family == "c08":
            cfg = {"rule": spec_rule(c["variant"]), "mode": c["mode"], "d": [int(_get(Ds[0], widx))] * len(plist),
                   "sp": c["sp"], "sn": c["sn"], "K": K, "den": c["den"], "e": c["e"]}
        else:
            cfg = {"rule": c["rule"], "DT": C18_DT, "splus": c["splus"], "sminus": c["sminus"], "K": K,
                   "den": c["den"], "e": c["e"]}
        hx = [[] for _ in plist]
        hy = [[] for _ in plist]
        ev = []
        for t in range(T):
            rs, gexp = script["steps"][t]
            ox = [int(_get(xs[t][b], i)) for (b, i, o) in plist]
            oy = [int(_get(ys[t][b], o)) for (b, i, o) in plist]
            hx = [h + [v] for h, v in zip(hx, ox)]
            hy = [h + [v] for h, v in zip(hy, oy)]
            pos, neg = outs[t]
            op = {"x": ox, "y": oy, "r": [rs[b] for (b, i, o) in plist], "gexp": gexp}
            if family == "c18":
                op["d"] = int(_get(Ds[t], widx))
            ev.append({"op": op,
                       "ret": {"pos": quant(float(_get(pos, widx))), "neg": quant(float(_get(neg, widx)))},
                       "st": {"x": [list(h) for h in hx], "y": [list(h) for h in hy]}})
        traces.append({"hdr": {"init": {"x": [[] for _ in plist], "y": [[] for _ in plist]}, "cfg": cfg, "waive": []},
                       "ev": ev,
                       "meta": {"family": family, "conn": conn, "variant": c["variant"], "widx": list(widx),
                                "delayed": bool(c["hp"].get("delayed", False)), "delays": c["delays"],
                                "cell": c, "script": script}})
    return traces, script


def run_cells(family: str, rng: random.Random, ncells: int, T2: int, T3: int, on_raise):
    traces = []
    for _ in range(ncells):
        c = c08_cell(rng, T2, T3) if family == "c08" else c18_cell(rng, T2, T3)
        try:
            tr, _ = drive(family, c, rng)
        except Exception as ex:
            on_raise(c, ex)
            continue
        traces += tr
    return traces


def c08_traces(chk, rng, ncells, T2, T3, on_raise):
    return run_cells("c08", rng, ncells, T2, T3, on_raise)


def c18_traces(chk, rng, ncells, T2, T3, on_raise):
    return run_cells("c18", rng, ncells, T2, T3, on_raise)


def redrive(meta: dict, module: str) -> int:
    """Replay of a recorded violation: drive the same cell with the same inputs on the current
    tree and validate the same parameter element again.  -> 1 if it still deviates."""
    c, script = meta["cell"], meta["script"]
    try:
        traces, _ = drive(meta["family"], c, script=script)
    except Exception as ex:
        print(f"replay: the implementation raises {ex!r}")
        return 1
    mine = [t for t in traces if t["meta"]["widx"] == meta["widx"]]
    for t in mine:
        t.pop("meta")
    _, rej = tracecheck.validate(module, mine, shards=1, max_waive_rounds=1)
    for r in rej:
        print(f"replay: still rejected at line {r['line']}: {r['event']}")
    return 1 if rej else 0


def validate(chk: Check, module: str, traces, pid_site: str, shards: int):
    """TLC validation of a batch; every rejected line becomes a violation."""
    if not traces:
        return 0
    metas = [t.pop("meta") for t in traces]      # not part of the TLC input (floats)
    stats, rej = tracecheck.validate(module, traces, shards=shards)
    chk.states += stats["distinct"]
    chk.transitions += stats["generated"]
    chk.mc_runs.append({"config": f"trace:{module}", "distinct": stats["distinct"], "generated": stats["generated"],
                        "runs": stats["runs"], "wall_s": round(stats["wall"], 2), "exhaustive": False})
    for r in rej:
        meta = metas[r["trace"]]
        chk.violation({"clause": "RetOK", "site": pid_site, "conn": meta["conn"]["kind"], "rule": meta["variant"],
                       "delayed": meta.get("delayed"), "delays": meta.get("delays")},
                      {"meta": meta, "cfg": traces[r["trace"]]["hdr"]["cfg"], "line": r["line"], "event": r["event"],
                       "diag": r["diag"], "trace": traces[r["trace"]]["ev"][:r["line"]]})
    validate.rejected = {r["trace"] for r in rej}
    return len(rej)


def accepted_trace(traces):
    """A trace of the last validated batch that TLC accepted (for the canary)."""
    bad = getattr(validate, "rejected", set())
    return next((t for i, t in enumerate(traces) if i not in bad), None)


def canary(chk: Check, module: str, trace):
    """A trace with one corrupted accumulator value must be rejected at that line."""
    import copy
    bad = copy.deepcopy(trace)
    bad.pop("meta", None)
    bad["hdr"]["waive"] = []
    line = len(bad["ev"])
    bad["ev"][line - 1]["ret"]["pos"] += 1
    _, rej = tracecheck.validate(module, [bad], shards=1, max_waive_rounds=1)
    if not any(r["line"] == line for r in rej):
        raise MachineryFailure(f"{module}: canary trace (corrupted accumulator value) was accepted")


