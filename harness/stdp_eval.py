"""Numerical evaluation of the symbolic values (spec/STDPSym.tla) that TLC emits.

A value is a JSON list of {"t": term, "m": multiplicity}; a term has a coefficient tag
"c" and integer exponents.  `Params` fixes the constants; evaluation is float64.

  C08 terms: c in {"1","post","pre","post3","pre3"}, exponents xf, yf, xs, ys, z (decay
             bases, per simulation step), k (1/tau_z), g (scale).
  C18 terms: c in {"plus","minus"}; |t_delta| in ticks is the exponent xf (base
             exp(-tick/tau_plus)) resp. yf (base exp(-tick/tau_minus)); g (scale).

The split into the strengthening (pos) and weakening (neg) part is STDPSym!PosPart /
NegPart: every term is routed by the sign of multiplicity * constant.
"""
from __future__ import annotations
import math
from dataclasses import dataclass, field


@dataclass
class Params:
    const: dict                      # tag -> signed constant
    q: dict = field(default_factory=dict)   # base name -> decay factor per unit exponent
    inv_tau_z: float = 1.0
    scale: float = 1.0

    def term(self, t: dict) -> float:
        v = float(self.const[t["c"]])
        for b in ("xf", "yf", "xs", "ys", "z"):
            e = t.get(b, 0)
            if e:
                v *= self.q[b] ** e
        if t.get("k", 0):
            v *= self.inv_tau_z ** t["k"]
        if t.get("g", 0):
            v *= self.scale ** t["g"]
        return v


def evaluate(bag, P: Params):
    """-> (pos, neg): the non-negative strengthening and weakening parts; net = pos - neg."""
    pos = neg = 0.0
    for e in bag:
        v = e["m"] * P.term(e["t"])
        if v > 0:
            pos += v
        elif v < 0:
            neg -= v
    return pos, neg


def close(a: float, b: float, rtol=1e-5, atol=1e-6) -> bool:
    return abs(a - b) <= atol + rtol * max(abs(a), abs(b))


def stdp_params(hp: dict, dt: float) -> Params:
    """Constants of the C08 rules from the trainer's hyperparameters."""
    rule = hp["rule"]
    if rule in ("triplet", "stable_triplet"):
        sp = 1.0 if hp["lr_post_pair"] >= 0 else -1.0
        sn = 1.0 if hp["lr_pre_pair"] >= 0 else -1.0
        const = {"1": 1.0, "post": hp["lr_post_pair"], "pre": hp["lr_pre_pair"],
                 "post3": sp * abs(hp["lr_post_triplet"]), "pre3": sn * abs(hp["lr_pre_triplet"])}
        q = {"xf": math.exp(-dt / hp["tc_pre_fast"]), "yf": math.exp(-dt / hp["tc_post_fast"]),
             "xs": math.exp(-dt / hp["tc_pre_slow"]), "ys": math.exp(-dt / hp["tc_post_slow"])}
        return Params(const, q)
    const = {"1": 1.0, "post": hp["lr_post"], "pre": hp["lr_pre"]}
    q = {"xf": math.exp(-dt / hp["tc_pre"]), "yf": math.exp(-dt / hp["tc_post"])}
    inv = 1.0
    if rule == "mstdpet":
        q["z"] = math.exp(-dt / hp["tc_eligibility"])
        inv = 1.0 / hp["tc_eligibility"]
    return Params(const, q, inv_tau_z=inv, scale=abs(hp.get("scale", 1.0)))


def delayadj_params(hp: dict, tick: float) -> Params:
    """Constants of the C18 rules: tag "plus" carries |t_delta| (ticks of `tick` ms) in the
    exponent field xf, tag "minus" in yf."""
    const = {"plus": hp["lr_pos"], "minus": hp["lr_neg"]}
    q = {"xf": math.exp(-tick / hp["tc_pos"]), "yf": math.exp(-tick / hp["tc_neg"])}
    return Params(const, q, scale=abs(hp.get("scale", 1.0)))
