"""Run one phase of a check in its own process (python-bound phases do not overlap in threads because of the GIL).

    python -m harness.subcheck <pid> <module> <function> <tier> <seed> <outdir>

The phase function gets (chk, tier, rng).  The child writes its evidence and replays under <outdir>; the parent
merges them into its own Check (spawn / join below)."""
from __future__ import annotations
import importlib, json, os, random, subprocess, sys, tempfile, shutil
from pathlib import Path

ROOT = Path(__file__).resolve().parent.parent


def main():
    pid, modname, fn, tier, seed, outdir = sys.argv[1:7]
    os.environ["VERIF_EVIDENCE_DIR"] = outdir
    sys.path.insert(0, str(ROOT))
    from harness.core import Check, main_wrapper

    def run(tier_, seed_):
        chk = Check(pid, tier_, seed_)
        mod = importlib.import_module(modname)
        getattr(mod, fn)(chk, tier_, random.Random(seed_))
        chk.extra["nontrivial_keys"] = len(chk.nontrivial)
        return chk.finish()
    rc = main_wrapper(run, pid, tier, int(seed))
    sys.exit(rc)


class Handle:
    def __init__(self, pid, proc, outdir, label):
        self.pid, self.proc, self.outdir, self.label = pid, proc, outdir, label


def spawn(pid: str, modname: str, fn: str, tier: str, seed: int, label: str) -> Handle:
    outdir = tempfile.mkdtemp(prefix=f"verif-sub-{pid}-")
    env = dict(os.environ)
    env.pop("VERIF_EVIDENCE_DIR", None)
    proc = subprocess.Popen([sys.executable, "-m", "harness.subcheck", pid, modname, fn, tier, str(seed), outdir],
                            cwd=str(ROOT), env=env, stdout=subprocess.PIPE, stderr=subprocess.STDOUT, text=True)
    return Handle(pid, proc, outdir, label)


def join(chk, h: Handle, timeout=7200):
    """Wait for the phase and merge what it found into chk."""
    from .core import MachineryFailure
    try:
        out, _ = h.proc.communicate(timeout=timeout)
        rc = h.proc.returncode
        for line in out.splitlines():
            if line.startswith(f"[{h.pid}]") and "tier=" not in line:
                print(line, flush=True)
        ev = Path(h.outdir) / f"{h.pid}.json"
        if rc not in (0, 1) or not ev.exists():
            raise MachineryFailure(f"phase {h.label} failed (exit {rc}): {out[-2500:]}")
        d = json.loads(ev.read_text())
        cov = d["coverage"]
        chk.states += cov["states"]
        chk.transitions += cov["transitions"]
        chk.traces += cov["traces_validated_against_impl"]
        chk.evaluations += cov["evaluations"]
        chk.mc_runs += cov.get("tlc_runs", [])
        chk.notes += [f"[{h.label}] {n}" for n in cov.get("notes", [])]
        for s in cov.get("samples", []):
            if not (isinstance(s, dict) and s.get("note") == "no samples recorded"):
                chk.sample(s, cap=8)
        n = int(cov.get("nontrivial_keys", cov.get("distinct_nontrivial", 0)))
        for i in range(n):
            chk.nontrivial.add((h.label, i))        # counted in the child; distinct from every key of the parent
        for k, v in cov.items():
            if k.startswith(h.label.replace("-", "_")) or k.startswith("record_persist") or k.startswith("monitor_kinds"):
                chk.extra[k] = v
        for f in sorted((Path(h.outdir) / "replays").glob("*.json")) if (Path(h.outdir) / "replays").is_dir() else []:
            doc = json.loads(f.read_text())
            chk.violation(doc["signature"], doc["replay"])      # known findings are matched here, in the parent
        return rc
    finally:
        if h.proc.poll() is None:
            h.proc.kill()
        shutil.rmtree(h.outdir, ignore_errors=True)


if __name__ == "__main__":
    main()
