"""Pieces shared by the checks whose specifications hold symbolic values (C04, C06, C07):
parallel exhaustive TLC runs, generation of the outcome-table graph in the slim Emit format
([s, mut: [{op, res: [{st, ret}]}], qry: [{op, rets}]]), trace-validation bookkeeping."""
from __future__ import annotations
from concurrent.futures import ThreadPoolExecutor
from .core import Check, MachineryFailure
from . import tlc
from .graph import Graph, canon


def run_mc(chk: Check, module: str, configs, invariants, workers_each=4, parallel=4, timeout=3000):
    """configs: [(name, constants)]; every invariant must hold and every run must complete."""
    def one(item):
        name, c = item[0], item[1]
        invs = item[2] if len(item) > 2 else invariants
        cfg = tlc.cfg_text(constants=c, invariants=invs, constraints=["Bounded"])
        return name, tlc.run(module, cfg, workers=workers_each, timeout=timeout)

    with ThreadPoolExecutor(max_workers=parallel) as ex:
        results = list(ex.map(one, configs))
    for name, res in results:
        if res.violated:
            chk.violation({"clause": "MC:" + ",".join(res.violated), "site": "spec", "config": name},
                          {"config": name, "tlc_tail": res.out[-4000:]})
        elif not res.ok:
            raise MachineryFailure(f"TLC run {name} did not complete: {res.out[-2500:]}")
        chk.add_tlc("mc:" + name, res)
        chk.note(f"mc {name}: {res.distinct} states, {res.generated} transitions, {res.wall:.1f}s "
                 f"violated={res.violated}")


def gen_graph(chk: Check, module: str, name: str, c: dict) -> Graph:
    cfg = tlc.cfg_text(constants=c, invariants=["Emit"], constraints=["Bounded"])
    res = tlc.run(module, cfg, workers=1, timeout=3000)
    if not res.ok:
        raise MachineryFailure(f"TLC generation run {name} failed: {res.out[-2000:]}")
    g = Graph()
    for rec in res.printed():
        if not isinstance(rec, dict) or "s" not in rec or "mut" not in rec:
            continue
        k = canon(rec["s"])
        if k in g.states:
            continue
        g.states[k] = rec["s"]
        g.table[k] = [(o["op"], o["res"]) for o in rec["mut"]] + \
                     [(o["op"], [{"st": rec["s"], "ret": r} for r in o["rets"]]) for o in rec.get("qry", [])]
        g.order.append(k)
    # TLC also evaluates the Emit "invariant" on the successors of the deepest level, which the depth
    # constraint then discards: the emitted graph may hold more states than TLC counts, never fewer
    if len(g.states) < res.distinct:
        raise MachineryFailure(f"emitted graph {name} has {len(g.states)} states, TLC reports {res.distinct}")
    chk.add_tlc("gen:" + name, res)
    g.name = name
    return g


def trace_clause(ev, expected):
    if not expected:
        return "Unexplained"
    if not any(canon(x["ret"]) == canon(ev["ret"]) for x in expected):
        return "RetOK"
    if not any(canon(x["st"]) == canon(ev["st"]) for x in expected):
        return "StateOK"
    return "AbsOK"


def rerun_graph_record(pid: str, doc: dict, make_impl, matcher) -> int:
    """./check <id> --replay <file> for a violation found by the graph replay: rebuild the real object,
    re-execute the recorded path and the failing operation, compare again with the recorded (TLC-produced)
    expectation."""
    rep, sig = doc["replay"], doc["signature"]
    impl = make_impl()
    for op in rep.get("path", []):
        impl.apply(op)
    if sig.get("clause") == "PathState":
        why = matcher.state(rep["expected_state"], impl.project())
    else:
        ret = impl.apply(rep["op"])
        proj = impl.project()
        why = None
        whys = []
        for o in rep["expected"]:
            w = matcher.ret(o["ret"], ret) or matcher.state(o["st"], proj)
            if not w:
                whys = []
                break
            whys.append(w)
        why = whys[0] if whys else None
    if why:
        print(f"VIOLATION property={pid} replay=(re-executed) {why}")
        print(f"  signature: {sig}")
        return 1
    print(f"[{pid}] replay: the recorded behaviour now conforms to the specification")
    return 0
