"""Numeric evaluation of the symbolic values of spec/SymVal.tla (DESIGN 2.4 device 3).

A SymVal arrives from TLC (through ToJson) as a list of terms {"c","b","e","m"} meaning
    sum  m * const(c) * base(b) ** e
with const("x*y") = const(x) * const(y) and base("1") = 1.  The evaluation is done in
float64 (or exactly, with fractions.Fraction, in the dyadic recipe) for a concrete
parameter set supplied by the property's harness; the comparison with the float32
implementation uses rtol 1e-5 / atol 1e-6 relative to the magnitude of the terms (so that
cancelling sums such as the double exponential are not judged on their tiny difference).
"""
from __future__ import annotations
import math
from fractions import Fraction

RTOL, ATOL = 1e-5, 1e-6


def const_of(tag: str, consts: dict):
    out = 1.0
    for part in tag.split("*"):
        out = out * consts[part]
    return out


def eval_sym(v, consts: dict, bases: dict):
    """value and magnitude (sum of |terms|) of a SymVal"""
    tot, mag = 0.0, 0.0
    for t in v:
        b = 1.0 if t["b"] == "1" else bases[t["b"]] ** t["e"]
        x = t["m"] * const_of(t["c"], consts) * b
        tot += x
        mag += abs(x)
    return tot, mag


def eval_sym_exact(v, consts: dict, D: int):
    """dyadic recipe: every base satisfies base**D == 1/2; consts are Fractions"""
    tot = Fraction(0)
    for t in v:
        if t["b"] != "1":
            if t["e"] % D != 0:
                raise ValueError("off-grid exponent in exact evaluation")
            f = Fraction(1, 2) ** (t["e"] // D)
        else:
            f = Fraction(1)
        c = Fraction(1)
        for part in t["c"].split("*"):
            c *= Fraction(consts[part])
        tot += t["m"] * c * f
    return tot


def close(expected: float, got: float, mag: float = 0.0, rtol: float = RTOL, atol: float = ATOL) -> bool:
    """float comparison used by every numeric binding"""
    if isinstance(got, bool):
        got = float(got)
    if math.isnan(expected) or math.isnan(got):
        return math.isnan(expected) and math.isnan(got)
    if math.isinf(expected) or math.isinf(got):
        return expected == got
    return abs(expected - got) <= atol + rtol * max(abs(expected), abs(mag))


def all_close(exp, got, mags=None, **kw) -> bool:
    if len(exp) != len(got):
        return False
    mags = mags or [0.0] * len(exp)
    return all(close(e, g, m, **kw) for e, g, m in zip(exp, got, mags))
