"""Direction A for specifications whose states hold SYMBOLIC values: execute the edges of the
outcome tables TLC printed on the real implementation and compare through a property-specific
matcher (which evaluates the symbolic expectation numerically) instead of canonical JSON
equality.  Otherwise the construction is that of harness/graph.py: every executed edge starts
from an implementation state that was itself reached by real calls along a BFS path of the
emitted graph, and the projected implementation state is compared after every call."""
from __future__ import annotations
import random
from .graph import Graph, canon


class Stats:
    def __init__(self):
        self.edges = 0
        self.states = 0
        self.pairs = set()
        self.mismatches = 0


def successors(g: Graph):
    """state key -> [(op, key of the target)] over the deterministic state-changing operations
    (computed once per graph: canonical JSON of every target is the expensive part)"""
    succ = g.__dict__.get("_succ")
    if succ is None:
        succ = {}
        for k, table in g.table.items():
            out = []
            for op, outs in table:
                if len(outs) != 1 or outs[0]["st"] is g.states[k]:
                    continue
                k2 = canon(outs[0]["st"])
                if k2 != k and k2 in g.states:
                    out.append((op, k2))
            succ[k] = out
        g.__dict__["_succ"] = succ
    return succ


def bfs_paths(g: Graph, init_key: str, op_filter=None):
    from collections import deque
    succ = successors(g)
    paths = {init_key: []}
    q = deque([init_key])
    while q:
        k = q.popleft()
        for op, k2 in succ.get(k, []):
            if op_filter and not op_filter(op):
                continue
            if k2 not in paths:
                paths[k2] = paths[k] + [(op, k2)]
                q.append(k2)
    return paths


def replay(g: Graph, init_key: str, make_impl, matcher, *, max_states: int | None, rng: random.Random,
           on_mismatch, deviate=None, op_filter=None, nontrivial=lambda key, st: True,
           max_mismatch: int = 25, tag: str = "") -> Stats:
    """matcher.state(expected_state, observed_projection) -> None | str (reason)
    matcher.ret(expected_ret, observed_ret)              -> None | str
    make_impl() -> object with apply(op) -> ret, project() -> projection
    deviate(op, ret, proj) -> (ret, proj): canaries corrupt what the implementation reports."""
    stats = Stats()
    cache = g.__dict__.setdefault("_paths_cache", {})
    if op_filter is None and init_key in cache:
        paths = cache[init_key]
    else:
        paths = bfs_paths(g, init_key, op_filter)
        if op_filter is None:
            cache[init_key] = paths
    keys = list(paths)
    if max_states is not None and len(keys) > max_states:
        # keep the deepest states represented: half of the sample from the deepest two levels
        depth = {k: len(paths[k]) for k in keys}
        dmax = max(depth.values())
        deep = [k for k in keys if depth[k] >= dmax - 1]
        rest = [k for k in keys if depth[k] < dmax - 1]
        rng.shuffle(deep)
        rng.shuffle(rest)
        half = max_states // 2
        chosen = deep[:half] + rest[: max_states - min(half, len(deep))]
        keys = [init_key] + [k for k in chosen if k != init_key]

    def build(k):
        impl = make_impl()
        for op, _ in paths[k]:
            impl.apply(op)
        return impl

    def report(sig, rep):
        stats.mismatches += 1
        on_mismatch(dict(sig, site="graph-replay" + tag), rep)

    for k in keys:
        ops = g.table[k]
        if op_filter:
            ops = [x for x in ops if op_filter(x[0])]
        impl = build(k)
        why = matcher.state(g.states[k], impl.project())
        if why:
            report({"clause": "PathState", "op": "path"},
                   {"path": [p[0] for p in paths[k]], "expected_state": g.states[k],
                    "observed": impl.project(), "why": why})
            if stats.mismatches >= max_mismatch:
                return stats
            continue
        stats.states += 1
        dirty = False
        for op, outs in ops:
            if dirty:
                impl = build(k)
                dirty = False
            ret = impl.apply(op)
            proj = impl.project()
            if deviate:
                ret, proj = deviate(op, ret, proj)
            stats.edges += 1
            if nontrivial(k, g.states[k]):
                stats.pairs.add((k, canon(op)))
            whys = []
            ok = False
            for o in outs:
                w = matcher.ret(o["ret"], ret)
                clause = "RetOK"
                if not w:
                    w = matcher.state(o["st"], proj)
                    clause = "StateOK"
                if not w:
                    ok = True
                    break
                whys.append((clause, w))
            if not ok:
                clause = whys[0][0] if whys else "Unexplained"
                report({"clause": clause, "op": op.get("a")},
                       {"path": [p[0] for p in paths[k]], "state": g.states[k], "op": op, "expected": outs,
                        "observed": {"ret": ret, "st": proj}, "why": [w for _, w in whys]})
                if stats.mismatches >= max_mismatch:
                    return stats
                dirty = True
            # anything but a pure query may have changed the implementation state
            if len(outs) != 1 or canon(outs[0]["st"]) != k:
                dirty = True
    return stats
