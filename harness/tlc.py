"""Thin runner around TLC: runs a module with a config, parses TLC's own counts,
coverage, invariant violations and PrintT output."""
from __future__ import annotations
import json, os, re, shutil, subprocess, tempfile, time
from pathlib import Path

SPEC_DIR = Path(__file__).resolve().parent.parent / "spec"
JAR = "/opt/veriftools/tla/tla2tools.jar"


class TLCError(RuntimeError):
    pass


def _scratch() -> Path:
    base = os.environ.get("VERIF_SCRATCH")
    if base:
        Path(base).mkdir(parents=True, exist_ok=True)
        return Path(tempfile.mkdtemp(prefix="tlc-", dir=base))
    return Path(tempfile.mkdtemp(prefix="verif-tlc-"))


def cfg_text(spec: str = "Spec", constants: dict | None = None, invariants=(), constraints=(),
             postcondition: str | None = None, properties=(), deadlock: bool = False,
             action_constraints=(), view: str | None = None) -> str:
    lines = [f"SPECIFICATION {spec}"]
    if constants:
        lines.append("CONSTANTS")
        for k, v in constants.items():
            lines.append(f"  {k} = {tla_value(v)}")
    for i in invariants:
        lines.append(f"INVARIANT {i}")
    for p in properties:
        lines.append(f"PROPERTY {p}")
    for c in constraints:
        lines.append(f"CONSTRAINT {c}")
    for c in action_constraints:
        lines.append(f"ACTION_CONSTRAINT {c}")
    if view:
        lines.append(f"VIEW {view}")
    if postcondition:
        lines.append(f"POSTCONDITION {postcondition}")
    lines.append(f"CHECK_DEADLOCK {'TRUE' if deadlock else 'FALSE'}")
    return "\n".join(lines) + "\n"


def tla_value(v) -> str:
    """Python value -> TLA+ literal usable in a cfg file (sets, ints, strings, bools)."""
    if isinstance(v, bool):
        return "TRUE" if v else "FALSE"
    if isinstance(v, int):
        return str(v)
    if isinstance(v, str):
        return json.dumps(v)
    if isinstance(v, (set, frozenset)):
        return "{" + ", ".join(sorted((tla_value(x) for x in v), key=lambda s: (len(s), s))) + "}"
    raise TypeError(f"cannot render {v!r} in a cfg file")


_RE_GEN = re.compile(r"(\d+) states generated, (\d+) distinct states found, (\d+) states left on queue")
_RE_DEPTH = re.compile(r"The depth of the complete state graph search is (\d+)")
_RE_INV = re.compile(r"Error: Invariant (\S+) is violated")
_RE_COV = re.compile(r"^<(\w+) line (\d+), col (\d+) to line (\d+), col (\d+) of module (\w+)>: (\d+):(\d+)")


class TLCResult:
    def __init__(self, out: str, rc: int, wall: float, workdir: Path | None):
        self.out, self.rc, self.wall, self.workdir = out, rc, wall, workdir
        m = None
        for m in _RE_GEN.finditer(out):
            pass
        self.generated = int(m.group(1)) if m else 0
        self.distinct = int(m.group(2)) if m else 0
        self.queue = int(m.group(3)) if m else -1
        d = _RE_DEPTH.search(out)
        self.depth = int(d.group(1)) if d else 0
        self.violated = _RE_INV.findall(out)
        self.completed = "Model checking completed. No error has been found." in out
        self.finished = ("Finished in" in out)
        self.errors = [l for l in out.splitlines() if l.startswith("Error:")]
        self.coverage = {}
        for line in out.splitlines():
            c = _RE_COV.match(line.strip())
            if c:
                self.coverage[f"{c.group(1)}@{c.group(6)}:{c.group(2)}"] = (int(c.group(7)), int(c.group(8)))

    @property
    def ok(self) -> bool:
        return self.completed and not self.errors

    def printed(self):
        """Lines printed by PrintT(ToJson(..)): each is a quoted JSON string."""
        for line in self.out.splitlines():
            if line.startswith('"') and line.endswith('"'):
                try:
                    yield json.loads(json.loads(line))
                except Exception:
                    continue

    def printed_raw(self, prefix: str):
        for line in self.out.splitlines():
            if line.startswith(prefix):
                yield line


def run(module: str, cfg: str, *, workers: int | str = 16, env: dict | None = None, extra=(),
        timeout: int = 1800, dfs: bool = False, keep: bool = False, coverage: bool = False,
        simulate: str | None = None, depth: int | None = None, seed: int | None = None) -> TLCResult:
    """Run TLC on spec/<module>.tla with the given cfg text in a scratch copy of spec/."""
    work = _scratch()
    try:
        for f in SPEC_DIR.glob("*.tla"):
            shutil.copy(f, work / f.name)
        (work / f"{module}.cfg").write_text(cfg)
        if str(workers) == "1":
            cmd = ["java", "-XX:+UseSerialGC", "-Xms64m", "-Xmx3g"]
        else:
            cmd = ["java", "-XX:+UseParallelGC", "-XX:ParallelGCThreads=4", "-Xms128m", "-Xmx6g"]
        if dfs:
            cmd.append("-Dtlc2.tool.queue.IStateQueue=StateDeque")
        cmd += ["-cp", JAR + ":/opt/veriftools/tla/CommunityModules-deps.jar", "tlc2.TLC",
                "-workers", str(workers), "-metadir", str(work / "meta"), "-noGenerateSpecTE",
                "-config", f"{module}.cfg"]
        if coverage:
            cmd += ["-coverage", "1"]
        if simulate:
            cmd += ["-simulate", simulate]
        if depth is not None:
            cmd += ["-depth", str(depth)]
        if seed is not None:
            cmd += ["-seed", str(seed)]
        cmd += list(extra) + [f"{module}.tla"]
        e = dict(os.environ)
        if env:
            e.update({k: str(v) for k, v in env.items()})
        t0 = time.time()
        try:
            p = subprocess.run(cmd, cwd=work, env=e, capture_output=True, text=True, timeout=timeout)
            out, rc = p.stdout + p.stderr, p.returncode
        except subprocess.TimeoutExpired as ex:
            out = (ex.stdout or b"").decode() if isinstance(ex.stdout, bytes) else (ex.stdout or "")
            out += "\nError: TIMEOUT"
            rc = 124
        res = TLCResult(out, rc, time.time() - t0, work if keep else None)
        return res
    finally:
        if not keep:
            shutil.rmtree(work, ignore_errors=True)
