"""Direction B/C (code -> spec): validate batches of recorded executions against
a trace specification with TLC (many traces per JVM, sharded over JVMs)."""
from __future__ import annotations
import json, os, tempfile
from concurrent.futures import ThreadPoolExecutor
from . import tlc

TRACE_CFG = tlc.cfg_text(spec="TraceSpec", constraints=["Track"], postcondition="Post")


def _run_shard(module, traces, extra_cfg=None, dfs=False, timeout=1800):
    fd, path = tempfile.mkstemp(prefix="trace-", suffix=".json")
    try:
        with os.fdopen(fd, "w") as f:
            json.dump(traces, f)
        res = tlc.run(module, extra_cfg or TRACE_CFG, workers=1, env={"TRACE_FILE": path}, dfs=dfs, timeout=timeout)
    finally:
        os.unlink(path)
    rejected, diags, total = None, {}, None
    for rec in res.printed():
        if isinstance(rec, dict) and "rejected" in rec:
            rejected = {int(t): int(l) for t, l in rec["rejected"]}
            total = rec["total"]
        elif isinstance(rec, dict) and "diag" in rec:
            diags.setdefault((int(rec["diag"]), int(rec["l"])), rec)
    if rejected is None or total != len(traces) or res.errors:
        raise tlc.TLCError("trace validation run failed:\n" + res.out[-3000:])
    return res, rejected, diags


def validate(module: str, traces: list, shards: int = 16, max_waive_rounds: int = 6, dfs=False, cfg=None):
    """Returns (summary, rejections).  rejections: list of dicts
    {trace: index, line: l (1-based), event, diag} - every distinct failing line of every
    trace (a rejected trace is re-validated with the failing line waived so that the rest
    of the execution is examined too)."""
    for t in traces:
        t["hdr"].setdefault("waive", [])
    n = len(traces)
    idx = list(range(n))
    rejections = []
    stats = {"generated": 0, "distinct": 0, "runs": 0, "wall": 0.0}
    pending = idx
    for rnd in range(max_waive_rounds):
        if not pending:
            break
        k = max(1, min(shards, len(pending)))
        groups = [pending[i::k] for i in range(k)]
        with ThreadPoolExecutor(max_workers=k) as ex:
            futs = [ex.submit(_run_shard, module, [traces[i] for i in g], cfg, dfs) for g in groups]
            results = [f.result() for f in futs]
        nxt = []
        for g, (res, rej, diags) in zip(groups, results):
            stats["generated"] += res.generated
            stats["distinct"] += res.distinct
            stats["runs"] += 1
            stats["wall"] = max(stats["wall"], res.wall)
            for local, line in rej.items():
                gi = g[local - 1]
                ev = traces[gi]["ev"][line - 1]
                rejections.append({"trace": gi, "line": line, "event": ev,
                                   "diag": diags.get((local, line))})
                traces[gi]["hdr"]["waive"] = sorted(set(traces[gi]["hdr"]["waive"]) | {line})
                nxt.append(gi)
        pending = nxt
    return stats, rejections
