#!/bin/sh
# Offline setup: verify tools and pre-parse every specification.
set -e
cd "$(dirname "$0")"
command -v java >/dev/null
test -f /opt/veriftools/tla/tla2tools.jar
/venv/bin/python -c "import torch, einops" 
mkdir -p evidence/replays
cd spec
for f in *.tla; do
  java -cp /opt/veriftools/tla/tla2tools.jar:/opt/veriftools/tla/CommunityModules-deps.jar tla2sany.SANY "$f" > /tmp/sany.$$ 2>&1 || { cat /tmp/sany.$$; rm -f /tmp/sany.$$; exit 1; }
  if grep -q "\*\*\* Errors\|Fatal errors" /tmp/sany.$$; then cat /tmp/sany.$$; rm -f /tmp/sany.$$; exit 1; fi
done
rm -f /tmp/sany.$$
echo "setup ok"
