------------------------------ MODULE BatchMC ------------------------------
(***************************************************************************)
(* C11 - BatchProduct: a batched component is the product of B copies of   *)
(* the single-sample machine stepping in lock-step on per-sample inputs;   *)
(* the only shared variables are the DECLARED couplings:                   *)
(*   - the adaptation of a neuron (one value per neuron, shared by the     *)
(*     batch; its update is computed per sample and batch-REDUCED),        *)
(*   - the accumulated parts of a trainer (per-sample contributions,       *)
(*     batch-reduced before they are appended to the accumulator).         *)
(*                                                                         *)
(* Mech (batched): per-sample neuron states bat[i] (NeuronCore, dyadic     *)
(* mode) + ONE shared adaptation `ad` + one accumulator `accb`; a step     *)
(* evaluates the single-sample step function on every sample with the      *)
(* shared adaptation, then reduces the B candidate adaptations.            *)
(* Abs (independent runs): B single machines solo[i], each with its own    *)
(* adaptation and accumulator accs[i].                                     *)
(*                                                                         *)
(* Invariants: with adaptation frozen the projection of the batched        *)
(* machine on sample i IS the i-th single machine (NonInterference); with  *)
(* a sum reduction the batched accumulator is the sum of the per-sample    *)
(* accumulators (SumReductionAdditive); with adaptation on and identical   *)
(* per-sample drives a mean reduction changes nothing (CouplingIsReduce).  *)
(***************************************************************************)
EXTENDS NeuronCore, TLC

CONSTANTS
  B,          \* batch size
  Ds, Locks,  \* ticks per step / refrac_lock values offered
  RMax,       \* refractory periods 0..RMax
  Off, CursO, RestO, ResetO, ThetaO, Inc,
  AdaptOn,    \* adaptation updated (the declared coupling) or frozen
  SameDrive,  \* all samples receive the same drive
  Reduce,     \* "sum" | "mean": batch reduction
  MaxDepth

Curs == {x - Off : x \in CursO}
Samples == 1..B

VARIABLES c, bat, ad, solo, accb, accs
vars == <<c, bat, ad, solo, accb, accs>>

Configs ==
  {[D |-> d, R |-> r, lock |-> k, lax |-> FALSE, attrmode |-> "stored", dy |-> TRUE,
    rest |-> RestO - Off, reset |-> ResetO - Off, theta |-> ThetaO - Off, glif |-> FALSE, mul2 |-> 0, add |-> 0,
    adapt |-> AdaptOn, inc |-> Inc] : d \in Ds, r \in 0..RMax, k \in Locks}

RECURSIVE SumTo(_, _)
SumTo(f, n) == IF n = 0 THEN 0 ELSE f[n] + SumTo(f, n - 1)
Red(f) == IF Reduce = "sum" THEN SumTo(f, B) ELSE SumTo(f, B) \div B

\* the single-sample step is deterministic in strict dyadic mode
StepOf(s, cur) == CHOOSE o \in MStep(c, s, [cur |-> cur]) : TRUE

\* per-sample contribution of a training step (a stand-in for "post spike x pre trace"):
\* the presented current when the sample spiked
Contribution(o, cur) == IF o.ret.spk THEN cur ELSE 0

Drives == IF SameDrive THEN {[i \in Samples |-> x] : x \in Curs} ELSE [Samples -> Curs]

Init == /\ c \in Configs
        /\ bat = [i \in Samples |-> InitSt(c)]
        /\ ad = 0
        /\ solo = [i \in Samples |-> InitSt(c)]
        /\ accb = 0
        /\ accs = [i \in Samples |-> 0]

Next ==
  \E d \in Drives :
    LET ob == [i \in Samples |-> StepOf([bat[i] EXCEPT !.ad = ad], d[i])]   \* every sample sees the SHARED adaptation
        os == [i \in Samples |-> StepOf(solo[i], d[i])]
    IN /\ bat'  = [i \in Samples |-> [ob[i].st EXCEPT !.ad = 0]]
       /\ ad'   = IF AdaptOn THEN Red([i \in Samples |-> ob[i].st.ad]) ELSE ad   \* setter reduces the batch dimension
       /\ solo' = [i \in Samples |-> os[i].st]
       /\ accb' = accb + Red([i \in Samples |-> Contribution(ob[i], d[i])])
       /\ accs' = [i \in Samples |-> accs[i] + Contribution(os[i], d[i])]
       /\ UNCHANGED c
Spec == Init /\ [][Next]_vars

Bounded == TLCGet("level") <= MaxDepth

Proj(i) == [bat[i] EXCEPT !.ad = ad]

\* adaptation frozen: each sample of the batch behaves as if it ran alone
NonInterference == (~AdaptOn) => \A i \in Samples : Proj(i) = solo[i]
\* sum reduction: a batched training step is the sum of the per-sample steps
SumReductionAdditive == (~AdaptOn /\ Reduce = "sum") => accb = SumTo(accs, B)
\* the coupling is exactly the reduction: identical samples + mean reduction = single run
CouplingIsReduce == (AdaptOn /\ SameDrive /\ Reduce = "mean") => \A i \in Samples : Proj(i) = solo[i]
\* halving / mean stay exact on the dyadic grid
Exact == (ad % 2 = 0) /\ \A i \in Samples : (bat[i].v - c.rest) % 2 = 0
=============================================================================
