----------------------------- MODULE BatchTrace -----------------------------
(***************************************************************************)
(* C11 - relational trace validation: a BATCHED run (batch size B) and B   *)
(* independent batch-size-1 runs of an identically parameterised component *)
(* on the same per-sample input sequences, recorded step by step.          *)
(*                                                                         *)
(*   hdr: B, tolq (0: dyadic recipe, values are exact scaled integers;     *)
(*        > 0: values quantised to one tolerance unit), waive (lines)      *)
(*   ev : << [s |-> << per sample << per stage [db, ds, qb, qs, bit] >> >>,*)
(*            acc |-> [b |-> <<..>>, p |-> << per sample <<..>> >>,        *)
(*                     tol |-> n, on |-> BOOLEAN]] >>                      *)
(*        db / ds: discrete projection (spikes, refrac ticks, ring         *)
(*        pointers, spike histories) of sample i in the batched / single   *)
(*        run; qb / qs: real projection (voltages, currents, histories);   *)
(*        bit: the real projections are bitwise identical.  Stages are     *)
(*        ordered along the data flow.  An event carries its own batch     *)
(*        size B (the batch may be grown / shrunk through the `batchsz`    *)
(*        setter mid-run: `resize` marks the first event after it - the    *)
(*        setter clears the state, so no earlier exemption survives).      *)
(*                                                                         *)
(* BatchProduct says: the projection of the batched machine on sample i is *)
(* the state of the i-th single machine after every step (NonInterference  *)
(* of BatchMC).  Outside the dyadic mode vectorised and scalar kernels may *)
(* differ in the last ulp; a sample whose real values were not bitwise     *)
(* identical in an earlier stage / step is exempt from then on (a          *)
(* near-threshold decision may legitimately flip) - but the first          *)
(* difference itself must be within one tolerance unit.                    *)
(* acc: with batch_reduction = sum the parts accumulated by a batched      *)
(* training step equal the sum of the per-sample parts.                    *)
(***************************************************************************)
EXTENDS Integers, Sequences, FiniteSets, Json, IOUtils, TLCExt, TLC

Traces == JsonDeserialize(IOEnv.TRACE_FILE)

VARIABLES tid, l, ex
vars == <<tid, l, ex>>

NT == Len(Traces)
Evs(t) == Traces[t].ev
BSz(t) == Traces[t].hdr.B
TolQ(t) == Traces[t].hdr.tolq
MaxI(a, b) == IF a >= b THEN a ELSE b
AbsV(x) == IF x < 0 THEN -x ELSE x
ToSet(s) == {s[i] : i \in DOMAIN s}
Waived(t) == ToSet(Traces[t].hdr.waive)

ASSUME \A i \in 1..NT : TLCSet(100 + i, 0)

DiscEq(sg) == sg.db = sg.ds
RealEq(t, sg) == /\ Len(sg.qb) = Len(sg.qs)
                 /\ \A k \in DOMAIN sg.qb : AbsV(sg.qb[k] - sg.qs[k]) <= TolQ(t)

\* a sample is exempt at stage k if it was exempt before this step or an earlier stage of this
\* step was not bitwise identical (only outside the dyadic mode)
ExemptAt(t, exi, stages, k) == TolQ(t) > 0 /\ (exi \/ \E j \in 1..(k - 1) : ~stages[j].bit)

SampleOK(t, exi, stages) ==
  \A k \in DOMAIN stages : ExemptAt(t, exi, stages, k) \/ (DiscEq(stages[k]) /\ RealEq(t, stages[k]))

BE(e) == e.B
NewExempt(t, e) == {i \in 1..BE(e) : TolQ(t) > 0 /\ \E j \in DOMAIN e.s[i] : ~e.s[i][j].bit}
Before(exs, e) == IF e.resize THEN {} ELSE exs

RECURSIVE SumParts(_, _, _)
SumParts(p, k, n) == IF n = 0 THEN 0 ELSE p[n][k] + SumParts(p, k, n - 1)

\* SumReductionAdditive
AccOK(t, e, exs) ==
  (e.acc.on /\ exs = {}) =>
     /\ Len(e.acc.p) = BE(e)
     /\ \A k \in DOMAIN e.acc.b : AbsV(e.acc.b[k] - SumParts(e.acc.p, k, BE(e))) <= e.acc.tol

EventOK(t, exs0, e) ==
  LET exs == Before(exs0, e) IN
  /\ Len(e.s) = BE(e)
  /\ \A i \in 1..BE(e) : SampleOK(t, i \in exs, e.s[i])
  /\ AccOK(t, e, exs \cup NewExempt(t, e))

Init == /\ tid \in 1..NT
        /\ l = 1
        /\ ex = {}

Step ==
  /\ l <= Len(Evs(tid))
  /\ LET e == Evs(tid)[l] IN
       /\ (l \in Waived(tid) \/ EventOK(tid, ex, e))
       /\ ex' = IF l \in Waived(tid) THEN 1..8 ELSE Before(ex, e) \cup NewExempt(tid, e)
  /\ l' = l + 1
  /\ UNCHANGED tid

TraceSpec == Init /\ [][Step]_vars

Track ==
  /\ TLCSet(100 + tid, MaxI(TLCGet(100 + tid), l))
  /\ IF l <= Len(Evs(tid)) /\ ~(l \in Waived(tid)) /\ ~EventOK(tid, ex, Evs(tid)[l])
     THEN LET e == Evs(tid)[l]
              t == tid
              bad == {<<i, k>> \in (1..BE(e)) \X (1..10) :
                        /\ i <= Len(e.s) /\ k \in DOMAIN e.s[i]
                        /\ ~ExemptAt(t, i \in Before(ex, e), e.s[i], k)
                        /\ ~(DiscEq(e.s[i][k]) /\ RealEq(t, e.s[i][k]))}
          IN PrintT(ToJson([diag |-> tid, l |-> l,
                            bad |-> {[sample |-> p[1], stage |-> p[2], disc |-> DiscEq(e.s[p[1]][p[2]]),
                                      real |-> RealEq(t, e.s[p[1]][p[2]])] : p \in bad},
                            acc |-> AccOK(t, e, Before(ex, e) \cup NewExempt(t, e)),
                            exempt |-> ex]))
     ELSE TRUE

Post ==
  PrintT(ToJson([rejected |-> {<<i, TLCGet(100 + i)>> : i \in {j \in 1..NT : TLCGet(100 + j) <= Len(Evs(j))}},
                 total |-> NT]))
=============================================================================
