---------------------------- MODULE CheckpointMC ----------------------------
(***************************************************************************)
(* C12 - the checkpoint protocol, abstractly.                              *)
(*                                                                         *)
(* Two instances A and B of one configuration hold the same variables.     *)
(* Every variable has a class (the `table` of a component):                *)
(*   "persisted"  written to / read from the state dictionary (parameters, *)
(*                persistent buffers, extras such as ring pointers)        *)
(*   "derived"    not stored; a function of persisted variables that a     *)
(*                load hook recomputes (e.g. the classifier's assignments) *)
(*   "config"     fixed by construction, identical in A and B              *)
(*   "volatile"   changes while running but is neither stored nor          *)
(*                recomputed                                               *)
(* A runs k steps and is saved; B - freshly built and warmed up by one     *)
(* step, or previously run on other data - loads the checkpoint; from then *)
(* on both receive the same inputs.  A step maps ALL variables and the     *)
(* input to new values (an arbitrary but fixed mixing function, so any     *)
(* difference anywhere keeps propagating).                                 *)
(*                                                                         *)
(* TLC explores every table, every checkpoint step k <= MaxT, both target  *)
(* kinds, all inputs:   LoadRestoresAll(table) => FuturesEqual.            *)
(* The converse is checked as reachability: with a volatile variable some  *)
(* run has different futures (cfg with invariant NeverDiffer must FAIL).   *)
(***************************************************************************)
EXTENDS Integers, Sequences, FiniteSets, TLC

CONSTANTS NVars, MaxT, MaxPrior, Tables   \* Tables: "all" | "covered" | "volatile"

Vars == 1..NVars
Classes == {"persisted", "derived", "config", "volatile"}
Vals == 0..2

VARIABLES table, A, B, saved, phase, t, k, prior

vars == <<table, A, B, saved, phase, t, k, prior>>

LoadRestoresAll(tb) == \A v \in Vars : tb[v] # "volatile"

Sum(f, S) == LET RECURSIVE S2(_)
                 S2(T) == IF T = {} THEN 0 ELSE LET x == CHOOSE y \in T : TRUE IN f[x] + S2(T \ {x})
             IN S2(S)

\* derived variables are functions of the persisted ones
Derive(tb, val) ==
  [v \in Vars |-> IF tb[v] = "derived"
                  THEN (Sum([u \in Vars |-> IF tb[u] = "persisted" THEN val[u] * u ELSE 0], Vars) + v) % 3
                  ELSE val[v]]

\* one simulation step: every dynamic variable is rewritten from all variables and the input
StepF(tb, val, i) ==
  LET mix == Sum([u \in Vars |-> val[u] * (u + 1)], Vars) + i
      raw == [v \in Vars |-> IF tb[v] \in {"persisted", "volatile"} THEN (mix + v) % 3 ELSE val[v]]
  IN Derive(tb, raw)

TableOK(tb) ==
  CASE Tables = "covered" -> LoadRestoresAll(tb)
    [] Tables = "volatile" -> ~LoadRestoresAll(tb)
    [] OTHER -> TRUE

Init ==
  /\ table \in {tb \in [Vars -> Classes] : TableOK(tb)}
  /\ \E c \in [Vars -> Vals] :            \* same configuration; different dynamic state
       /\ A = Derive(table, c)
       /\ \E d \in [Vars -> Vals] :
            B = Derive(table, [v \in Vars |-> IF table[v] = "config" THEN c[v] ELSE d[v]])
  /\ saved = [v \in Vars |-> -1]
  /\ phase = "run"
  /\ t = 0
  /\ k \in 0..MaxT
  /\ prior \in 1..MaxPrior                 \* 1: freshly built + one warm-up step; more: run on other data

\* A advances towards the checkpoint step
StepA == /\ phase = "run" /\ t < k
         /\ \E i \in 0..1 : A' = StepF(table, A, i)
         /\ t' = t + 1
         /\ UNCHANGED <<table, B, saved, phase, k, prior>>

\* B lives its own prior life on other data
StepB == /\ phase = "run" /\ prior > 0
         /\ \E j \in 0..1 : B' = StepF(table, B, j)
         /\ prior' = prior - 1
         /\ UNCHANGED <<table, A, saved, phase, t, k>>

Save == /\ phase = "run" /\ t = k /\ prior = 0
        /\ saved' = [v \in Vars |-> IF table[v] = "persisted" THEN A[v] ELSE -1]
        /\ phase' = "saved"
        /\ UNCHANGED <<table, A, B, t, k, prior>>

Load == /\ phase = "saved"
        /\ B' = Derive(table, [v \in Vars |-> IF table[v] = "persisted" THEN saved[v] ELSE B[v]])
        /\ phase' = "loaded"
        /\ UNCHANGED <<table, A, saved, t, k, prior>>

StepBoth == /\ phase = "loaded" /\ t < MaxT + 2
            /\ \E i \in 0..1 : A' = StepF(table, A, i) /\ B' = StepF(table, B, i)
            /\ t' = t + 1
            /\ UNCHANGED <<table, saved, phase, k, prior>>

Next == StepA \/ StepB \/ Save \/ Load \/ StepBoth
Spec == Init /\ [][Next]_vars

TypeOK == /\ A \in [Vars -> Vals] /\ B \in [Vars -> Vals]
          /\ phase \in {"run", "saved", "loaded"}

\* C12 at protocol level
FuturesEqual == (phase = "loaded" /\ LoadRestoresAll(table)) => A = B

\* must FAIL when tables with a volatile variable are explored (sensitivity of the model)
NeverDiffer == phase = "loaded" => A = B
=============================================================================
