--------------------------- MODULE CheckpointTrace ---------------------------
(***************************************************************************)
(* C12, direction B: recorded checkpoint experiments on real inferno       *)
(* models.  One trace = one (configuration, checkpoint step k, target      *)
(* kind):                                                                  *)
(*    A: build, k steps, SAVE (torch.save of every state_dict)             *)
(*    B: build (other initial weights), warm-up / prior run on other data, *)
(*       LOAD, then A and B receive the same inputs step by step.          *)
(* hdr.table lists every REGISTERED variable of every module (parameters,  *)
(* buffers persistent or not, extras) with the class the harness derived   *)
(* from the registration mechanism and from comparing differently driven   *)
(* runs:  "persisted" | "derived" | "config" | "volatile"  (see            *)
(* CheckpointMC).  Values are interned tokens: equal token <=> identical   *)
(* value (dtype, shape, bytes / scalar); 0 = variable absent.              *)
(*                                                                         *)
(* events                                                                  *)
(*   save  ret.vars[i]   token of variable i in A at the checkpoint        *)
(*   load  ret.t "ok" | "err";  ret.before[i], ret.after[i]  variable i in *)
(*         B before / after load;  ret.a, ret.b  group tokens of A and B   *)
(*         right after the load                                            *)
(*   step  ret.a, ret.b  group tokens after the common step                *)
(* groups: out (returned outputs, classifier prediction), sd (all state    *)
(* dictionaries incl. extras: ring contents and write positions, reducer   *)
(* state and counters, accumulators, parameters), reg (registered          *)
(* variables incl. non-persistent ones), pub (public getters: voltages,    *)
(* spikes, delayed synaptic views, monitor peek/dump, classifier buffers). *)
(*                                                                         *)
(* clauses (names are reported)                                            *)
(*   HeaderOK   LoadRestoresAll(table): no registered variable is volatile *)
(*   LoadOK     load_state_dict returns normally                           *)
(*   Restored   per variable, by class: persisted / derived -> value of A   *)
(*              at the checkpoint; config -> unchanged and equal to A's    *)
(*   LoadEq     right after load all groups of B equal A's; `out` then     *)
(*              holds what the classifier predicts (both modes) BEFORE any *)
(*              further update                                             *)
(*   OutEq / StateEq / RegEq / PubEq   at every later step                 *)
(***************************************************************************)
EXTENDS Integers, Sequences, FiniteSets, TLC, Json, IOUtils, TLCExt

Traces == JsonDeserialize(IOEnv.TRACE_FILE)

VARIABLES tid, l, st
vars == <<tid, l, st>>

NT == Len(Traces)
Evs(t) == Traces[t].ev
Hdr(t) == Traces[t].hdr
MaxI(a, b) == IF a >= b THEN a ELSE b
Waived(t) == {Traces[t].hdr.waive[i] : i \in DOMAIN Traces[t].hdr.waive}

ASSUME \A i \in 1..NT : TLCSet(100 + i, 0)

LoadRestoresAll(tb) == \A i \in DOMAIN tb : tb[i].cls # "volatile"

\* indices of variables whose value after load is not what their class promises
NotRestored(tb, saved, before, after) ==
  {i \in DOMAIN tb :
     CASE tb[i].cls \in {"persisted", "derived"} -> after[i] # saved[i]
       [] tb[i].cls = "config" -> after[i] # before[i] \/ after[i] # saved[i]
       [] OTHER -> FALSE}

GroupDiff(a, b) ==
  (IF a.out # b.out THEN {"OutEq"} ELSE {})
  \cup (IF a.sd # b.sd THEN {"StateEq"} ELSE {})
  \cup (IF a.reg # b.reg THEN {"RegEq"} ELSE {})
  \cup (IF a.pub # b.pub THEN {"PubEq"} ELSE {})

Failed(t, s, e) ==
  LET tb == Hdr(t).table IN
  CASE e.op.a = "save" -> IF LoadRestoresAll(tb) THEN {} ELSE {"HeaderOK"}
    [] e.op.a = "load" ->
         IF e.ret.t # "ok" THEN {"LoadOK"}
         ELSE (IF NotRestored(tb, s.saved, e.ret.before, e.ret.after) # {} THEN {"Restored"} ELSE {})
              \cup (IF GroupDiff(e.ret.a, e.ret.b) # {} THEN {"LoadEq"} ELSE {})
    [] e.op.a = "step" -> IF s.phase = "loaded" THEN GroupDiff(e.ret.a, e.ret.b) ELSE {}
    [] OTHER -> {"UnknownEvent"}

After(s, e) ==
  CASE e.op.a = "save" -> [s EXCEPT !.phase = "saved", !.saved = e.ret.vars]
    [] e.op.a = "load" -> [s EXCEPT !.phase = "loaded"]
    [] OTHER -> s

Init == /\ tid \in 1..NT
        /\ l = 1
        /\ st = [phase |-> "run", saved |-> <<>>]

Step ==
  /\ l <= Len(Evs(tid))
  /\ LET e == Evs(tid)[l] IN
       /\ (l \in Waived(tid) \/ Failed(tid, st, e) = {})
       /\ st' = After(st, e)
  /\ l' = l + 1
  /\ UNCHANGED tid

TraceSpec == Init /\ [][Step]_vars

Track ==
  /\ TLCSet(100 + tid, MaxI(TLCGet(100 + tid), l))
  /\ IF l <= Len(Evs(tid)) /\ ~(l \in Waived(tid)) /\ Failed(tid, st, Evs(tid)[l]) # {}
     THEN LET e == Evs(tid)[l] IN
          PrintT(ToJson([diag |-> tid, l |-> l, clauses |-> Failed(tid, st, e),
                         vars |-> IF e.op.a = "load" /\ e.ret.t = "ok"
                                  THEN NotRestored(Hdr(tid).table, st.saved, e.ret.before, e.ret.after)
                                  ELSE IF e.op.a = "save"
                                  THEN {i \in DOMAIN Hdr(tid).table : Hdr(tid).table[i].cls = "volatile"}
                                  ELSE {}]))
     ELSE TRUE

Post ==
  PrintT(ToJson([rejected |-> {<<i, TLCGet(100 + i)>> : i \in {j \in 1..NT : TLCGet(100 + j) <= Len(Evs(j))}},
                 total |-> NT]))
=============================================================================
