---------------------------- MODULE ClassifierCore ----------------------------
(***************************************************************************)
(* Extension of the C12 specification: inferno.learn.MaxRateClassifier as  *)
(* an exact (rational-valued) state machine.                               *)
(*                                                                         *)
(*   rates[n][k]      per-neuron per-class rate (the only persisted state) *)
(*   proportions      rates L1-normalised over the classes of a neuron     *)
(*   assignments[n]   first class with the largest proportion              *)
(*   occurrences[k]   number of neurons assigned to class k                *)
(* The last three are DERIVED: non-persistent buffers that the `rates`     *)
(* setter recomputes, that the constructor must derive from the initial    *)
(* rates and that a load hook must recompute after load_state_dict.        *)
(*                                                                         *)
(* Exact arithmetic: inputs are small even integers and at most two        *)
(* samples share a class, so class means and rates are integers (decay =   *)
(* 0); proportions are carried multiplied by L = 840 (= lcm 1..8, row sums *)
(* stay <= 8), logits by L * M with M = 6 (= lcm 1..3 neurons per class).  *)
(*                                                                         *)
(* Abs  - rates only; everything else is a function of them.               *)
(* Mech - rates, proportions, assignments, occurrences stored separately   *)
(*        and updated the way the code does; rules R.init ("derive" |      *)
(*        "zeros": what the constructor leaves in the derived buffers) and *)
(*        R.hook ("recompute" | "none" | "closure": what the              *)
(*        load_state_dict post hook does, see MLoad).                      *)
(***************************************************************************)
EXTENDS Integers, Sequences, FiniteSets, TLC

CONSTANTS N, K       \* neurons, classes

L == 840
M == 6
Neurons == 1..N
Classes == 1..K

RECURSIVE SumOver(_, _)
SumOver(f, S) == IF S = {} THEN 0 ELSE LET x == CHOOSE y \in S : TRUE IN f[x] + SumOver(f, S \ {x})

RowSum(r, n) == SumOver(r[n], Classes)
MaxOf(f, S) == CHOOSE m \in {f[x] : x \in S} : \A y \in S : f[y] <= m
\* torch.argmax: the first maximal index
ArgmaxFirst(f) == CHOOSE k \in Classes : f[k] = MaxOf(f, Classes) /\ \A j \in Classes : j < k => f[j] < f[k]

\* F.normalize(rates, p=1, dim=-1): x / max(sum |x|, eps)
Props(r) == [n \in Neurons |-> [k \in Classes |-> IF RowSum(r, n) = 0 THEN 0 ELSE (r[n][k] * L) \div RowSum(r, n)]]
Assign(p) == [n \in Neurons |-> ArgmaxFirst(p[n])]
Occ(as) == [k \in Classes |-> Cardinality({n \in Neurons : as[n] = k})]
Derive(r) == LET p == Props(r) as == Assign(p) IN [p |-> p, as |-> as, oc |-> Occ(as)]

Zero == [n \in Neurons |-> [k \in Classes |-> 0]]
Out(st, r) == [st |-> st, ret |-> r]
Ok(st) == {Out(st, [t |-> "ok"])}

WithRates(st, r) == LET d == Derive(r) IN [st EXCEPT !.r = r, !.p = d.p, !.as = d.as, !.oc = d.oc]

Blank == [r |-> Zero, p |-> Zero, as |-> [n \in Neurons |-> 1], oc |-> [k \in Classes |-> 0]]
Fresh(R) == IF R.init = "derive" THEN WithRates(Blank, Zero) ELSE Blank

\* update(inputs, labels): per class the mean input of its samples is added to the rates
\*   clscounts = bincount(labels); rates = exp(-decay * clscounts) * rates + scatter_add(...) / clscounts
ClassMean(inp, lab, n, k) ==
  LET S == {b \in DOMAIN lab : lab[b] = k} IN
  IF S = {} THEN 0 ELSE SumOver([b \in DOMAIN lab |-> inp[b][n]], S) \div Cardinality(S)
NewRates(r, inp, lab) == [n \in Neurons |-> [k \in Classes |-> r[n][k] + ClassMean(inp, lab, n, k)]]
MUpdate(st, inp, lab) == Ok(WithRates(st, NewRates(st.r, inp, lab)))

\* regress(x, proportional): logits[k] = sum_n x[n] * assoc[n][k] / occurrences[k]   (nan, inf -> 0)
\*   assoc = one_hot(assignments) (* proportions if proportional)
LogitsOf(p, as, oc, x, prop) ==
  [k \in Classes |->
     IF oc[k] = 0 THEN 0
     ELSE (M \div oc[k]) * SumOver([n \in Neurons |-> x[n] * (IF prop THEN p[n][k] ELSE L)], {n \in Neurons : as[n] = k})]
\* classify = argmax of the logits; equal logits may be ordered either way by rounding
MInfer(st, x, prop) ==
  LET lg == LogitsOf(st.p, st.as, st.oc, x, prop)
  IN {Out(st, [t |-> "inf", logits |-> lg, pred |-> k]) : k \in {j \in Classes : lg[j] = MaxOf(lg, Classes)}}

MSetRates(st, r) == Ok(WithRates(st, r))
\* load_state_dict of a checkpoint holding the rates r into a target:
\*   "self"  this instance;  "fresh"  a newly constructed classifier;
\*   "copy"  a copy.deepcopy of this instance (a cloned template, pristine or trained)
\* rates_ is persisted; the post hook registered by the constructor recomputes the derived
\* buffers.  R.hook = "closure": the hook acts on the object that REGISTERED it, which for a
\* deep copy is the original - the copy keeps the buffers it was copied with.
MLoad(st, r, kind, R) ==
  LET base == IF kind = "fresh" THEN Fresh(R) ELSE st
      recompute == R.hook = "recompute" \/ (R.hook = "closure" /\ kind # "copy")
  IN IF recompute THEN Ok(WithRates(base, r)) ELSE Ok([base EXCEPT !.r = r])

MApplyR(st, o, R) ==
  CASE o.a = "update" -> MUpdate(st, o.inp, o.lab)
    [] o.a = "infer" -> MInfer(st, o.x, o.prop)
    [] o.a = "set_rates" -> MSetRates(st, o.r)
    [] o.a = "load" -> MLoad(st, o.r, o.kind, R)

Intended == [init |-> "derive", hook |-> "recompute"]
MApply(st, o) == MApplyR(st, o, Intended)

\* the derived buffers are what the rates say
DerivedOK(st) == LET d == Derive(st.r) IN st.p = d.p /\ st.as = d.as /\ st.oc = d.oc

\* Abs: inference from the rates alone
AbsInfer(r, x, prop) ==
  LET d == Derive(r) lg == LogitsOf(d.p, d.as, d.oc, x, prop)
  IN [logits |-> lg, preds |-> {j \in Classes : lg[j] = MaxOf(lg, Classes)}]

RefinesAtR(st, o, R) ==
  \A mo \in MApplyR(st, o, R) :
    /\ DerivedOK(mo.st)
    /\ o.a = "infer" => LET a == AbsInfer(st.r, o.x, o.prop) IN mo.ret.logits = a.logits /\ mo.ret.pred \in a.preds
    /\ o.a = "load" => mo.st.r = o.r
    /\ o.a = "update" => \A n \in Neurons : RowSum(mo.st.r, n) >= RowSum(st.r, n)
=============================================================================
