----------------------------- MODULE ClassifierMC -----------------------------
EXTENDS ClassifierCore, Json

CONSTANTS B,          \* samples per update batch
          InVals,     \* spike counts offered to update (even integers)
          XVals,      \* spike counts offered to inference
          MaxRow,     \* updates are offered while every row sum is <= MaxRow
          RInit, RHook

R == [init |-> RInit, hook |-> RHook]
VARIABLE st
vars == <<st>>

Samples == 1..B
RatesOffered == {[n \in Neurons |-> [k \in Classes |-> IF k = ((n - 1) % K) + 1 THEN 2 ELSE 0]],
                 [n \in Neurons |-> [k \in Classes |-> 1]]}

Ops(s) ==
  (IF \A n \in Neurons : RowSum(s.r, n) <= MaxRow
   THEN {[a |-> "update", inp |-> i, lab |-> l] : i \in [Samples -> [Neurons -> InVals]], l \in [Samples -> Classes]}
   ELSE {})
  \cup {[a |-> "infer", x |-> x, prop |-> p] : x \in [Neurons -> XVals], p \in BOOLEAN}
  \cup {[a |-> "set_rates", r |-> r] : r \in RatesOffered}
  \cup {[a |-> "load", r |-> r, kind |-> k] : r \in RatesOffered \cup {Zero}, k \in {"self", "fresh", "copy"}}

Init == st = Fresh(R)
Next == \E o \in Ops(st) : \E mo \in MApplyR(st, o, R) : st' = mo.st
Spec == Init /\ [][Next]_vars

TypeOK == \A n \in Neurons : RowSum(st.r, n) <= 8 /\ st.as[n] \in Classes
DerivedInv == DerivedOK(st)
Refinement == \A o \in Ops(st) : RefinesAtR(st, o, R)
OccSum == SumOver(st.oc, Classes) = N          \* every neuron is assigned to exactly one class

Emit == PrintT(ToJson([s |-> st, out |-> {[op |-> o, res |-> MApplyR(st, o, R)] : o \in Ops(st)}]))
=============================================================================
