----------------------------- MODULE ConfigCore -----------------------------
(***************************************************************************)
(* C14 - configuration-path independence.  A component can be brought to a *)
(* configuration by its constructor or by property assignment afterwards   *)
(* (dt, delay, batchsz, duration, synapse, inplace, dtype via .to).        *)
(*                                                                         *)
(* Abs  - the configuration vector itself: a setter changes exactly the    *)
(*        assigned attribute; Construct(kind, cfg) says which internal     *)
(*        histories a freshly built component has and how they are sized.  *)
(* Mech - what the code keeps: the mixins' private fields (what the        *)
(*        getters report) and, separately, every registered record with    *)
(*        its own step time / duration / inclusivity and the size derived  *)
(*        from them; one operator per setter, transcribed from             *)
(*          inferno/neural/mixins.py      BatchMixin.batchsz, DelayedMixin.dt / .delay *)
(*          inferno/neural/base.py        InfernoSynapse / Connection setters          *)
(*          inferno/observe/reducers/base.py   RecordReducer.dt / .duration            *)
(*          inferno/core/infrastructure.py     RecordTensor.dt / .duration (size rule) *)
(*        The three places where the shipped code deviated from the        *)
(*        intended design are selectable rules (constant record R), so the *)
(*        drift is visible to TLC at design level:                         *)
(*          R.delay   "delay"  | "delay+dt"   what DelayedMixin.delay hands the records *)
(*          R.dur     "duration" | "step_time" which field RecordReducer.duration writes *)
(*          R.syn     "synapse_" | "synapses"  which attribute Connection.synapse assigns *)
(*                                                                         *)
(* Times are integers in ticks.  kinds: neuron, synapse, connection,       *)
(* layer (a Serial: connection + neuron group, configured together),       *)
(* reducer.                                                                *)
(*                                                                         *)
(* Mech state m = [kind, step, delay, batch, inplace, dur, incl, syn,      *)
(*                 dtype, nstep, nbatch, recs, tens]                       *)
(*   step/delay/batch/inplace/dur/incl : private fields of the mixins      *)
(*   syn     class of the registered synapse (synapse_)                    *)
(*   nstep/nbatch : the neuron group of a layer / the neuron itself        *)
(*   recs    registered records  [rdt, rdur, rincl, n, b]                  *)
(*   tens    batch size of the neuron's batched state tensors              *)
(***************************************************************************)
EXTENDS Integers, Sequences, FiniteSets, TLC

Max(a, b) == IF a >= b THEN a ELSE b
CeilDiv(a, b) == (a + b - 1) \div b
\* RecordTensor.recordsz
RecSize(dt, dur, incl) == Max(CeilDiv(dur, dt) + (IF incl THEN 1 ELSE 0), 1)

Kinds == {"neuron", "synapse", "connection", "layer", "reducer"}
SynKinds == {"delta", "deltaplus", "single", "double"}
HasSynapse(k) == k \in {"synapse", "connection", "layer"}
HasNeuron(k) == k \in {"neuron", "layer"}
HasBatch(k) == k # "reducer"
HasInplace(k) == k # "neuron"

\* number of delay-dependent histories a synapse class registers
NRecOf(syn) == CASE syn = "delta" -> 1 [] syn = "deltaplus" -> 2 [] syn = "single" -> 2 [] syn = "double" -> 3

Out(st, r) == [st |-> st, ret |-> r]
Ok(st) == {Out(st, [t |-> "ok"])}

(***************************************************************************)
(* Abs: configuration vectors and construction                             *)
(*   cfg = [dt, delay, batchsz, inplace, dur, incl, syn, dtype]            *)
(* fields a kind does not have keep their defaults (delay 0, dur 0, ...).  *)
(***************************************************************************)
FreshRec(dt, dur, incl, b) == [rdt |-> dt, rdur |-> dur, rincl |-> incl, n |-> RecSize(dt, dur, incl), b |-> b]

Construct(kind, cfg) ==
  [kind |-> kind, step |-> cfg.dt, delay |-> cfg.delay, batch |-> cfg.batchsz, inplace |-> cfg.inplace,
   dur |-> cfg.dur, incl |-> cfg.incl, syn |-> cfg.syn, dtype |-> cfg.dtype,
   nstep |-> IF HasNeuron(kind) THEN cfg.dt ELSE 0, nbatch |-> IF HasNeuron(kind) THEN cfg.batchsz ELSE 0,
   recs |-> IF HasSynapse(kind)
            THEN [i \in 1..NRecOf(cfg.syn) |-> FreshRec(cfg.dt, cfg.delay, TRUE, cfg.batchsz)]
            ELSE IF kind = "reducer" THEN <<FreshRec(cfg.dt, cfg.dur, cfg.incl, 0)>>
            ELSE <<>>,
   tens |-> IF HasNeuron(kind) THEN cfg.batchsz ELSE 0]

\* what the public getters report
Report(m) ==
  [dt |-> m.step, delay |-> m.delay, batchsz |-> m.batch,
   inplace |-> m.inplace, dur |-> m.dur, incl |-> m.incl, syn |-> m.syn, dtype |-> m.dtype]

\* the neuron group of a layer reports its own step time and batch size
ReportN(m) == [dt |-> m.nstep, batchsz |-> m.nbatch]

\* sizes of the internal histories (RecordTensor.recordsz, batch dimension)
Sizes(m) == [i \in DOMAIN m.recs |-> [n |-> m.recs[i].n, b |-> m.recs[i].b]]

AbsSet(cfg, a, v) ==
  CASE a = "set_dt" -> [cfg EXCEPT !.dt = v]
    [] a = "set_delay" -> [cfg EXCEPT !.delay = v]
    [] a = "set_batchsz" -> [cfg EXCEPT !.batchsz = v]
    [] a = "set_inplace" -> [cfg EXCEPT !.inplace = v]
    [] a = "set_dur" -> [cfg EXCEPT !.dur = v]
    [] a = "set_syn" -> [cfg EXCEPT !.syn = v]
    [] a = "to" -> [cfg EXCEPT !.dtype = v]
    [] OTHER -> cfg

(***************************************************************************)
(* Mech: the setters                                                       *)
(***************************************************************************)
ReSize(r) == [r EXCEPT !.n = RecSize(r.rdt, r.rdur, r.rincl)]

\* DelayedMixin.dt / RecordReducer.dt:
\*   if value != step_time: for every registered record: record.dt = value; step_time = value
\* neurons: step_time = value
MSetDt(m, v) ==
  LET m1 == IF m.kind = "neuron" THEN [m EXCEPT !.step = v]
            ELSE IF v # m.step
            THEN [m EXCEPT !.recs = [i \in DOMAIN m.recs |-> ReSize([m.recs[i] EXCEPT !.rdt = v])], !.step = v]
            ELSE m
  IN IF HasNeuron(m.kind) THEN [m1 EXCEPT !.nstep = v] ELSE m1

\* DelayedMixin.delay:
\*   if value != delay: for every record: record.duration = <R.delay>; delay = value
MSetDelay(m, v, R) ==
  IF v # m.delay
  THEN LET d == IF R.delay = "delay+dt" THEN v + m.step ELSE v
       IN [m EXCEPT !.recs = [i \in DOMAIN m.recs |-> ReSize([m.recs[i] EXCEPT !.rdur = d])], !.delay = v]
  ELSE m

\* RecordReducer.duration:
\*   if value != duration: for every record: record.duration = value; <R.dur> = value
MSetDur(m, v, R) ==
  IF v # m.dur
  THEN LET m1 == [m EXCEPT !.recs = [i \in DOMAIN m.recs |-> ReSize([m.recs[i] EXCEPT !.rdur = v])]]
       IN IF R.dur = "step_time" THEN [m1 EXCEPT !.step = v] ELSE [m1 EXCEPT !.dur = v]
  ELSE m

\* BatchMixin.batchsz: if value != batch_size: every registered tensor reconstrain(0, value)
MSetBatch(m, v) ==
  LET m1 == IF m.kind = "neuron" THEN [m EXCEPT !.batch = v]
            ELSE IF v # m.batch
            THEN [m EXCEPT !.recs = [i \in DOMAIN m.recs |-> [m.recs[i] EXCEPT !.b = v]], !.batch = v]
            ELSE m
  IN IF HasNeuron(m.kind) THEN [m1 EXCEPT !.nbatch = v, !.tens = v] ELSE m1

MSetInplace(m, v) == [m EXCEPT !.inplace = v]

\* Connection.synapse = <a synapse of class v built with the connection's current configuration>
MSetSyn(m, v, R) ==
  IF R.syn = "synapses" THEN m        \* stored under another name: the registered synapse stays
  ELSE [m EXCEPT !.syn = v,
                 !.recs = [i \in 1..NRecOf(v) |-> FreshRec(m.step, m.delay, TRUE, m.batch)]]

MTo(m, v) == [m EXCEPT !.dtype = v]

\* the assigned value: integers (ticks, batch sizes) in field v, strings in s, flags in f
Val(o) == IF "v" \in DOMAIN o THEN o.v ELSE IF "s" \in DOMAIN o THEN o.s ELSE o.f

MSet(m, o, R) ==
  CASE o.a = "set_dt" -> MSetDt(m, o.v)
    [] o.a = "set_delay" -> MSetDelay(m, o.v, R)
    [] o.a = "set_dur" -> MSetDur(m, o.v, R)
    [] o.a = "set_batchsz" -> MSetBatch(m, o.v)
    [] o.a = "set_inplace" -> MSetInplace(m, o.f)
    [] o.a = "set_syn" -> MSetSyn(m, o.s, R)
    [] o.a = "to" -> MTo(m, o.s)

(***************************************************************************)
(* state st = [abs, m, path]; path = the assignments made so far           *)
(***************************************************************************)
\* the component behaves as the freshly constructed one of the reported configuration when
\* everything it keeps equals what the constructor would have set; otherwise the
\* specification does not say (either answer is possible)
Indistinct(m) == m = Construct(m.kind, Report(m))

MApplyR(st, o, R) ==
  IF o.a = "probe"
  THEN IF Indistinct(st.m) THEN {Out(st, [t |-> "same"])}
       ELSE {Out(st, [t |-> "same"]), Out(st, [t |-> "diff"])}
  ELSE Ok([abs |-> AbsSet(st.abs, o.a, Val(o)), m |-> MSet(st.m, o, R), path |-> Append(st.path, o)])

Intended == [delay |-> "delay", dur |-> "duration", syn |-> "synapse_"]
MApply(st, o) == MApplyR(st, o, Intended)

\* the observable projection: reported attributes and the sizes of the internal histories
Proj(st) == [kind |-> st.m.kind, cfg |-> Report(st.m), ncfg |-> ReportN(st.m), sizes |-> Sizes(st.m),
             tens |-> st.m.tens, path |-> st.path]

(***************************************************************************)
(* Properties of one state                                                 *)
(***************************************************************************)
\* the component reports the configuration it was brought to
ReportsBack(st) ==
  /\ Report(st.m) = st.abs
  /\ HasNeuron(st.m.kind) => ReportN(st.m) = [dt |-> st.abs.dt, batchsz |-> st.abs.batchsz]

\* histories sized as a freshly constructed component of that configuration
SizedAsFresh(st) ==
  LET f == Construct(st.m.kind, st.abs)
  IN Sizes(st.m) = Sizes(f) /\ st.m.tens = f.tens

\* everything kept equals what the constructor sets: from a cleared state the same behaviour
PathIndependent(st) == st.m = Construct(st.m.kind, st.abs)

\* one assignment changes the reported value of the assigned attribute only
AssignsOnly(st, o, R) ==
  o.a # "probe" =>
    \A mo \in MApplyR(st, o, R) :
       /\ Report(mo.st.m) = AbsSet(Report(st.m), o.a, Val(o))
       /\ HasNeuron(st.m.kind) =>
            ReportN(mo.st.m) = [dt |-> IF o.a = "set_dt" THEN Val(o) ELSE ReportN(st.m).dt,
                                batchsz |-> IF o.a = "set_batchsz" THEN Val(o) ELSE ReportN(st.m).batchsz]
=============================================================================
