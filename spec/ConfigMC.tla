------------------------------ MODULE ConfigMC ------------------------------
(***************************************************************************)
(* Exhaustive exploration of setter sequences (C14).  Initial states: one  *)
(* freshly constructed component per kind and initial configuration; from  *)
(* each, EVERY sequence of at most MaxLen assignments drawn from the value *)
(* grids (the path is part of the state, so sequences - not only the       *)
(* configurations they reach - are enumerated).                            *)
(***************************************************************************)
EXTENDS ConfigCore, Json

CONSTANTS
  KindsC,                 \* kinds explored
  DtSet, DelaySet, DurSet, BatchSet, SynSet, DTypeSet,     \* values offered to the setters
  Dt0, Delay0, Dur0, Batch0, InclSet, Syn0Set,             \* initial configurations
  MaxLen,                 \* assignments per sequence
  RDelay, RDur, RSyn      \* rules of the Mech layer (see ConfigCore)

R == [delay |-> RDelay, dur |-> RDur, syn |-> RSyn]

VARIABLE st
vars == <<st>>

InitCfgs(kind) ==
  {[dt |-> Dt0, delay |-> IF HasSynapse(kind) THEN Delay0 ELSE 0,
    batchsz |-> IF HasBatch(kind) THEN Batch0 ELSE 0, inplace |-> FALSE,
    dur |-> IF kind = "reducer" THEN Dur0 ELSE 0, incl |-> i, syn |-> s, dtype |-> "f32"] :
     i \in (IF kind = "reducer" THEN InclSet ELSE {FALSE}),
     s \in (IF HasSynapse(kind) THEN Syn0Set ELSE {"none"})}

Ops(s) ==
  LET k == s.m.kind IN
  {[a |-> "probe"]}
  \cup (IF Len(s.path) >= MaxLen THEN {} ELSE
        {[a |-> "set_dt", v |-> v] : v \in DtSet}
        \cup {[a |-> "to", s |-> v] : v \in DTypeSet}
        \cup (IF HasSynapse(k) THEN {[a |-> "set_delay", v |-> v] : v \in DelaySet} ELSE {})
        \cup (IF k = "reducer" THEN {[a |-> "set_dur", v |-> v] : v \in DurSet} ELSE {})
        \cup (IF HasBatch(k) THEN {[a |-> "set_batchsz", v |-> v] : v \in BatchSet} ELSE {})
        \cup (IF HasInplace(k) THEN {[a |-> "set_inplace", f |-> v] : v \in BOOLEAN} ELSE {})
        \cup (IF k \in {"connection", "layer"} THEN {[a |-> "set_syn", s |-> v] : v \in SynSet} ELSE {}))

Init == \E k \in KindsC : \E c \in InitCfgs(k) : st = [abs |-> c, m |-> Construct(k, c), path |-> <<>>]
Next == \E o \in Ops(st) : \E mo \in MApplyR(st, o, R) : st' = mo.st
Spec == Init /\ [][Next]_vars

TypeOK ==
  /\ st.m.kind \in KindsC
  /\ Len(st.path) <= MaxLen
  /\ \A i \in DOMAIN st.m.recs : st.m.recs[i].n >= 1

\* C14, clause by clause, at every state reached by any setter sequence
ReportsBackInv == ReportsBack(st)
SizedAsFreshInv == SizedAsFresh(st)
PathIndependentInv == PathIndependent(st)
AssignsOnlyInv == \A o \in Ops(st) : AssignsOnly(st, o, R)
ProbeSameInv == \A mo \in MApplyR(st, [a |-> "probe"], R) : mo.ret.t = "same"

(***************************************************************************)
(* Behaviour generation: outcome tables over the OBSERVABLE projection     *)
(* (reported attributes, history sizes, path).                             *)
(***************************************************************************)
Emit == PrintT(ToJson([s |-> Proj(st),
                       out |-> {[op |-> o, res |-> {[st |-> Proj(mo.st), ret |-> mo.ret] : mo \in MApplyR(st, o, R)}] :
                                  o \in Ops(st)}]))
=============================================================================
