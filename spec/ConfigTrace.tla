----------------------------- MODULE ConfigTrace -----------------------------
(***************************************************************************)
(* Trace specification for setter sequences recorded from real inferno     *)
(* components (C14, direction B).  A batch file holds many traces:         *)
(*   [ [hdr |-> [kind, init (configuration in ticks), waive],              *)
(*      ev  |-> << [op, ret, st], ... >>] ]                                *)
(* where st is the OBSERVABLE projection after the call (reported          *)
(* attributes, sizes of the internal histories, path).  Every event must   *)
(* be an outcome of MApply (intended rules) on the current state, and the  *)
(* state reached must satisfy the clauses of C14.  Lines in hdr.waive      *)
(* are skipped over (the specification's own successor is adopted).        *)
(***************************************************************************)
EXTENDS ConfigCore, Json, IOUtils, TLCExt

Traces == JsonDeserialize(IOEnv.TRACE_FILE)

VARIABLES tid, l, st
vars == <<tid, l, st>>

NT == Len(Traces)
Evs(t) == Traces[t].ev
MaxI(a, b) == IF a >= b THEN a ELSE b
Waived(t) == {Traces[t].hdr.waive[i] : i \in DOMAIN Traces[t].hdr.waive}

ASSUME \A i \in 1..NT : TLCSet(100 + i, 0)

\* Oracle input.  The record size formula max(ceil(duration / dt) + inclusive, 1) is evaluated by
\* the implementation in IEEE arithmetic; for step times such as 0.7 with a delay of 2.1 the float
\* quotient is a hair above the integer (3.0000000000000004) and the ceiling is one more than the
\* exact one.  hdr.nq and op.nq carry ceil(float(duration) / float(dt)) computed by the harness from
\* the very floats it handed to the constructor / the setters; the specification uses it in place
\* of its integer ceiling - for the re-configured component AND for the constructed reference.
WithQ(m, q) ==
  [m EXCEPT !.recs = [i \in DOMAIN m.recs |->
                         [m.recs[i] EXCEPT !.n = Max(q + (IF m.recs[i].rincl THEN 1 ELSE 0), 1)]]]
Core(s) == [abs |-> s.abs, m |-> s.m, path |-> s.path]
QOf(s, o) == IF "nq" \in DOMAIN o THEN o.nq ELSE s.nq
ApplyT(s, o) ==
  {[st |-> [abs |-> mo.st.abs, m |-> IF o.a = "probe" THEN mo.st.m ELSE WithQ(mo.st.m, QOf(s, o)),
            path |-> mo.st.path, nq |-> QOf(s, o)],
    ret |-> mo.ret] : mo \in MApply(Core(s), o)}

Init == /\ tid \in 1..NT
        /\ l = 1
        /\ st = [abs |-> Traces[tid].hdr.init,
                 m |-> WithQ(Construct(Traces[tid].hdr.kind, Traces[tid].hdr.init), Traces[tid].hdr.nq),
                 path |-> <<>>, nq |-> Traces[tid].hdr.nq]

\* reports the assigned configuration; everything kept equals what the constructor sets for it
Good(s) == ReportsBack(Core(s)) /\ s.m = WithQ(Construct(s.m.kind, s.abs), s.nq)
Matches(e) == {mo \in ApplyT(st, e.op) : mo.ret = e.ret /\ Proj(Core(mo.st)) = e.st /\ Good(mo.st)}

Step ==
  /\ l <= Len(Evs(tid))
  /\ LET e == Evs(tid)[l] IN
       IF l \in Waived(tid)
       THEN \E mo \in ApplyT(st, e.op) : st' = mo.st
       ELSE /\ AssignsOnly(Core(st), e.op, Intended)
            /\ \E mo \in Matches(e) : st' = mo.st
  /\ l' = l + 1
  /\ UNCHANGED tid

TraceSpec == Init /\ [][Step]_vars

Track ==
  /\ TLCSet(100 + tid, MaxI(TLCGet(100 + tid), l))
  /\ IF l <= Len(Evs(tid)) /\ ~(l \in Waived(tid)) /\ Matches(Evs(tid)[l]) = {}
     THEN PrintT(ToJson([diag |-> tid, l |-> l,
                         expected |-> {[st |-> Proj(Core(mo.st)), ret |-> mo.ret] : mo \in ApplyT(st, Evs(tid)[l].op)}]))
     ELSE TRUE

Post ==
  PrintT(ToJson([rejected |-> {<<i, TLCGet(100 + i)>> : i \in {j \in 1..NT : TLCGet(100 + j) <= Len(Evs(j))}},
                 total |-> NT]))
=============================================================================
