----------------------------- MODULE ConfigTrace -----------------------------
(***************************************************************************)
(* Trace specification for setter sequences recorded from real inferno     *)
(* components (C14, direction B).  A batch file holds many traces:         *)
(*   [ [hdr |-> [kind, init (configuration in ticks), waive],              *)
(*      ev  |-> << [op, ret, st], ... >>] ]                                *)
(* where st is the OBSERVABLE projection after the call (reported          *)
(* attributes, sizes of the internal histories, path).  Every event must   *)
(* be an outcome of MApply (intended rules) on the current state, and the  *)
(* state reached must satisfy the clauses of C14.  Lines in hdr.waive      *)
(* are skipped over (the specification's own successor is adopted).        *)
(***************************************************************************)
EXTENDS ConfigCore, Json, IOUtils, TLCExt

Traces == JsonDeserialize(IOEnv.TRACE_FILE)

VARIABLES tid, l, st
vars == <<tid, l, st>>

NT == Len(Traces)
Evs(t) == Traces[t].ev
MaxI(a, b) == IF a >= b THEN a ELSE b
Waived(t) == {Traces[t].hdr.waive[i] : i \in DOMAIN Traces[t].hdr.waive}

ASSUME \A i \in 1..NT : TLCSet(100 + i, 0)

Init == /\ tid \in 1..NT
        /\ l = 1
        /\ st = [abs |-> Traces[tid].hdr.init, m |-> Construct(Traces[tid].hdr.kind, Traces[tid].hdr.init),
                 path |-> <<>>]

Good(s) == ReportsBack(s) /\ SizedAsFresh(s) /\ PathIndependent(s)
Matches(e) == {mo \in MApply(st, e.op) : mo.ret = e.ret /\ Proj(mo.st) = e.st /\ Good(mo.st)}

Step ==
  /\ l <= Len(Evs(tid))
  /\ LET e == Evs(tid)[l] IN
       IF l \in Waived(tid)
       THEN \E mo \in MApply(st, e.op) : st' = mo.st
       ELSE /\ AssignsOnly(st, e.op, Intended)
            /\ \E mo \in Matches(e) : st' = mo.st
  /\ l' = l + 1
  /\ UNCHANGED tid

TraceSpec == Init /\ [][Step]_vars

Track ==
  /\ TLCSet(100 + tid, MaxI(TLCGet(100 + tid), l))
  /\ IF l <= Len(Evs(tid)) /\ ~(l \in Waived(tid)) /\ Matches(Evs(tid)[l]) = {}
     THEN PrintT(ToJson([diag |-> tid, l |-> l,
                         expected |-> {[st |-> Proj(mo.st), ret |-> mo.ret] : mo \in MApply(st, Evs(tid)[l].op)}]))
     ELSE TRUE

Post ==
  PrintT(ToJson([rejected |-> {<<i, TLCGet(100 + i)>> : i \in {j \in 1..NT : TLCGet(100 + j) <= Len(Evs(j))}},
                 total |-> NT]))
=============================================================================
