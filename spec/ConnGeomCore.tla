---------------------------- MODULE ConnGeomCore ----------------------------
(***************************************************************************)
(* Geometry of inferno's connections (C05): which input element reaches    *)
(* which output element through which weight, and every advertised shape.  *)
(*                                                                         *)
(* A geometry is a record                                                  *)
(*   [kind |-> "dense",   ins |-> shape, outs |-> shape]                   *)
(*   [kind |-> "direct",  ins |-> shape, outs |-> shape]   (ins = outs)    *)
(*   [kind |-> "lateral", ins |-> shape, outs |-> shape]   (ins = outs)    *)
(*   [kind |-> "conv", H, W, C, F, KH, KW, SH, SW, PH, PW, DH, DW]         *)
(* shapes are sequences of positive integers; indices are sequences of     *)
(* 0-based integers (multi-indices).  Tensors are identified with          *)
(* functions from multi-indices; "flat" is the row-major position.         *)
(*                                                                         *)
(* Abs (the property's vocabulary): the linear map                         *)
(*     out[o] = SUM { W[w] * cur[i] : <<o, i, w>> \in Contrib(g) } + b[BiasOf(o)] *)
(* Mech (what the code does): unfold to the synaptic layout (SynMap),      *)
(* matrix product with the kernel flattened "(c kh kw)", reshape "(oh ow)".*)
(* The two are related by ContribViaSyn = Contrib (checked by TLC).        *)
(***************************************************************************)
EXTENDS Integers, Sequences, FiniteSets

Max(a, b) == IF a >= b THEN a ELSE b

RECURSIVE Prod(_)
Prod(s) == IF s = <<>> THEN 1 ELSE Head(s) * Prod(Tail(s))

RECURSIVE AllIdx(_)
AllIdx(shape) ==
  IF shape = <<>> THEN {<<>>}
  ELSE {<<i>> \o r : i \in 0..(Head(shape) - 1), r \in AllIdx(Tail(shape))}

\* row-major position of a multi-index
RECURSIVE Flat(_, _)
Flat(idx, shape) ==
  IF idx = <<>> THEN 0 ELSE Head(idx) * Prod(Tail(shape)) + Flat(Tail(idx), Tail(shape))

IsConv(g) == g.kind = "conv"

(***************************************************************************)
(* One spatial dimension of a convolution: length N, kernel K, stride S,   *)
(* padding P (each side), dilation D.                                      *)
(***************************************************************************)
\* window position o fits when its last tap lies inside the padded line
FitsAt(o, N, K, S, P, D) == o * S + D * (K - 1) <= N + 2 * P - 1
Fits(N, K, S, P, D) == {o \in 0..(N + 2 * P) : FitsAt(o, N, K, S, P, D)}
\* the documented size formula  floor((N + 2P - D(K-1) - 1) / S + 1)   (\div floors)
OutLen(N, K, S, P, D) == ((N + 2 * P - D * (K - 1) - 1) \div S) + 1
\* input coordinate read by tap k of window o (may fall into the padding)
Tap(o, k, S, P, D) == o * S + k * D - P
Inside(x, N) == 0 <= x /\ x < N

OH(g) == OutLen(g.H, g.KH, g.SH, g.PH, g.DH)
OW(g) == OutLen(g.W, g.KW, g.SW, g.PW, g.DW)
NonEmpty(g) == FitsAt(0, g.H, g.KH, g.SH, g.PH, g.DH) /\ FitsAt(0, g.W, g.KW, g.SW, g.PW, g.DW)

(***************************************************************************)
(* Advertised shapes                                                       *)
(***************************************************************************)
InShape(g) == IF IsConv(g) THEN <<g.C, g.H, g.W>> ELSE g.ins
OutShape(g) == IF IsConv(g) THEN <<g.F, OH(g), OW(g)>> ELSE g.outs
WShape(g) ==
  CASE g.kind = "conv" -> <<g.F, g.C, g.KH, g.KW>>
    [] g.kind = "direct" -> <<Prod(g.ins)>>
    [] OTHER -> <<Prod(g.outs), Prod(g.ins)>>
BShape(g) == IF IsConv(g) THEN <<g.F>> ELSE <<Prod(g.outs)>>
\* shape of the synapse (and of like_synaptic's result, without the batch dimension)
SynShape(g) == IF IsConv(g) THEN <<g.C * g.KH * g.KW, OH(g) * OW(g)>> ELSE <<Prod(g.ins)>>

(***************************************************************************)
(* Abs: the linear map as a relation  Out x In x WeightIdx                 *)
(***************************************************************************)
Contrib(g) ==
  CASE g.kind = "dense" ->
         {<<o, i, <<Flat(o, g.outs), Flat(i, g.ins)>>>> : o \in AllIdx(g.outs), i \in AllIdx(g.ins)}
    [] g.kind = "lateral" ->
         {t \in {<<o, i, <<Flat(o, g.outs), Flat(i, g.ins)>>>> : o \in AllIdx(g.outs), i \in AllIdx(g.ins)} :
             t[1] # t[2]}                                       \* all-to-all-but-self
    [] g.kind = "direct" ->
         {<<i, i, <<Flat(i, g.ins)>>>> : i \in AllIdx(g.ins)}
    [] g.kind = "conv" ->
         {t \in {<<<<f, oh, ow>>, <<c, Tap(oh, kh, g.SH, g.PH, g.DH), Tap(ow, kw, g.SW, g.PW, g.DW)>>, <<f, c, kh, kw>>>> :
                    f \in 0..(g.F - 1), oh \in 0..(OH(g) - 1), ow \in 0..(OW(g) - 1), c \in 0..(g.C - 1),
                    kh \in 0..(g.KH - 1), kw \in 0..(g.KW - 1)} :
             Inside(t[2][2], g.H) /\ Inside(t[2][3], g.W)}       \* taps in the padding contribute zero
BiasOf(g) == IF IsConv(g) THEN {<<o, <<o[1]>>>> : o \in AllIdx(OutShape(g))}
             ELSE {<<o, <<Flat(o, g.outs)>>>> : o \in AllIdx(g.outs)}

(***************************************************************************)
(* Mech: the synaptic layout.  SynMap(g) is the set of <<n, l, src>>:      *)
(* element <<n, l>> of like_synaptic(x) (just <<n>> for the linear kinds)  *)
(* holds x[src], or zero when src = <<>> (padding).                        *)
(***************************************************************************)
SynMap(g) ==
  IF IsConv(g)
  THEN {<<Flat(<<c, kh, kw>>, <<g.C, g.KH, g.KW>>), Flat(<<oh, ow>>, <<OH(g), OW(g)>>),
          IF Inside(Tap(oh, kh, g.SH, g.PH, g.DH), g.H) /\ Inside(Tap(ow, kw, g.SW, g.PW, g.DW), g.W)
          THEN <<c, Tap(oh, kh, g.SH, g.PH, g.DH), Tap(ow, kw, g.SW, g.PW, g.DW)>> ELSE <<>>>> :
          c \in 0..(g.C - 1), kh \in 0..(g.KH - 1), kw \in 0..(g.KW - 1),
          oh \in 0..(OH(g) - 1), ow \in 0..(OW(g) - 1)}
  ELSE {<<Flat(i, g.ins), 0, i>> : i \in AllIdx(g.ins)}
Covered(g) == {t[3] : t \in {u \in SynMap(g) : u[3] # <<>>}}

\* the mechanism's map: kernel "f c h w -> f (c h w)" times the unfolded input, the result
\* un-flattened "(oh ow)"; positions are un-flattened here by division and remainder,
\* independently of Flat
ContribViaSyn(g) ==
  IF IsConv(g)
  THEN {<<<<f, u[2] \div OW(g), u[2] % OW(g)>>, u[3],
          <<f, u[1] \div (g.KH * g.KW), (u[1] \div g.KW) % g.KH, u[1] % g.KW>>>> :
          f \in 0..(g.F - 1), u \in {v \in SynMap(g) : v[3] # <<>>}}
  ELSE Contrib(g)

(***************************************************************************)
(* Receptive views (per sample; the batch dimension is carried along).     *)
(* PreShape(g, wo): shape of presyn_receptive(data) for data shaped like   *)
(* the synapse state, wo = TRUE when data has a trailing output dimension. *)
(* PreMap: set of <<position in the result, position in data>> (row-major).*)
(***************************************************************************)
NOut(g) == IF IsConv(g) THEN g.F ELSE Prod(g.outs)
PreDataShape(g, wo) ==
  CASE g.kind = "direct" -> IF wo THEN SynShape(g) \o <<1>> ELSE SynShape(g)
    [] OTHER -> IF wo THEN SynShape(g) \o <<NOut(g)>> ELSE SynShape(g)
PreShape(g, wo) ==
  CASE g.kind = "conv" -> <<IF wo THEN g.F ELSE 1, g.C, g.KH, g.KW, OH(g) * OW(g)>>
    [] g.kind = "direct" -> <<Prod(g.ins), 1>>
    [] OTHER -> <<IF wo THEN Prod(g.outs) ELSE 1, Prod(g.ins), 1>>
PreMap(g, wo) ==
  LET ds == PreDataShape(g, wo)
      rs == PreShape(g, wo)
  IN CASE g.kind = "conv" ->
            {<<Flat(<<IF wo THEN d[3] ELSE 0, d[1] \div (g.KH * g.KW), (d[1] \div g.KW) % g.KH, d[1] % g.KW, d[2]>>, rs),
               Flat(d, ds)>> : d \in AllIdx(ds)}
       [] g.kind = "direct" -> {<<Flat(<<d[1], 0>>, rs), Flat(d, ds)>> : d \in AllIdx(ds)}
       [] OTHER -> {<<Flat(<<IF wo THEN d[2] ELSE 0, d[1], 0>>, rs), Flat(d, ds)>> : d \in AllIdx(ds)}

\* postsyn_receptive(data) for data shaped like the output
PostShape(g) ==
  CASE g.kind = "conv" -> <<g.F, 1, 1, 1, OH(g) * OW(g)>>
    [] g.kind = "direct" -> <<Prod(g.outs), 1>>
    [] OTHER -> <<Prod(g.outs), 1, 1>>
PostMap(g) ==
  LET os == OutShape(g)
      rs == PostShape(g)
  IN IF IsConv(g)
     THEN {<<Flat(<<o[1], 0, 0, 0, Flat(<<o[2], o[3]>>, <<OH(g), OW(g)>>)>>, rs), Flat(o, os)>> : o \in AllIdx(os)}
     ELSE {<<Flat(<<Flat(o, os)>> \o [j \in 1..(Len(rs) - 1) |-> 0], rs), Flat(o, os)>> : o \in AllIdx(os)}

\* like_bias(data): data shaped like the postsynaptic receptive view REDUCED over its receptive (last) dimension is
\* brought to the shape of the bias, element k of the flattened data going to element k of the bias
BiasDataShape(g) ==
  LET rs == PostShape(g) IN [j \in 1..(Len(rs) - 1) |-> rs[j]]

\* "broadcast against the weight": without the trailing receptive dimension the view has the
\* weight's rank and every dimension is the weight's or 1
Front(s) == SubSeq(s, 1, Len(s) - 1)
Broadcasts(vs, ws) == Len(vs) = Len(ws) /\ \A j \in 1..Len(ws) : vs[j] = ws[j] \/ vs[j] = 1
=============================================================================
