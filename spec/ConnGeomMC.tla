----------------------------- MODULE ConnGeomMC -----------------------------
(***************************************************************************)
(* Enumeration of connection geometries.  Every geometry of the configured *)
(* family is an initial state; for a convolution the behaviour then slides *)
(* the window over the padded image one position per transition (right     *)
(* while it fits, else down), so that "number of positions that fit" is    *)
(* counted by the state machine itself and compared with the documented    *)
(* size formula.  Emit prints, per (selected) geometry, the complete       *)
(* relation Contrib and every advertised shape / reshaping map; the        *)
(* harness builds the real connection for each printed geometry and        *)
(* evaluates its oracle FROM these relations.                              *)
(***************************************************************************)
EXTENDS ConnGeomCore, TLC, Json

CONSTANTS
  Kinds,                     \* subset of {"dense", "direct", "lateral", "conv"}
  LinLevel,                  \* which family of linear shapes (1: small, 2: larger)
  HSet, WSet, CSet, FSet,    \* convolution: image height/width, channels, filters
  KSet, SSet, PSet, DSet,    \* kernel, stride, padding, dilation values
  Asym,                      \* TRUE: kernel/stride/padding/dilation independent per dimension
  EmitMod, EmitRem           \* convolution geometries printed: Sel(g) % EmitMod = EmitRem

VARIABLE st
vars == <<st>>

Shapes1 == {<<1>>, <<2>>, <<3>>, <<2, 2>>, <<2, 3>>}
Shapes2 == Shapes1 \cup {<<4>>, <<5>>, <<3, 2>>, <<1, 2, 2>>, <<2, 1, 3>>, <<2, 2, 2>>, <<1, 1>>}
LinShapes == IF LinLevel = 1 THEN Shapes1 ELSE Shapes2

LinGeoms ==
  (IF "dense" \in Kinds THEN {[kind |-> "dense", ins |-> i, outs |-> o] : i \in LinShapes, o \in LinShapes} ELSE {})
  \cup (IF "direct" \in Kinds THEN {[kind |-> "direct", ins |-> i, outs |-> i] : i \in LinShapes} ELSE {})
  \cup (IF "lateral" \in Kinds THEN {[kind |-> "lateral", ins |-> i, outs |-> i] : i \in LinShapes} ELSE {})

ConvAll ==
  IF Asym
  THEN [kind : {"conv"}, H : HSet, W : WSet, C : CSet, F : FSet, KH : KSet, KW : KSet, SH : SSet, SW : SSet,
        PH : PSet, PW : PSet, DH : DSet, DW : DSet]
  ELSE {[kind |-> "conv", H |-> h, W |-> w, C |-> c, F |-> f, KH |-> k, KW |-> k, SH |-> s, SW |-> s,
         PH |-> p, PW |-> p, DH |-> d, DW |-> d] :
          h \in HSet, w \in WSet, c \in CSet, f \in FSet, k \in KSet, s \in SSet, p \in PSet, d \in DSet}
ConvGeoms == IF "conv" \in Kinds THEN {g \in ConvAll : NonEmpty(g)} ELSE {}

Init == \E g \in LinGeoms \cup ConvGeoms : st = [g |-> g, oh |-> 0, ow |-> 0]

CanRight == IsConv(st.g) /\ FitsAt(st.ow + 1, st.g.W, st.g.KW, st.g.SW, st.g.PW, st.g.DW)
CanDown == IsConv(st.g) /\ FitsAt(st.oh + 1, st.g.H, st.g.KH, st.g.SH, st.g.PH, st.g.DH)
Next == \/ CanRight /\ st' = [st EXCEPT !.ow = @ + 1]
        \/ ~CanRight /\ CanDown /\ st' = [st EXCEPT !.oh = @ + 1, !.ow = 0]
Spec == Init /\ [][Next]_vars

G == st.g
AtStart == st.oh = 0 /\ st.ow = 0

(***************************************************************************)
(* Invariants                                                              *)
(***************************************************************************)
\* the sliding window never leaves the grid given by the documented formula ...
SlideInGrid == IsConv(G) => st.oh < OH(G) /\ st.ow < OW(G)
\* ... and stops exactly at its last cell: number of fitting positions = formula
SlideEnd == (IsConv(G) /\ ~CanRight /\ ~CanDown) => (st.oh = OH(G) - 1 /\ st.ow = OW(G) - 1)
SizeFormula == (IsConv(G) /\ AtStart) =>
   /\ Fits(G.H, G.KH, G.SH, G.PH, G.DH) = 0..(OH(G) - 1)
   /\ Fits(G.W, G.KW, G.SW, G.PW, G.DW) = 0..(OW(G) - 1)
\* every tap of the current window lies inside the padded image
WindowInPadded == IsConv(G) =>
   \A kh \in 0..(G.KH - 1), kw \in 0..(G.KW - 1) :
      /\ Tap(st.oh, kh, G.SH, G.PH, G.DH) \in (-G.PH)..(G.H + G.PH - 1)
      /\ Tap(st.ow, kw, G.SW, G.PW, G.DW) \in (-G.PW)..(G.W + G.PW - 1)

TypeOK == AtStart =>
   /\ \A t \in Contrib(G) : t[1] \in AllIdx(OutShape(G)) /\ t[2] \in AllIdx(InShape(G)) /\ t[3] \in AllIdx(WShape(G))
   /\ \A t \in BiasOf(G) : t[2] \in AllIdx(BShape(G))
   /\ {t[1] : t \in BiasOf(G)} = AllIdx(OutShape(G))
   /\ {<<t[1]>> \o (IF IsConv(G) THEN <<t[2]>> ELSE <<>>) : t \in SynMap(G)} = AllIdx(SynShape(G))
   /\ Covered(G) \subseteq AllIdx(InShape(G))

\* the mechanism (unfold, flattened kernel, matrix product, unflatten) computes the relation
MechIsAbs == AtStart => ContribViaSyn(G) = Contrib(G)

\* no double counting: an output element meets a weight through at most one input element,
\* and an input element through at most one weight
Functional == AtStart =>
   /\ Cardinality({<<t[1], t[3]>> : t \in Contrib(G)}) = Cardinality(Contrib(G))
   /\ Cardinality({<<t[1], t[2]>> : t \in Contrib(G)}) = Cardinality(Contrib(G))

\* the round trip like_input(like_synaptic(x)) is defined exactly on the covered positions;
\* the linear kinds cover everything, and so does a convolution with unit stride and dilation
Coverage == AtStart =>
   /\ (~IsConv(G) => Covered(G) = AllIdx(InShape(G)))
   /\ ((IsConv(G) /\ G.SH = 1 /\ G.SW = 1 /\ G.DH = 1 /\ G.DW = 1) => Covered(G) = AllIdx(InShape(G)))

\* the receptive views are rearrangements (bijections) whose middle dimensions broadcast
\* against the weight
Receptive == AtStart =>
   /\ \A wo \in BOOLEAN :
        /\ Broadcasts(Front(PreShape(G, wo)), WShape(G))
        /\ Cardinality(PreMap(G, wo)) = Prod(PreShape(G, wo))
        /\ {p[1] : p \in PreMap(G, wo)} = 0..(Prod(PreShape(G, wo)) - 1)
        /\ {p[2] : p \in PreMap(G, wo)} = 0..(Prod(PreDataShape(G, wo)) - 1)
   /\ Broadcasts(Front(PostShape(G)), WShape(G))
   /\ {p[1] : p \in PostMap(G)} = 0..(Prod(PostShape(G)) - 1)
   /\ {p[2] : p \in PostMap(G)} = 0..(Prod(OutShape(G)) - 1)
   /\ Cardinality(PostMap(G)) = Prod(OutShape(G))

(***************************************************************************)
(* Emission                                                                *)
(***************************************************************************)
Sel(g) ==
  IF IsConv(g)
  THEN (g.H * 7 + g.W * 13 + g.C * 3 + g.F * 5 + g.KH * 11 + g.KW * 29 + g.SH * 17 + g.SW * 31 + g.PH * 19
        + g.PW * 37 + g.DH * 23 + g.DW * 41) % EmitMod = EmitRem
  ELSE TRUE

Emit ==
  (AtStart /\ Sel(G)) =>
     PrintT(ToJson([geom |-> G, inshape |-> InShape(G), outshape |-> OutShape(G), wshape |-> WShape(G),
                    bshape |-> BShape(G), synshape |-> SynShape(G),
                    contrib |-> {t[1] \o t[2] \o t[3] : t \in Contrib(G)},
                    bias |-> {t[1] \o t[2] : t \in BiasOf(G)},
                    syn |-> {<<t[1], t[2], IF t[3] = <<>> THEN -1 ELSE Flat(t[3], InShape(G))>> : t \in SynMap(G)},
                    pre0data |-> PreDataShape(G, FALSE), pre0shape |-> PreShape(G, FALSE), pre0 |-> PreMap(G, FALSE),
                    pre1data |-> PreDataShape(G, TRUE), pre1shape |-> PreShape(G, TRUE), pre1 |-> PreMap(G, TRUE),
                    postshape |-> PostShape(G), post |-> PostMap(G), biasdata |-> BiasDataShape(G)]))
=============================================================================
