-------------------------- MODULE ConstraintsCore --------------------------
(***************************************************************************)
(* Functional core of the ShapedTensor constraint bookkeeping               *)
(* (inferno/core/infrastructure.py: _constraint_dimensionality,             *)
(* _constraints_compatible, _constraints_consistent, ShapedTensor.value,    *)
(* .valid, .compatible, .dimensionality, .reconstrain, .strict, .live).     *)
(* Part of property C13: "a tensor reported valid satisfies every           *)
(* constraint, adding an incompatible constraint is refused without side    *)
(* effects, removing a constraint never alters data", an edit keeps the     *)
(* tail / zero-prepends along the edited dimension.                         *)
(*                                                                          *)
(*   Mech - the code's three predicates and the branch structure of         *)
(*          reconstrain / the value setter, transcribed.                    *)
(*   Abs  - the meaning: a constraint set is satisfied by a shape iff every *)
(*          constrained dim exists (python index range) and has that size   *)
(*          and, when strict, distinct keys name distinct tensor dims;      *)
(*          resizing along a dimension = same elements at the same distance *)
(*          from the END, zeros beyond the old extent.                      *)
(*                                                                          *)
(* State  st = [kind, shape, data, cons, strict, live, valid, ndim]         *)
(*   kind   "ign" (value None / UninitializedBuffer / UninitializedParameter*)
(*          / 1-d without elements: exempt from constraints) | "ready"      *)
(*   shape  sequence of dimension sizes (<< >> for a 0-d tensor and "ign")  *)
(*   data   the elements flattened row-major; every element is a provenance *)
(*          token: 1 + sum idx[k] * 8^(k-1) of the multi-index it had in    *)
(*          the tensor that was assigned, 0 for fill                        *)
(*   cons   sequence of length 2W: position d + W + 1 holds the size        *)
(*          constrained on dim d in -W..W-1, or -1 (unconstrained)          *)
(*   valid, ndim   DERIVED observables (ShapedTensor.valid, .dimensionality)*)
(*          kept in the state so that every replayed edge / trace event     *)
(*          compares them with the implementation                           *)
(***************************************************************************)
EXTENDS Integers, Sequences, FiniteSets, TLC

MaxI(a, b) == IF a >= b THEN a ELSE b
MinI(a, b) == IF a <= b THEN a ELSE b
AbsI(x) == IF x < 0 THEN -x ELSE x
SetMax(S) == CHOOSE x \in S : \A y \in S : y <= x
SetMin(S) == CHOOSE x \in S : \A y \in S : x <= y

Out(st, r) == [st |-> st, ret |-> r]
Err(st, e) == {Out(st, [t |-> "err", e |-> e])}
Ok(st) == {Out(st, [t |-> "ok"])}
Bool(st, b) == {Out(st, [t |-> "bool", b |-> b])}

(***************************************************************************)
(* Constraint dictionaries                                                 *)
(***************************************************************************)
WOf(c) == Len(c) \div 2
DimRange(c) == (-WOf(c))..(WOf(c) - 1)
SizeAt(c, d) == c[d + WOf(c) + 1]
DimsOf(c) == {d \in DimRange(c) : SizeAt(c, d) # -1}
WithCon(c, d, s) == [c EXCEPT ![d + WOf(c) + 1] = s]       \* constraints | {d: s};  s = -1: del
NoCons(w) == [i \in 1..(2 * w) |-> -1]

(***************************************************************************)
(* Tensors: [shape, data] with data flattened row-major                    *)
(***************************************************************************)
RECURSIVE Prod(_)
Prod(s) == IF s = << >> THEN 1 ELSE s[1] * Prod(Tail(s))
Stride(shape, k) == Prod(SubSeq(shape, k + 1, Len(shape)))
\* multi-index (0-based components) of flat position p (0-based)
IdxOf(shape, p) == [k \in 1..Len(shape) |-> (p \div Stride(shape, k)) % shape[k]]
RECURSIVE PosFrom(_, _, _)
PosFrom(shape, idx, k) == IF k > Len(shape) THEN 0 ELSE idx[k] * Stride(shape, k) + PosFrom(shape, idx, k + 1)
PosOf(shape, idx) == PosFrom(shape, idx, 1)
RECURSIVE TokFrom(_, _)
TokFrom(idx, k) == IF k > Len(idx) THEN 0 ELSE idx[k] + 8 * TokFrom(idx, k + 1)
Tok(idx) == 1 + TokFrom(idx, 1)
Tab(n, F(_)) == IF n = 0 THEN << >> ELSE [p \in 1..n |-> F(p)]
Tensor(shape, data) == [shape |-> shape, data |-> data]
Fresh(shape) == LET f(p) == Tok(IdxOf(shape, p - 1)) IN Tensor(shape, Tab(Prod(shape), f))
ZerosT(shape) == LET f(p) == 0 IN Tensor(shape, Tab(Prod(shape), f))
At(t, idx) == t.data[PosOf(t.shape, idx) + 1]

\* tensor[..., lo:, ...] along (1-based) dimension k
SliceFrom(t, k, lo) ==
  LET sh == [t.shape EXCEPT ![k] = @ - lo]
      f(p) == LET i == IdxOf(sh, p - 1) IN At(t, [i EXCEPT ![k] = @ + lo])
  IN Tensor(sh, Tab(Prod(sh), f))
\* torch.cat((a, b), k)
Cat(a, b, k) ==
  LET sh == [a.shape EXCEPT ![k] = @ + b.shape[k]]
      f(p) == LET i == IdxOf(sh, p - 1) IN
              IF i[k] < a.shape[k] THEN At(a, i) ELSE At(b, [i EXCEPT ![k] = @ - a.shape[k]])
  IN Tensor(sh, Tab(Prod(sh), f))

\* python indexing shape[d] -> 1-based position (only meaningful when -r <= d < r)
PyIdx(d, r) == IF d < 0 THEN d + r + 1 ELSE d + 1
InRange(d, r) == -r <= d /\ d < r

(***************************************************************************)
(* Mech: the three predicates                                              *)
(***************************************************************************)
\* _constraint_dimensionality
MDimK(K, strict) ==
  IF K = {} THEN 0
  ELSE IF strict THEN MaxI(SetMax(K) + 1, 0) - MinI(SetMin(K), 0)
  ELSE MaxI(SetMax(K) + 1, AbsI(SetMin(K)))
MDimensionality(c, strict) == MDimK(DimsOf(c), strict)

\* _constraints_compatible: rank test, then shape[d] == s with python indexing.
\* "IndexError" would be the outcome of an index outside the shape (never produced when
\* the rank test passes - invariant IndexSafe of ConstraintsMC)
MCompatibleX(shape, c, strict) ==
  LET K == DimsOf(c) IN
  IF Len(shape) < MDimK(K, strict) THEN "F"
  ELSE IF \E d \in K : ~InRange(d, Len(shape)) THEN "IndexError"
  ELSE IF \A d \in K : shape[PyIdx(d, Len(shape))] = SizeAt(c, d) THEN "T" ELSE "F"
MCompatible(shape, c, strict) == MCompatibleX(shape, c, strict) = "T"

\* _constraints_consistent: the hypoth list loop (-1 = None); keys visited in ascending
\* order (the result does not depend on the order: at most two keys share a position)
RECURSIVE HypLoop(_, _, _)
HypLoop(c, todo, hyp) ==
  IF todo = {} THEN TRUE
  ELSE LET d == SetMin(todo)
           p == PyIdx(d, Len(hyp))
           s == SizeAt(c, d)
       IN IF hyp[p] = -1 THEN HypLoop(c, todo \ {d}, [hyp EXCEPT ![p] = s])
          ELSE IF hyp[p] = s THEN HypLoop(c, todo \ {d}, hyp)
          ELSE FALSE
MConsistent(c, n) == HypLoop(c, DimsOf(c), [i \in 1..n |-> -1])

\* ShapedTensor._ignore on a (non-None, initialised) tensor: no elements and at most 1-d
IgnoredShape(shape) == Len(shape) = 1 /\ shape[1] = 0

MValid(s) == s.kind = "ign" \/ MCompatible(s.shape, s.cons, s.strict)
Derive(s) == [s EXCEPT !.valid = MValid(s), !.ndim = MDimensionality(s.cons, s.strict)]

\* storing a tensor: a 1-d tensor without elements is an ignored value
WithTensor(s, t) ==
  IF IgnoredShape(t.shape) THEN [s EXCEPT !.kind = "ign", !.shape = << >>, !.data = << >>]
  ELSE [s EXCEPT !.kind = "ready", !.shape = t.shape, !.data = t.data]
TensorOf(s) == Tensor(s.shape, s.data)

\* ShapedTensor.__make_compatible(tensor, dim, size)
MMakeCompatible(t, dim, size) ==
  LET k == PyIdx(dim, Len(t.shape))
      a == t.shape[k]
  IN IF a > size THEN SliceFrom(t, k, a - size)
     ELSE IF a < size THEN Cat(ZerosT([t.shape EXCEPT ![k] = size - a]), t, k)
     ELSE t

(***************************************************************************)
(* Mech: operations                                                        *)
(***************************************************************************)
\* ShapedTensor.reconstrain(dim, size);  size = -1 encodes None
MRecon(s, dim, size) ==
  LET c == s.cons
      has == dim \in DimsOf(c)
      ign == s.kind = "ign"
      c2 == WithCon(c, dim, size)
      s2 == [s EXCEPT !.cons = c2]
  IN
  IF ~has /\ size = -1 THEN Err(s, "ValueError")                 \* remove of an unconstrained dim
  ELSE IF ~has THEN                                                \* add
    IF ign THEN Ok(s2)
    ELSE IF MCompatible(s.shape, c, s.strict)
         THEN IF MCompatible(s.shape, c2, s.strict) THEN Ok(s2) ELSE Err(s, "ValueError")
         ELSE Err(s, "RuntimeError")
  ELSE IF size = -1 THEN                                           \* remove (deleted, then tested)
    IF ign \/ MCompatible(s.shape, c2, s.strict) THEN Ok(s2) ELSE Err(s2, "RuntimeError")
  ELSE                                                             \* edit
    IF ign THEN Ok(s2)
    ELSE IF Len(s.shape) >= MDimensionality(c, s.strict) /\ MConsistent(c2, Len(s.shape))
         THEN IF ~MCompatible(s.shape, c2, s.strict)
              THEN Ok(WithTensor(s2, MMakeCompatible(TensorOf(s), dim, size)))
              ELSE Ok(s2)
         ELSE Err(s, "RuntimeError")

\* value setter with a freshly made tensor of the given shape
MAssign(s, shape) ==
  IF s.live /\ ~(IgnoredShape(shape) \/ MCompatible(shape, s.cons, s.strict))
  THEN Err(s, "ValueError")
  ELSE Ok(WithTensor(s, Fresh(shape)))
\* value setter with an ignored value (None, empty 1-d, uninitialised): always accepted
MAssignIgn(s) == Ok([s EXCEPT !.kind = "ign", !.shape = << >>, !.data = << >>])

MApply0(s, o) ==
  CASE o.a = "recon"      -> MRecon(s, o.dim, o.size)
    [] o.a = "assign"     -> MAssign(s, o.shape)
    [] o.a = "assign_ign" -> MAssignIgn(s)
    [] o.a = "compatible" -> Bool(s, MCompatible(o.shape, s.cons, s.strict))
    [] o.a = "set_strict" -> Ok([s EXCEPT !.strict = o.b])
    [] o.a = "set_live"   -> Ok([s EXCEPT !.live = o.b])
MApply(s, o) == {Out(Derive(x.st), x.ret) : x \in MApply0(s, o)}

(***************************************************************************)
(* Abs: the meaning of the bookkeeping                                     *)
(***************************************************************************)
Satisfies(shape, c, strict) ==
  LET r == Len(shape) IN
  /\ \A d \in DimsOf(c) : InRange(d, r) /\ shape[PyIdx(d, r)] = SizeAt(c, d)
  /\ strict => \A d1, d2 \in DimsOf(c) : d1 # d2 => PyIdx(d1, r) # PyIdx(d2, r)
AbsSatisfied(s) == s.kind = "ign" \/ Satisfies(s.shape, s.cons, s.strict)

\* resize dimension k (1-based) to size b: the element at distance j from the END along k
\* is the old element at distance j from the end, or zero when the old extent is shorter
AbsResize(t, k, b) ==
  LET a == t.shape[k]
      sh == [t.shape EXCEPT ![k] = b]
      f(p) == LET i == IdxOf(sh, p - 1)
                  j == (b - 1) - i[k]
              IN IF j < a THEN At(t, [i EXCEPT ![k] = (a - 1) - j]) ELSE 0
  IN Tensor(sh, Tab(Prod(sh), f))

SameData(s1, s2) == s1.kind = s2.kind /\ s1.shape = s2.shape /\ s1.data = s2.data
IsAdd(s, o) == o.a = "recon" /\ o.size # -1 /\ ~(o.dim \in DimsOf(s.cons))
IsEdit(s, o) == o.a = "recon" /\ o.size # -1 /\ o.dim \in DimsOf(s.cons)
IsRemove(s, o) == o.a = "recon" /\ o.size = -1
Accepted(x) == x.ret.t = "ok"

\* "a tensor reported valid satisfies every constraint"
ValidImpliesSatisfiedAt(s) == MValid(s) => AbsSatisfied(s)
\* (informative, not demanded by the property) the converse
SatisfiedImpliesValidAt(s) == AbsSatisfied(s) => MValid(s)

\* The clauses below speak about ONE outcome x of operation o applied in state s.

\* "adding an incompatible constraint is refused without side effects"
AddRefusedX(s, o, x) ==
  IsAdd(s, o) =>
      /\ ~Accepted(x) => x.st = s                                             \* no side effects
      /\ (s.kind = "ready" /\ ~Satisfies(s.shape, WithCon(s.cons, o.dim, o.size), s.strict))
            => ~Accepted(x)                                                   \* incompatible: refused
      /\ Accepted(x) => SameData(x.st, s)                                     \* adding never resizes

\* "removing a constraint never alters data" (on every outcome, also the error path)
RemoveKeepsDataX(s, o, x) == IsRemove(s, o) => SameData(x.st, s)

\* an accepted edit leaves the new constrained size, keeps the tail / zero-prepends along
\* the edited dimension and touches nothing else; a refused edit has no side effects
EditX(s, o, x) ==
  IsEdit(s, o) =>
      IF ~Accepted(x) THEN x.st = s
      ELSE /\ x.st.cons = WithCon(s.cons, o.dim, o.size)
           /\ IF s.kind = "ign" THEN SameData(x.st, s)
              ELSE /\ InRange(o.dim, Len(s.shape))
                   /\ SameData(x.st, WithTensor(s, AbsResize(TensorOf(s), PyIdx(o.dim, Len(s.shape)), o.size)))

\* after an accepted add / edit on data that is not ignored, "valid" means exactly
\* "satisfies every constraint"
PostAcceptX(s, o, x) ==
  ((IsAdd(s, o) \/ IsEdit(s, o)) /\ Accepted(x) /\ x.st.kind = "ready")
     => (MValid(x.st) <=> AbsSatisfied(x.st))

\* live assignment: a refusal has no side effects, whatever is accepted is valid (hence
\* satisfies every constraint); without live everything is stored
AssignX(s, o, x) ==
  o.a = "assign" =>
      IF Accepted(x) THEN /\ SameData(x.st, WithTensor(s, Fresh(o.shape)))
                          /\ x.st.cons = s.cons
                          /\ s.live => x.st.valid
      ELSE x.st = s /\ s.live

\* python never indexes outside the shape in the predicates
IndexSafeAt(s, shape) == MCompatibleX(shape, s.cons, s.strict) # "IndexError"

AllX(s, o, x) ==
  /\ AddRefusedX(s, o, x) /\ RemoveKeepsDataX(s, o, x) /\ EditX(s, o, x) /\ PostAcceptX(s, o, x)
  /\ AssignX(s, o, x) /\ ValidImpliesSatisfiedAt(x.st)
PropAt(s, o) == \A x \in MApply(s, o) : AllX(s, o, x)
=============================================================================
