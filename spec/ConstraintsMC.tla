--------------------------- MODULE ConstraintsMC ---------------------------
(***************************************************************************)
(* Exhaustive exploration of the ShapedTensor constraint bookkeeping and    *)
(* behaviour generation.  The invariants quantify over ALL operations       *)
(* applicable in every reachable state (one-step look-ahead), so every      *)
(* (state, operation) pair of the bounded model is decided by TLC.          *)
(* The depth bound uses TLCGet("level"): run with -workers 1.               *)
(***************************************************************************)
EXTENDS ConstraintsCore, Json

CONSTANTS
  WD,        \* dims offered: -WD..WD-1 (also fixes the length of st.cons)
  Sizes,     \* sizes offered to reconstrain and to the shapes of assigned tensors
  MaxRank,   \* assigned tensors have rank 0..MaxRank
  Strict0, Live0,
  OpKinds,   \* "recon", "assign", "probe" (compatible(shape)), "toggle" (strict / live setters)
  MaxDepth,  \* number of operations explored from the initial state (the invariants look one further)
  Part, NParts   \* the invariant work is shared by NParts TLC runs: run Part decides the states of its share

VARIABLE st
vars == <<st>>

Shapes == UNION {[1..r -> Sizes] : r \in 0..MaxRank}
Dims == (-WD)..(WD - 1)

Init0 == Derive([kind |-> "ign", shape |-> << >>, data |-> << >>, cons |-> NoCons(WD),
                 strict |-> Strict0, live |-> Live0, valid |-> TRUE, ndim |-> 0])

Ops(s) ==
  (IF "recon" \in OpKinds THEN {[a |-> "recon", dim |-> d, size |-> z] : d \in Dims, z \in Sizes \cup {-1}} ELSE {})
  \cup (IF "assign" \in OpKinds THEN {[a |-> "assign", shape |-> sh] : sh \in Shapes} \cup {[a |-> "assign_ign"]} ELSE {})
  \cup (IF "probe" \in OpKinds THEN {[a |-> "compatible", shape |-> sh] : sh \in Shapes} ELSE {})
  \cup (IF "toggle" \in OpKinds THEN {[a |-> "set_strict", b |-> b] : b \in BOOLEAN}
                                       \cup {[a |-> "set_live", b |-> b] : b \in BOOLEAN} ELSE {})

Init == st = Init0
\* At most MaxDepth operations from the initial state (an initial state has level 1;
\* TLCGet("level") is only deterministic with ONE worker).  The bound sits in the action,
\* not in a CONSTRAINT: TLC evaluates invariants also on the states a constraint discards,
\* once per generated duplicate.
Next == /\ TLCGet("level") <= MaxDepth
        /\ \E o \in Ops(st) : \E x \in MApply(st, o) : st' = x.st
Spec == Init /\ [][Next]_vars

\* Sharing one bounded exploration between several single-worker TLC runs: every run
\* explores the same graph (cheap) and evaluates the look-ahead invariants (the bulk of the
\* work) only on the states of its share; the shares partition the state space.
RECURSIVE SumW(_, _)
SumW(q, i) == IF i > Len(q) THEN 0 ELSE i * (q[i] + 1) + SumW(q, i + 1)
StHash(s) == SumW(s.cons, 1) + 7 * SumW(s.shape, 1) + SumW(s.data, 1)
Mine == StHash(st) % NParts = Part

(***************************************************************************)
(* Properties                                                              *)
(***************************************************************************)
TypeOK ==
  /\ st.kind \in {"ign", "ready"}
  /\ Len(st.cons) = 2 * WD
  /\ \A i \in 1..Len(st.cons) : st.cons[i] \in Sizes \cup {-1}
  /\ st.kind = "ign" => st.shape = << >> /\ st.data = << >>
  /\ st.kind = "ready" => /\ Len(st.data) = Prod(st.shape)
                          /\ ~IgnoredShape(st.shape)
  /\ st.valid = MValid(st)
  /\ st.ndim = MDimensionality(st.cons, st.strict)

\* C13: a tensor reported valid satisfies every constraint
ValidImpliesSatisfied == ValidImpliesSatisfiedAt(st)
\* informative only (fails in strict mode: the code's rank requirement is conservative)
SatisfiedImpliesValid == SatisfiedImpliesValidAt(st)
\* ... the same for every probe tensor the predicate can be asked about
CompatibleImpliesSatisfies ==
  Mine => \A sh \in Shapes : MCompatible(sh, st.cons, st.strict) => Satisfies(sh, st.cons, st.strict)
\* in non-strict mode the predicate is exactly the meaning
NonStrictExact ==
  (Mine /\ ~st.strict) => \A sh \in Shapes : MCompatible(sh, st.cons, st.strict) <=> Satisfies(sh, st.cons, st.strict)
\* python's shape[d] / hypoth[d] never raise
IndexSafe == Mine => \A sh \in Shapes : IndexSafeAt(st, sh)

\* every (operation, outcome) pair at the current state
Each(P(_, _, _)) == Mine => \A o \in Ops(st) : \A x \in MApply(st, o) : P(st, o, x)
\* C13: adding an incompatible constraint is refused without side effects
AddRefusedNoSideEffects == Each(AddRefusedX)
\* C13: removing a constraint never alters data
RemoveNeverAltersData == Each(RemoveKeepsDataX)
\* C13: an edit leaves the new constrained size, keeps the tail / zero-prepends
EditKeepsTailOrZeroPrepends == Each(EditX)
\* after an accepted add / edit "valid" is exactly "satisfies every constraint"
PostAcceptValidIffSatisfied == Each(PostAcceptX)
\* live assignment refuses without side effects and only stores valid tensors
LiveAssign == Each(AssignX)
\* all of the above in one pass (what the quick runs check; the named invariants are used
\* to name the failing clause)
AllProps == Each(AllX)

(***************************************************************************)
(* Behaviour generation: one JSON line per distinct state with the         *)
(* complete outcome table of that state.                                   *)
(***************************************************************************)
Emit == PrintT(ToJson([s |-> st, out |-> {[op |-> o, res |-> MApply(st, o)] : o \in Ops(st)}]))
=============================================================================
