---------------------------- MODULE ConstraintsTrace ------------------------
(***************************************************************************)
(* Trace specification for ShapedTensor executions recorded from the real  *)
(* implementation (direction B).  A batch file holds many traces:          *)
(*   [ [hdr |-> [init, waive, ...], ev |-> << [op, ret, st], ... >>] ]      *)
(* Every event must be the outcome of MApply on the current state: same    *)
(* return class, same projected state (constraints, shape, data tokens,    *)
(* valid, dimensionality, strict, live), and the step must satisfy the     *)
(* property clauses of ConstraintsCore (PropAt).  Lines listed in          *)
(* hdr.waive adopt the logged state instead (used only to examine the rest *)
(* of a trace after a rejection has been reported).                        *)
(***************************************************************************)
EXTENDS ConstraintsCore, Json, IOUtils, TLCExt

Traces == JsonDeserialize(IOEnv.TRACE_FILE)

VARIABLES tid, l, st
vars == <<tid, l, st>>

NT == Len(Traces)
Evs(t) == Traces[t].ev
Waived(t) == {Traces[t].hdr.waive[i] : i \in DOMAIN Traces[t].hdr.waive}

ASSUME \A i \in 1..NT : TLCSet(100 + i, 0)

ApplyT(s, o) == MApply(s, o)
RefOK(s, o) == PropAt(s, o)

Init == /\ tid \in 1..NT
        /\ l = 1
        /\ st = Traces[tid].hdr.init

Matches(e) == {mo \in ApplyT(st, e.op) : mo.ret = e.ret /\ mo.st = e.st}

Step ==
  /\ l <= Len(Evs(tid))
  /\ LET e == Evs(tid)[l] IN
       IF l \in Waived(tid)
       THEN st' = e.st
       ELSE /\ RefOK(st, e.op)
            /\ \E mo \in Matches(e) : st' = mo.st
  /\ l' = l + 1
  /\ UNCHANGED tid

TraceSpec == Init /\ [][Step]_vars

\* bookkeeping: longest matched prefix per trace, and a diagnostic line where a
\* state has an event that no outcome explains
Track ==
  /\ TLCSet(100 + tid, MaxI(TLCGet(100 + tid), l))
  /\ IF l <= Len(Evs(tid)) /\ ~(l \in Waived(tid))
        /\ (Matches(Evs(tid)[l]) = {} \/ ~RefOK(st, Evs(tid)[l].op))
     THEN PrintT(ToJson([diag |-> tid, l |-> l, refok |-> RefOK(st, Evs(tid)[l].op),
                         expected |-> ApplyT(st, Evs(tid)[l].op), state |-> st]))
     ELSE TRUE

Post ==
  PrintT(ToJson([rejected |-> {<<i, TLCGet(100 + i)>> : i \in {j \in 1..NT : TLCGet(100 + j) <= Len(Evs(j))}},
                 total |-> NT]))
=============================================================================
