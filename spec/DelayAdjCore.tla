---------------------------- MODULE DelayAdjCore ----------------------------
(***************************************************************************)
(* C18 - delay-adjusted and kernel STDP on ONE synapse.                    *)
(*                                                                         *)
(* Time in ticks, DT ticks per simulation step; the learned delay d is a   *)
(* number of ticks (any value in 0..2*DT: on and off the step grid) and    *)
(* may change between steps.                                               *)
(*                                                                         *)
(* Abs  : the documented function of                                       *)
(*          tdelta = t_post_last - t_pre_last - d                          *)
(*        computed from the TRUE most recent spike steps of the histories: *)
(*        nothing while either side has not spiked; the causal branch iff  *)
(*        tdelta >= 0.                                                     *)
(* Mech : what the trainers keep: two event-time folds (0 on an event,     *)
(*        previous + DT otherwise, undefined before the first event - the  *)
(*        EventReducer with initial "nan"), tdelta = e_pre - e_post - d,   *)
(*        the two masked exponentials (nansum => 0 while undefined) and    *)
(*        the routing to the LTP / LTD accumulators.                       *)
(*                                                                         *)
(* Rules: "w"  DelayAdjustedSTDP and DelayAdjustedKernelSTDP with the      *)
(*             shipped exponential kernels (weight),                       *)
(*        "d"  DelayAdjustedSTDPD / DelayAdjustedKernelSTDPD (delay:       *)
(*             causal branch carries eta_minus, tau_minus),                *)
(*        "mw", "md"  the reward-modulated variants,                       *)
(*        "k"  KernelSTDP (no adjustment; only offered delay 0),           *)
(*        "ka" KernelSTDP on a connection with a constant delay of q steps *)
(*             (presynaptic event = arrival; both trainer modes).          *)
(* Values are STDPSym values: tag "plus" with the exponent field xf (base  *)
(* exp(-tick/tau_plus)), tag "minus" with yf (base exp(-tick/tau_minus)).  *)
(***************************************************************************)
EXTENDS STDPSym

DARules == {"w", "d", "mw", "md", "k", "ka"}

MaxS0(S) == IF S = {} THEN 0 ELSE CHOOSE m \in S : \A u \in S : u <= m
\* step of the most recent spike up to and including step t (0: none yet)
LastEv(h, t) == MaxS0({s \in 1..t : h[s] = 1})

AbsV(n) == IF n < 0 THEN 0 - n ELSE n

TermPlus(e) == One([T0("plus") EXCEPT !.xf = e])
TermMinus(e) == One([T0("minus") EXCEPT !.yf = e])

\* the documented kernel as a function of tdelta (ticks)
\* weight rules: eta_plus on the causal side; delay rules: eta_minus on the causal side
Kernel(rule, td) ==
  IF rule \in {"w", "mw", "k"}
  THEN IF td >= 0 THEN TermPlus(td) ELSE TermMinus(0 - td)
  ELSE IF td >= 0 THEN TermMinus(td) ELSE TermPlus(0 - td)

\* the value on the other side of the tdelta = 0 boundary (reachable only through
\* floating-point rounding of the time arithmetic)
KernelOther(rule, td) ==
  IF rule \in {"w", "mw", "k"} THEN TermMinus(0) ELSE TermPlus(0)

Modulate(rule, v, r) == IF rule \in {"mw", "md"} THEN TimesGamma(Scale(v, r)) ELSE v

(***************************************************************************)
(* Abs                                                                     *)
(***************************************************************************)
AbsTDelta(DT, x, y, t, d) == (LastEv(y, t) - LastEv(x, t)) * DT - d
AbsDefined(x, y, t) == LastEv(x, t) > 0 /\ LastEv(y, t) > 0

AbsDW(DT, rule, x, y, t, d, r) ==
  IF ~AbsDefined(x, y, t) THEN Zero
  ELSE Modulate(rule, Kernel(rule, AbsTDelta(DT, x, y, t, d)), r)

\* outcomes admissible when the time arithmetic is inexact (non-dyadic step time)
AbsNear(DT, rule, x, y, t, d, r) ==
  {AbsDW(DT, rule, x, y, t, d, r)} \cup
  (IF AbsDefined(x, y, t) /\ AbsTDelta(DT, x, y, t, d) = 0
   THEN {Modulate(rule, KernelOther(rule, 0), r)} ELSE {})

(***************************************************************************)
(* KernelSTDP on a connection with a (constant) delay of q steps, rule     *)
(* "ka": nothing is adjusted, the presynaptic event of the documented      *)
(* formula is the ARRIVAL of a spike at the synapse (step of emission + q),*)
(* so a spike still in flight does not count yet.                          *)
(***************************************************************************)
Shift(x, q) == [s \in 1..Len(x) |-> IF s - q >= 1 THEN x[s - q] ELSE 0]
ArrLast(x, t, q) == IF t - q >= 1 THEN LastEv(x, t - q) ELSE 0      \* emission step of the last ARRIVED spike
AbsArrDefined(x, y, t, q) == ArrLast(x, t, q) > 0 /\ LastEv(y, t) > 0
AbsArrTDelta(DT, x, y, t, q) == (LastEv(y, t) - ArrLast(x, t, q) - q) * DT
AbsDWArr(DT, x, y, t, q) ==
  IF ~AbsArrDefined(x, y, t, q) THEN Zero ELSE Kernel("k", AbsArrTDelta(DT, x, y, t, q))
AbsNearArr(DT, x, y, t, q) ==
  {AbsDWArr(DT, x, y, t, q)} \cup
  (IF AbsArrDefined(x, y, t, q) /\ AbsArrTDelta(DT, x, y, t, q) = 0 THEN {KernelOther("k", 0)} ELSE {})

(***************************************************************************)
(* Mech                                                                    *)
(***************************************************************************)
Undef == -1
EvStep(DT, e, spike) == IF spike = 1 THEN 0 ELSE IF e = Undef THEN Undef ELSE e + DT

MInit == [epre |-> Undef, epost |-> Undef]

MStep(DT, rule, m, op) ==
  LET epre == EvStep(DT, m.epre, op.x)
      epost == EvStep(DT, m.epost, op.y)
      nan == epre = Undef \/ epost = Undef
      td == epre - epost - op.d          \* time since pre minus time since post minus delay
      \* the two masked exponentials, each with the magnitude of its learning rate
      a == IF nan \/ td < 0 THEN Zero          \* [tdelta >= 0] branch
           ELSE IF rule \in {"w", "mw", "k"} THEN TermPlus(AbsV(td)) ELSE TermMinus(AbsV(td))
      b == IF nan \/ td >= 0 THEN Zero         \* [tdelta < 0] branch
           ELSE IF rule \in {"w", "mw", "k"} THEN TermMinus(AbsV(td)) ELSE TermPlus(AbsV(td))
  IN [m |-> [epre |-> epre, epost |-> epost],
      a |-> IF rule \in {"mw", "md"} THEN TimesGamma(a) ELSE a,
      b |-> IF rule \in {"mw", "md"} THEN TimesGamma(b) ELSE b]

MechDW(out, r) == Scale(Plus(out.a, out.b), r)

(***************************************************************************)
(* Mech of rule "ka", the two modes of the trainer:                        *)
(*   delayed = FALSE  the event fold observes connection.synspike, i.e.    *)
(*                    the spike emitted q steps ago (xarr)                 *)
(*   delayed = TRUE   the event fold observes the raw spikes, keeps its    *)
(*                    last values in a record and reads the value it had   *)
(*                    q steps ago (undefined while that slot was never     *)
(*                    written)                                             *)
(* m = [earr, eraw, ring, epost]                                           *)
(***************************************************************************)
MArrInit == [earr |-> Undef, eraw |-> Undef, ring |-> <<>>, epost |-> Undef]

MArrOut(e, epost) ==
  LET nan == e = Undef \/ epost = Undef
      td == e - epost
  IN [a |-> IF nan \/ td < 0 THEN Zero ELSE TermPlus(AbsV(td)),
      b |-> IF nan \/ td >= 0 THEN Zero ELSE TermMinus(AbsV(td))]

MStepArr(DT, m, op, xarr, q) ==
  LET earr == EvStep(DT, m.earr, xarr)
      eraw == EvStep(DT, m.eraw, op.x)
      ring == Append(m.ring, eraw)
      seen == IF Len(ring) - q >= 1 THEN ring[Len(ring) - q] ELSE Undef
      epost == EvStep(DT, m.epost, op.y)
  IN [m |-> [earr |-> earr, eraw |-> eraw, ring |-> ring, epost |-> epost],
      undelayed |-> MArrOut(earr, epost),
      delayed |-> MArrOut(seen, epost)]

\* routing: sa is the sign of the learning rate of the causal-branch term `a`,
\* sb of the anti-causal term `b`; r the reward (1 for the two-factor rules)
MechRoute(out, sa, sb, r) ==
  LET a == Scale(out.a, AbsV(r))
      b == Scale(out.b, AbsV(r))
      p == sa * r >= 0
      q == sb * r >= 0
  IN CASE ~p /\ ~q -> <<Zero, Plus(a, b)>>
       [] ~p /\ q  -> <<b, a>>
       [] p /\ ~q  -> <<a, b>>
       [] p /\ q   -> <<Plus(a, b), Zero>>
=============================================================================
