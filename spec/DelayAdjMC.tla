----------------------------- MODULE DelayAdjMC -----------------------------
(***************************************************************************)
(* Exhaustive exploration of the delay-adjusted / kernel STDP model: every *)
(* pre/post history up to T steps, every delay in DelaySet (ticks, on and  *)
(* off the step grid, chosen anew at every step), every rule (rule "ka":   *)
(* every constant delay in QSet steps, both trainer modes).  Invariants    *)
(* are one-step look-ahead obligations over ALL operations of every        *)
(* reachable state; Emit prints the outcome table of every state.          *)
(***************************************************************************)
EXTENDS DelayAdjCore, Json

CONSTANTS
  DT,            \* ticks per simulation step
  RuleSet,       \* subset of DARules
  DelaySet,      \* delays offered (ticks)
  RPos, RNegMag, \* reward tokens of the three-factor rules: RPos and the negations of RNegMag
  T, T3,         \* history length (two-factor / three-factor rules)
  QSet           \* constant delays (steps) of rule "ka"

VARIABLE st
vars == <<st>>

RSet == RPos \cup {0 - n : n \in RNegMag}
Three(rule) == rule \in {"mw", "md"}
Horizon(rule) == IF Three(rule) THEN T3 ELSE T

Ops(s) == IF Len(s.x) >= Horizon(s.rule) THEN {}
          ELSE [x : {0, 1}, y : {0, 1},
                d : IF s.rule \in {"k", "ka"} THEN {0} ELSE DelaySet,
                r : IF Three(s.rule) THEN RSet ELSE {1}]

XArr(s, o) == LET x == Append(s.x, o.x) IN Shift(x, s.q)[Len(x)]

Apply(s, o) ==
  LET out == IF s.rule = "ka" THEN MStepArr(DT, s.m, o, XArr(s, o), s.q) ELSE MStep(DT, s.rule, s.m, o)
  IN [st |-> [rule |-> s.rule, q |-> s.q, x |-> Append(s.x, o.x), y |-> Append(s.y, o.y), m |-> out.m], out |-> out]

Init == st \in {[rule |-> rl, q |-> 0, x |-> <<>>, y |-> <<>>, m |-> MInit] : rl \in RuleSet \ {"ka"}}
               \cup (IF "ka" \in RuleSet
                     THEN {[rule |-> "ka", q |-> q, x |-> <<>>, y |-> <<>>, m |-> MArrInit] : q \in QSet} ELSE {})
Next == \E o \in Ops(st) : st' = Apply(st, o).st
Spec == Init /\ [][Next]_vars

TypeOK == /\ st.rule \in DARules
          /\ Len(st.x) = Len(st.y)
          /\ st.rule # "ka" => st.m.epre \in {Undef} \cup Nat
          /\ st.rule = "ka" => /\ st.m.earr \in {Undef} \cup Nat /\ st.m.eraw \in {Undef} \cup Nat
                               /\ Len(st.m.ring) = Len(st.x) /\ st.q \in QSet
          /\ st.m.epost \in {Undef} \cup Nat

\* the event-time recurrence equals "now - true last spike time", undefined before the first
EventTimeOK ==
  LET t == Len(st.x)
      Ev(h) == IF LastEv(h, t) = 0 THEN Undef ELSE (t - LastEv(h, t)) * DT
  IN IF st.rule = "ka"
     THEN /\ st.m.eraw = Ev(st.x) /\ st.m.epost = Ev(st.y)
          /\ st.m.earr = Ev(Shift(st.x, st.q))                 \* the fold over arrivals = the fold over the shifted train
     ELSE st.m.epre = Ev(st.x) /\ st.m.epost = Ev(st.y)

\* C18: the mechanism requests exactly the documented function of the true tdelta
Refinement ==
  \A o \in Ops(st) :
    LET a == Apply(st, o)
    IN IF st.rule = "ka"
       THEN LET want == AbsDWArr(DT, a.st.x, a.st.y, Len(a.st.x), st.q)
            IN /\ MechDW(a.out.undelayed, 1) = want               \* both trainer modes request the documented
               /\ MechDW(a.out.delayed, 1) = want                 \* function of the arrival times
       ELSE MechDW(a.out, o.r) = AbsDW(DT, st.rule, a.st.x, a.st.y, Len(a.st.x), o.d, o.r)

\* a constant delay of q steps is the unadjusted kernel rule on the presynaptic train shifted by q steps
ShiftIdentity ==
  st.rule = "ka" =>
    \A o \in Ops(st) :
      LET x == Append(st.x, o.x)
          y == Append(st.y, o.y)
          t == Len(x)
      IN /\ AbsDWArr(DT, x, y, t, st.q) = AbsDW(DT, "k", Shift(x, st.q), y, t, 0, 1)
         \* and differs from the ADJUSTED rule exactly when a spike is in flight or arrives late
         /\ (LastEv(x, t) = ArrLast(x, t, st.q) /\ AbsArrDefined(x, y, t, st.q))
               => AbsDWArr(DT, x, y, t, st.q) = AbsDW(DT, "w", x, y, t, st.q * DT, 1)

\* identities: the weight rule and the delay rule are mirror images (eta/tau swapped), and
\* with delay 0 the adjusted rule is the unadjusted kernel rule
Swap(v) == [t \in {[u EXCEPT !.c = IF u.c = "plus" THEN "minus" ELSE "plus", !.xf = u.yf, !.yf = u.xf] : u \in DOMAIN v}
             |-> v[[t EXCEPT !.c = IF t.c = "plus" THEN "minus" ELSE "plus", !.xf = t.yf, !.yf = t.xf]]]
Identities ==
  \A o \in Ops(st) :
    LET x == Append(st.x, o.x)
        y == Append(st.y, o.y)
        t == Len(x)
    IN /\ AbsDW(DT, "d", x, y, t, o.d, 1) = Swap(AbsDW(DT, "w", x, y, t, o.d, 1))
       /\ AbsDW(DT, "k", x, y, t, 0, 1) = AbsDW(DT, "w", x, y, t, 0, 1)

\* routing to the accumulators for every sign mode
RoutingOK ==
  st.rule # "ka" =>
  \A o \in Ops(st) : \A splus \in {-1, 1}, sminus \in {-1, 1} :
    LET a == Apply(st, o)
        dw == MechDW(a.out, o.r)
        S(c) == IF c = "plus" THEN splus ELSE sminus
        wlike == st.rule \in {"w", "mw", "k"}
        sa == IF wlike THEN splus ELSE sminus
        sb == IF wlike THEN sminus ELSE splus
    IN MechRoute(a.out, sa, sb, o.r) = <<PosPart(dw, S), NegPart(dw, S)>>

Emit ==
  PrintT(ToJson([s |-> [rule |-> st.rule, q |-> st.q, x |-> st.x, y |-> st.y],
                 out |-> {[op |-> o,
                           dw |-> AsSet(IF st.rule = "ka"
                                        THEN AbsDWArr(DT, Append(st.x, o.x), Append(st.y, o.y), Len(st.x) + 1, st.q)
                                        ELSE AbsDW(DT, st.rule, Append(st.x, o.x), Append(st.y, o.y), Len(st.x) + 1, o.d, o.r)),
                           near |-> {AsSet(v) : v \in IF st.rule = "ka"
                                        THEN AbsNearArr(DT, Append(st.x, o.x), Append(st.y, o.y), Len(st.x) + 1, st.q)
                                        ELSE AbsNear(DT, st.rule, Append(st.x, o.x), Append(st.y, o.y),
                                                     Len(st.x) + 1, o.d, o.r)}]
                          : o \in Ops(st)}]))
=============================================================================
