----------------------------- MODULE DelayAdjMC -----------------------------
(***************************************************************************)
(* Exhaustive exploration of the delay-adjusted / kernel STDP model: every *)
(* pre/post history up to T steps, every delay in DelaySet (ticks, on and  *)
(* off the step grid, chosen anew at every step), every rule.  Invariants  *)
(* are one-step look-ahead obligations over ALL operations of every        *)
(* reachable state; Emit prints the outcome table of every state.          *)
(***************************************************************************)
EXTENDS DelayAdjCore, Json

CONSTANTS
  DT,            \* ticks per simulation step
  RuleSet,       \* subset of DARules
  DelaySet,      \* delays offered (ticks)
  RPos, RNegMag, \* reward tokens of the three-factor rules: RPos and the negations of RNegMag
  T, T3          \* history length (two-factor / three-factor rules)

VARIABLE st
vars == <<st>>

RSet == RPos \cup {0 - n : n \in RNegMag}
Three(rule) == rule \in {"mw", "md"}
Horizon(rule) == IF Three(rule) THEN T3 ELSE T

Ops(s) == IF Len(s.x) >= Horizon(s.rule) THEN {}
          ELSE [x : {0, 1}, y : {0, 1},
                d : IF s.rule = "k" THEN {0} ELSE DelaySet,
                r : IF Three(s.rule) THEN RSet ELSE {1}]

Apply(s, o) ==
  LET out == MStep(DT, s.rule, s.m, o)
  IN [st |-> [rule |-> s.rule, x |-> Append(s.x, o.x), y |-> Append(s.y, o.y), m |-> out.m], out |-> out]

Init == st \in {[rule |-> rl, x |-> <<>>, y |-> <<>>, m |-> MInit] : rl \in RuleSet}
Next == \E o \in Ops(st) : st' = Apply(st, o).st
Spec == Init /\ [][Next]_vars

TypeOK == /\ st.rule \in DARules
          /\ Len(st.x) = Len(st.y)
          /\ st.m.epre \in {Undef} \cup Nat
          /\ st.m.epost \in {Undef} \cup Nat

\* the event-time recurrence equals "now - true last spike time", undefined before the first
EventTimeOK ==
  LET t == Len(st.x)
      Ev(h) == IF LastEv(h, t) = 0 THEN Undef ELSE (t - LastEv(h, t)) * DT
  IN st.m.epre = Ev(st.x) /\ st.m.epost = Ev(st.y)

\* C18: the mechanism requests exactly the documented function of the true tdelta
Refinement ==
  \A o \in Ops(st) :
    LET a == Apply(st, o)
    IN MechDW(a.out, o.r) = AbsDW(DT, st.rule, a.st.x, a.st.y, Len(a.st.x), o.d, o.r)

\* identities: the weight rule and the delay rule are mirror images (eta/tau swapped), and
\* with delay 0 the adjusted rule is the unadjusted kernel rule
Swap(v) == [t \in {[u EXCEPT !.c = IF u.c = "plus" THEN "minus" ELSE "plus", !.xf = u.yf, !.yf = u.xf] : u \in DOMAIN v}
             |-> v[[t EXCEPT !.c = IF t.c = "plus" THEN "minus" ELSE "plus", !.xf = t.yf, !.yf = t.xf]]]
Identities ==
  \A o \in Ops(st) :
    LET x == Append(st.x, o.x)
        y == Append(st.y, o.y)
        t == Len(x)
    IN /\ AbsDW(DT, "d", x, y, t, o.d, 1) = Swap(AbsDW(DT, "w", x, y, t, o.d, 1))
       /\ AbsDW(DT, "k", x, y, t, 0, 1) = AbsDW(DT, "w", x, y, t, 0, 1)

\* routing to the accumulators for every sign mode
RoutingOK ==
  \A o \in Ops(st) : \A splus \in {-1, 1}, sminus \in {-1, 1} :
    LET a == Apply(st, o)
        dw == MechDW(a.out, o.r)
        S(c) == IF c = "plus" THEN splus ELSE sminus
        wlike == st.rule \in {"w", "mw", "k"}
        sa == IF wlike THEN splus ELSE sminus
        sb == IF wlike THEN sminus ELSE splus
    IN MechRoute(a.out, sa, sb, o.r) = <<PosPart(dw, S), NegPart(dw, S)>>

Emit ==
  PrintT(ToJson([s |-> [rule |-> st.rule, x |-> st.x, y |-> st.y],
                 out |-> {[op |-> o,
                           dw |-> AsSet(AbsDW(DT, st.rule, Append(st.x, o.x), Append(st.y, o.y), Len(st.x) + 1, o.d, o.r)),
                           near |-> {AsSet(v) : v \in AbsNear(DT, st.rule, Append(st.x, o.x), Append(st.y, o.y),
                                                             Len(st.x) + 1, o.d, o.r)}]
                          : o \in Ops(st)}]))
=============================================================================
