------------------------------ MODULE DelayAdjTrace ------------------------------
(***************************************************************************)
(* Trace specification (direction B) for C18: executions of the REAL       *)
(* delay-adjusted / kernel trainers on dense / direct / lateral /          *)
(* convolutional cells with batches in the dyadic recipe (step time 1, 1/2 *)
(* or 2 ms so that the time arithmetic is exact; exp(-tick/tau) = 1/2),    *)
(* recorded per trained parameter element (weight or delay).               *)
(*                                                                         *)
(* One trace = one parameter element fed by P (pre, post) pairs (batch     *)
(* samples x receptive-field positions).  The requested change at a step   *)
(* is the sum over its pairs of DelayAdjCore!AbsDW.                        *)
(*                                                                         *)
(*   hdr.cfg : rule, DT (ticks per step), splus, sminus, K, den, e         *)
(*   ev[l]   : op = [x, y, r : per pair; d : delay in ticks; gexp],        *)
(*             ret = [pos, neg] accumulators times 2^K, st = histories     *)
(***************************************************************************)
EXTENDS DelayAdjCore, Json, IOUtils, TLCExt

Traces == JsonDeserialize(IOEnv.TRACE_FILE)

VARIABLES tid, l, st
vars == <<tid, l, st>>

NT == Len(Traces)
Evs(t) == Traces[t].ev
Cfg(t) == Traces[t].hdr.cfg
MaxI(a, b) == IF a >= b THEN a ELSE b
Waived(t) == {Traces[t].hdr.waive[i] : i \in DOMAIN Traces[t].hdr.waive}

ASSUME \A i \in 1..NT : TLCSet(100 + i, 0)

NextSt(s, o) == [x |-> [p \in DOMAIN s.x |-> Append(s.x[p], o.x[p])],
                 y |-> [p \in DOMAIN s.y |-> Append(s.y[p], o.y[p])]]

\* specified accumulators (times 2^K * den) after the step
Expected(c, s, o) ==
  LET s2 == NextSt(s, o)
      P == DOMAIN s2.x
      E == [c.e EXCEPT !.g = o.gexp]
      S(tag) == IF tag = "plus" THEN c.splus ELSE c.sminus
      dw == [p \in P |-> AbsDW(c.DT, c.rule, s2.x[p], s2.y[p], Len(s2.x[p]), o.d, o.r[p])]
  IN [pos |-> SumOver(P, [p \in P |-> DyEval(PosPart(dw[p], S), c.K, E)]),
      neg |-> SumOver(P, [p \in P |-> DyEval(NegPart(dw[p], S), c.K, E)]),
      exact |-> \A p \in P : DyExact(dw[p], c.K, E)]

RetOK(c, s, e) ==
  LET x == Expected(c, s, e.op)
  IN /\ x.exact
     /\ e.ret.pos * c.den = x.pos
     /\ e.ret.neg * c.den = x.neg

StateOK(s, e) == NextSt(s, e.op) = e.st

Init == /\ tid \in 1..NT
        /\ l = 1
        /\ st = Traces[tid].hdr.init

Step ==
  /\ l <= Len(Evs(tid))
  /\ LET e == Evs(tid)[l] IN
       /\ (l \in Waived(tid)) \/ (RetOK(Cfg(tid), st, e) /\ StateOK(st, e))
       /\ st' = e.st
  /\ l' = l + 1
  /\ UNCHANGED tid

TraceSpec == Init /\ [][Step]_vars

Track ==
  /\ TLCSet(100 + tid, MaxI(TLCGet(100 + tid), l))
  /\ IF l <= Len(Evs(tid)) /\ ~(l \in Waived(tid))
        /\ ~(RetOK(Cfg(tid), st, Evs(tid)[l]) /\ StateOK(st, Evs(tid)[l]))
     THEN PrintT(ToJson([diag |-> tid, l |-> l, retok |-> RetOK(Cfg(tid), st, Evs(tid)[l]),
                         stateok |-> StateOK(st, Evs(tid)[l]),
                         expected |-> Expected(Cfg(tid), st, Evs(tid)[l].op), state |-> st]))
     ELSE TRUE

Post ==
  PrintT(ToJson([rejected |-> {<<i, TLCGet(100 + i)>> : i \in {j \in 1..NT : TLCGet(100 + j) <= Len(Evs(j))}},
                 total |-> NT]))
=============================================================================
