--------------------------- MODULE DelayShiftCore ---------------------------
(***************************************************************************)
(* Functional core of delayed connections (C06):                            *)
(*   inferno/neural/connections/{linear,conv}.py, neural/base.py            *)
(*   (selector, syncurrent / synspike, delayed branch of forward).          *)
(*                                                                          *)
(* A connection owns ONE synapse over its I synaptic elements (SynapseHist  *)
(* Mech state) and a per-synapse delay d[o][i] in ticks.                    *)
(*   Mech - the code's path: forward steps the synapse, then - if the       *)
(*          connection is delayed (`delayedby` truthy) - reads              *)
(*          synapse.current_at(selector) with selector[i][o] = d[o][i]      *)
(*          (ring read through `_synparam_at`) and sums over the            *)
(*          contributing synapses; otherwise it sums the present currents.  *)
(*   Abs  - the property: out(t)[o] = SUM over contributing (o,i) of        *)
(*          W[o][i] * cur_i(t - d[o][i]) + b[o], where cur_i(.) is the       *)
(*          impulse-response closed form of the UNDELAYED history of        *)
(*          element i, and rest (zero current, no spike) before the start   *)
(*          or the last clear.                                              *)
(* An output is kept as the bag {[i, v]} of contributing synaptic values    *)
(* (the harness evaluates SUM W[o][i]*v + b[o] with the real weights).      *)
(*                                                                          *)
(* geo: "full"  every input reaches every output (LinearDense, Conv2D per   *)
(*              output location, LinearLateral with its masked diagonal)    *)
(*      "diag"  one-to-one (LinearDirect)                                   *)
(***************************************************************************)
EXTENDS SynapseHistCore

Pairs(geo, I, O) == IF geo = "diag" THEN {[o |-> i, i |-> i] : i \in 1..I}
                    ELSE {[o |-> o, i |-> i] : o \in 1..O, i \in 1..I}
DelayOf(cs, o, i) == (CHOOSE r \in cs.d : r.o = o /\ r.i = i).d

\* cs = [geo, I, O, d, delayed, syn]; delayed: the connection was built with a delay argument
DelayedBy(cs) == cs.delayed /\ cs.syn.cf.dly > 0            \* `if self.delayedby:` (0.0 is falsy)

\* value sets per contributing pair through the code's path
MSynCurrent(cs) ==
  [p \in Pairs(cs.geo, cs.I, cs.O) |->
     IF DelayedBy(cs) THEN SCurrentAtElem(cs.syn, p.i, DelayOf(cs, p.o, p.i)) ELSE {SCurrent(cs.syn)[p.i]}]
MSynSpike(cs) ==
  [p \in Pairs(cs.geo, cs.I, cs.O) |->
     IF DelayedBy(cs) THEN SSpikeAtElem(cs.syn, p.i, DelayOf(cs, p.o, p.i)) ELSE {Latest(cs.syn.spk)[p.i]}]

\* the same, stated by the property: the undelayed closed form shifted by d
ASynCurrent(cs, as) ==
  [p \in Pairs(cs.geo, cs.I, cs.O) |->
     LET d == IF cs.delayed THEN DelayOf(cs, p.o, p.i) ELSE 0 IN
     IF d % as.cf.dtk = 0 THEN {CurAgo(as, d \div as.cf.dtk, p.i)}        \* a pure shift by d/dt steps
     ELSE ACurAtElem(as, p.i, d)]                                          \* interpolated history
ASynSpike(cs, as) ==
  [p \in Pairs(cs.geo, cs.I, cs.O) |->
     LET d == IF cs.delayed THEN DelayOf(cs, p.o, p.i) ELSE 0 IN
     IF d % as.cf.dtk = 0 THEN {SpkAgo(as, d \div as.cf.dtk, p.i)} ELSE ASpkAtElem(as, p.i, d)]

\* choose one admissible value per pair: set of sets of [o, i, v]
RECURSIVE Choices(_, _)
Choices(F, S) ==
  IF S = {} THEN {{}}
  ELSE LET p == CHOOSE x \in S : TRUE
       IN {{[o |-> p.o, i |-> p.i, v |-> v]} \cup rest : v \in F[p], rest \in Choices(F, S \ {p})}
AllChoices(F) == Choices(F, DOMAIN F)

CStep(cs, v) ==
  LET so == CHOOSE x \in SStep(cs.syn, v, FALSE) : TRUE
      c1 == [cs EXCEPT !.syn = so.st]
  IN {Out(c1, [t |-> "out", c |-> c]) : c \in AllChoices(MSynCurrent(c1))}
CClear(cs) == {Out([cs EXCEPT !.syn = (CHOOSE x \in SClear(cs.syn) : TRUE).st], [t |-> "ok"])}

CApply(cs, o) ==
  CASE o.a = "step"       -> CStep(cs, o.v)
    [] o.a = "clear"      -> CClear(cs)
    [] o.a = "syncurrent" -> {Out(cs, [t |-> "syn", c |-> c]) : c \in AllChoices(MSynCurrent(cs))}
    [] o.a = "synspike"   -> {Out(cs, [t |-> "syn", c |-> c]) : c \in AllChoices(MSynSpike(cs))}

CAApply(cs, as, o) ==
  CASE o.a = "step"       -> LET a1 == [as EXCEPT !.hist = Append(as.hist, o.v)]
                             IN {Out(a1, [t |-> "out", c |-> c]) : c \in AllChoices(ASynCurrent(cs, a1))}
    [] o.a = "clear"      -> {Out([as EXCEPT !.hist = <<>>], [t |-> "ok"])}
    [] o.a = "syncurrent" -> {Out(as, [t |-> "syn", c |-> c]) : c \in AllChoices(ASynCurrent(cs, as))}
    [] o.a = "synspike"   -> {Out(as, [t |-> "syn", c |-> c]) : c \in AllChoices(ASynSpike(cs, as))}
=============================================================================
