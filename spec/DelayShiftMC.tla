---------------------------- MODULE DelayShiftMC ----------------------------
(***************************************************************************)
(* Exhaustive exploration of delayed connections (C06): every geometry,     *)
(* synapse kind, heterogeneous per-synapse delay assignment and input       *)
(* history within the bounds; and behaviour generation.                     *)
(***************************************************************************)
EXTENDS DelayShiftCore, Json

CONSTANTS
  Geos,       \* "full" / "diag"
  ZeroDiag,   \* TRUE: delays on the diagonal of a "full" geometry are 0 (LinearLateral's mask)
  Kinds,      \* synapse kinds
  I0, O0,     \* synaptic elements, outputs
  Dt0,        \* ticks per step
  MaxDelays,  \* maximum delays offered (ticks)
  DelaySet,   \* per-synapse delays offered (those <= the maximum are used)
  SModes,
  DelayedSet, \* {TRUE}, {FALSE} or both: connection built with / without a delay argument
  MaxDepth

VARIABLE st    \* [c |-> connection (Mech), a |-> Abs input list]
vars == <<st>>

Alphabet(sk) == {[s |-> s, j |-> 0] : s \in {0, 1}}
MutOps(s) == {[a |-> "step", v |-> v] : v \in [1..I0 -> Alphabet(s.c.syn.cf.sk)]} \cup {[a |-> "clear"]}
QueryOps(s) == {[a |-> "syncurrent"], [a |-> "synspike"]}
Ops(s) == MutOps(s) \cup QueryOps(s)

DelayAssignments(geo, mx, delayed) ==
  LET P == Pairs(geo, I0, O0)
      DS == IF delayed THEN {x \in DelaySet : x <= mx} ELSE {0}
      ok(f) == \A p \in P : (ZeroDiag /\ geo = "full" /\ p.o = p.i) => f[p] = 0
  IN {{[o |-> p.o, i |-> p.i, d |-> f[p]] : p \in P} : f \in {g \in [P -> DS] : ok(g)}}

Init == \E geo \in Geos, sk \in Kinds, mx \in MaxDelays, sm \in SModes, dl \in DelayedSet :
          \E d \in DelayAssignments(geo, mx, dl) :
            LET cf == [sk |-> sk, dtk |-> Dt0, dly |-> IF dl THEN mx ELSE 0, smode |-> sm, tol2 |-> 1,
                       cob |-> "val", sob |-> "f"]
            IN st = [c |-> [geo |-> geo, I |-> I0, O |-> O0, d |-> d, delayed |-> dl, syn |-> SInit(cf, I0)],
                     a |-> SAInit(cf, I0)]

Apply(s, o) == {[st |-> [c |-> mo.st, a |-> ao.st], ret |-> mo.ret] :
                  mo \in CApply(s.c, o), ao \in {x \in CAApply(s.c, s.a, o) : TRUE}}
Next == \E o \in MutOps(st) : \E out \in Apply(st, o) : st' = out.st
Spec == Init /\ [][Next]_vars
Bounded == TLCGet("level") <= MaxDepth

(***************************************************************************)
(* Properties                                                              *)
(***************************************************************************)
TypeOK == /\ SCorr(st.c.syn, st.a)
          /\ \A r \in st.c.d : r.d >= 0 /\ r.d <= st.c.syn.cf.dly

\* the code's path (selector -> current_at -> ring read -> contributions) equals the shift of the
\* undelayed closed form, for the outputs of every possible next step and for both learning views
ShiftEq ==
  \A o \in Ops(st) :
     {x.ret : x \in CApply(st.c, o)} = {x.ret : x \in CAApply(st.c, st.a, o)}

\* grid delays: exactly one admissible value, the undelayed current / spike d/dt steps earlier,
\* and rest (zero current, no spike) when that is before the start or the last clear
PureShift ==
  LET n == Len(st.a.hist)
      D == Dt0
  IN \A p \in Pairs(st.c.geo, I0, O0) :
       LET d == DelayOf(st.c, p.o, p.i) IN
       d % D = 0 =>
         /\ MSynCurrent(st.c)[p] = {IF d \div D < n THEN Response(st.c.syn.cf.sk, SElemHist(st.a, p.i, n - d \div D), D)
                                    ELSE Zero}
         /\ MSynSpike(st.c)[p] = {IF d \div D < n THEN st.a.hist[n - d \div D][p.i].s ELSE 0}

\* all delays 0 (or no delay argument at all): indistinguishable from the undelayed connection
ZeroDelayEq ==
  (\A r \in st.c.d : r.d = 0) =>
     /\ \A p \in Pairs(st.c.geo, I0, O0) :
          /\ MSynCurrent(st.c)[p] = {SCurrent(st.c.syn)[p.i]}
          /\ MSynSpike(st.c)[p] = {Latest(st.c.syn.spk)[p.i]}
     /\ \A o \in MutOps(st) : o.a = "step" =>
          {x.ret : x \in CStep(st.c, o.v)} = {x.ret : x \in CStep([st.c EXCEPT !.delayed = FALSE], o.v)}

EState(s) == [c |-> s.c, h |-> s.a.hist]
Emit == PrintT(ToJson(
  [s |-> EState(st),
   mut |-> {[op |-> o, res |-> {[st |-> EState(x.st), ret |-> x.ret] : x \in Apply(st, o)}] : o \in MutOps(st)},
   qry |-> {[op |-> o, rets |-> {x.ret : x \in CApply(st.c, o)}] : o \in QueryOps(st)}]))
=============================================================================
