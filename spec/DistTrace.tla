------------------------------ MODULE DistTrace ------------------------------
(***************************************************************************)
(* C20, distributions (direction B only, deliberately weak: TLA+ has no    *)
(* reals or transcendental functions).  The harness evaluates the REAL     *)
(* inferno.stats functions on a dense grid and logs the values quantised   *)
(* to integers (quantum 1/Q); where a law needs exp of an implementation   *)
(* output the harness applies exp in float64 and logs the result as its    *)
(* own field.  This module states the laws as integer relations with       *)
(* explicit slack and TLC checks every logged event against them.          *)
(*                                                                         *)
(* One trace per distribution, one event per parameter set:                *)
(*  op  [a |-> "poisson", K]            support 0..K                       *)
(*      [a |-> "normal" / "lognormal", n, hd, sub]   STANDARDISED grid     *)
(*          z_i = (i - n/2)/hd, x = loc + scale z (ln x for lognormal),    *)
(*          moments on every sub-th point                                  *)
(*  ret [errs |-> <<functions that raised>>, nonfinite |-> <<functions     *)
(*          that returned NaN / inf>>  (clauses Total, Finite),            *)
(*       den  |-> Q*density (continuous: density of z = pdf * scale [* x]),*)
(*       eld  |-> Q*exp(logdensity) (same scaling),                        *)
(*       cdf  |-> Q*cdf,  elc |-> Q*exp(logcdf),                           *)
(*       denb, cdfb |-> the same values obtained from ONE call with tensor *)
(*          parameters broadcast over all parameter sets of the trace,     *)
(*       mean, var |-> poisson: Q*mean, Q*variance (meanb: tensor call);   *)
(*          normal: Q*(mean - loc)/scale, Q*variance/scale^2,              *)
(*       rtloc, rtscale |-> Q*(loc' - loc)/scale, Q*scale'/scale for       *)
(*          (loc', scale') = params_mv(mean, variance)  (continuous),      *)
(*       m1r, m2r |-> lognormal: Q * (moment of the logged density by      *)
(*          float64 quadrature in the harness) / (stated mean, variance)]  *)
(***************************************************************************)
EXTENDS Integers, Sequences, FiniteSets, SequencesExt, Json, IOUtils, TLC, TLCExt

Traces == JsonDeserialize(IOEnv.TRACE_FILE)

VARIABLES tid, l, st
vars == <<tid, l, st>>

NT == Len(Traces)
Evs(t) == Traces[t].ev
MaxI(a, b) == IF a >= b THEN a ELSE b
MinI(a, b) == IF a <= b THEN a ELSE b
AbsV(x) == IF x >= 0 THEN x ELSE -x
Waived(t) == {Traces[t].hdr.waive[i] : i \in DOMAIN Traces[t].hdr.waive}
Q == 1000000

ASSUME \A i \in 1..NT : TLCSet(100 + i, 0)

CAP == 2000000000
\* saturating arithmetic: TLC integers are 32 bit and an implementation that violates the laws
\* may log values for which the plain sums would overflow
SatAdd(x, y) == IF y > 0 /\ x > CAP - y THEN CAP ELSE IF y < 0 /\ x < (-CAP) - y THEN -CAP ELSE x + y
SafeMul(a, b) == \* a >= 0
  IF b = 0 \/ a = 0 THEN 0 ELSE IF a > CAP \div AbsV(b) THEN (IF b > 0 THEN CAP ELSE -CAP) ELSE a * b
Sum(f(_), lo, hi) == IF lo > hi THEN 0 ELSE FoldLeft(SatAdd, 0, [i \in 1..(hi - lo + 1) |-> f(lo + i - 1)])
InRange(seq, lo, hi) == \A i \in 1..Len(seq) : lo <= seq[i] /\ seq[i] <= hi

Close(x, y, abs, relppm) == AbsV(x - y) <= abs + (MaxI(AbsV(x), AbsV(y)) \div 1000000) * relppm

(***************************************************************************)
(* Poisson: support k = 0..K (arrays are 1-based: index k+1)               *)
(***************************************************************************)
PoissonRange(o, r) ==
  /\ Len(r.den) = o.K + 1 /\ Len(r.eld) = o.K + 1 /\ Len(r.cdf) = o.K + 1 /\ Len(r.elc) = o.K + 1
  /\ InRange(r.den, 0, 2 * Q) /\ InRange(r.eld, 0, 2 * Q) /\ InRange(r.cdf, 0, 2 * Q) /\ InRange(r.elc, 0, 2 * Q)
  /\ Len(r.denb) = o.K + 1 /\ Len(r.cdfb) = o.K + 1 /\ InRange(r.denb, 0, 2 * Q) /\ InRange(r.cdfb, 0, 2 * Q)
  /\ 0 <= r.mean /\ r.mean <= 40 * Q /\ 0 <= r.var /\ r.var <= 400 * Q
PoissonFailing(o, r) ==
  LET K == o.K
      pmf(k) == r.den[k + 1]
      cdf(k) == r.cdf[k + 1]
      kp(k) == k * pmf(k)
      kkp(k) == k * k * pmf(k)
      mm == r.mean \div 1000                     \* mean in 1/1000 (rates are multiples of 1/8)
  IN (IF \E k \in 0..K : ~Close(r.eld[k + 1], pmf(k), 2, 5) THEN {"ExpLogDensity"} ELSE {})
     \cup (IF \E k \in 0..K : AbsV(Sum(pmf, 0, k) - cdf(k)) > k + 8 THEN {"DensitySumsToCdf"} ELSE {})
     \cup (IF \E k \in 1..K : AbsV(cdf(k) - cdf(k - 1) - pmf(k)) > 4 THEN {"CdfIncrements"} ELSE {})
     \cup (IF AbsV(Sum(pmf, 0, K) - Q) > K + 8 THEN {"SumsToOne"} ELSE {})
     \cup (IF \E k \in 0..K : ~Close(r.elc[k + 1], cdf(k), 3, 5) THEN {"LogCdf"} ELSE {})
     \cup (IF AbsV(Sum(kp, 0, K) - r.mean) > (K * K) \div 2 + 50 THEN {"Mean"} ELSE {})
     \cup (IF AbsV(Sum(kkp, 0, K) - (r.var + mm * mm)) > (K * K * K) \div 4 + 2000 THEN {"Variance"} ELSE {})
     \cup (IF (\E k \in 0..K : AbsV(r.denb[k + 1] - pmf(k)) > 1 \/ AbsV(r.cdfb[k + 1] - cdf(k)) > 1) \/ AbsV(r.meanb - r.mean) > 1
           THEN {"BroadcastConsistent"} ELSE {})

(***************************************************************************)
(* Continuous: grid points i = 0..n, spacing 1/hd, centred on the location *)
(***************************************************************************)
ContRange(o, r) ==
  /\ o.hd <= 128 /\ o.n <= 512 /\ o.hd % o.sub = 0 /\ o.n % o.sub = 0
  /\ Len(r.den) = o.n + 1 /\ Len(r.eld) = o.n + 1 /\ Len(r.cdf) = o.n + 1 /\ Len(r.elc) = o.n + 1
  /\ InRange(r.den, 0, 5 * Q) /\ InRange(r.eld, 0, 5 * Q) /\ InRange(r.cdf, 0, 2 * Q) /\ InRange(r.elc, 0, 2 * Q)
  /\ Len(r.denb) = o.n + 1 /\ Len(r.cdfb) = o.n + 1 /\ InRange(r.denb, 0, 5 * Q) /\ InRange(r.cdfb, 0, 2 * Q)
  /\ AbsV(r.mean) <= Q /\ 0 <= r.var /\ r.var <= 1000 * Q
  /\ AbsV(r.rtloc) <= 1000 * Q /\ AbsV(r.rtscale) <= 1000 * Q
  /\ AbsV(r.m1r) <= 1000 * Q /\ AbsV(r.m2r) <= 1000 * Q
ContFailing(o, r) ==
  LET n == o.n
      hd == o.hd
      den(i) == r.den[i + 1]
      cdf(i) == r.cdf[i + 1]
      trap(i) == den(i) + den(i + 1)                    \* 2 * hd * (trapezoid over cell i)
      \* moments on the coarser grid j = 0..n/sub (spacing sub/hd), centred
      ns == n \div o.sub
      off(j) == j - ns \div 2
      sden(j) == r.den[j * o.sub + 1]
      s1(j) == off(j) * sden(j)
      s2(j) == SafeMul(off(j) * off(j), sden(j))
      hs == hd \div o.sub                               \* 1 / coarse spacing
      moments == (IF AbsV(r.m1r - Q) > 300 THEN {"Mean"} ELSE {}) \cup (IF AbsV(r.m2r - Q) > 1000 THEN {"Variance"} ELSE {})
  IN IF o.narrow = 1
     \* narrow log-normal (scale < 2^-6): the float32 grid x = exp(loc + scale z) cannot carry the density / CDF laws to
     \* the quantum; what is decided there is that the STATED mean and variance are the moments of the density (the
     \* variance (exp(scale^2) - 1) exp(2 loc + scale^2) must not lose its digits to cancellation)
     THEN moments \cup (IF \E i \in 0..(n - 1) : cdf(i + 1) < cdf(i) THEN {"CdfMonotone"} ELSE {})
     ELSE
     (IF \E i \in 0..n : ~Close(r.eld[i + 1], den(i), 3, 8) THEN {"ExpLogDensity"} ELSE {})
     \cup (IF \E i \in 0..(n - 1) : AbsV(trap(i) - 2 * hd * (cdf(i + 1) - cdf(i))) > 2 * hd * 14
           THEN {"DensityIntegratesToCdf"} ELSE {})
     \cup (IF \E i \in 0..(n - 1) : cdf(i + 1) < cdf(i) THEN {"CdfMonotone"} ELSE {})
     \cup (IF cdf(0) > 2 \/ cdf(n) < Q - 2 \/ AbsV(Sum(trap, 0, n - 1) - 2 * hd * Q) > 2 * hd * (n \div 4 + 40)
           THEN {"IntegratesToOne"} ELSE {})
     \cup (IF \E i \in 0..n : ~Close(r.elc[i + 1], cdf(i), 3, 8) THEN {"LogCdf"} ELSE {})
     \cup (IF AbsV(r.rtloc) > 40 \/ AbsV(r.rtscale - Q) > 40 THEN {"MeanVarianceRoundTrip"} ELSE {})
     \cup (IF \E i \in 0..n : AbsV(r.denb[i + 1] - den(i)) > 1 \/ AbsV(r.cdfb[i + 1] - cdf(i)) > 1
           THEN {"BroadcastConsistent"} ELSE {})
     \cup (IF o.a = "normal"
           THEN \* first moment about loc: SUM off * den / hs^2 ; second: SUM off^2 * den / hs^3
                \* slack = worst-case quantisation of the sum + tolerance of the law
                (IF AbsV(Sum(s1, 0, ns) - hs * hs * r.mean) > (ns * ns) \div 4 + hs * hs * 40 THEN {"Mean"} ELSE {})
                \cup (IF AbsV(Sum(s2, 0, ns) - SafeMul(hs * hs * hs, r.var)) > (ns * ns * ns) \div 12 + hs * hs * hs * (MinI(r.var, 20 * Q) \div 2000 + 40)
                      THEN {"Variance"} ELSE {})
           ELSE moments)

Failing(e) ==
  IF Len(e.ret.errs) > 0 THEN {"Total"}
  ELSE IF Len(e.ret.nonfinite) > 0 THEN {"Finite"}      \* a NaN / inf observation is a rejection, never a number
  ELSE IF e.op.a = "poisson"
       THEN IF PoissonRange(e.op, e.ret) THEN PoissonFailing(e.op, e.ret) ELSE {"Range"}
       ELSE IF ContRange(e.op, e.ret) THEN ContFailing(e.op, e.ret) ELSE {"Range"}

Init == tid \in 1..NT /\ l = 1 /\ st = 0
Step == /\ l <= Len(Evs(tid))
        /\ (l \in Waived(tid) \/ Failing(Evs(tid)[l]) = {})
        /\ l' = l + 1 /\ st' = st + 1 /\ UNCHANGED tid
TraceSpec == Init /\ [][Step]_vars

Track ==
  /\ TLCSet(100 + tid, MaxI(TLCGet(100 + tid), l))
  /\ IF l <= Len(Evs(tid)) /\ ~(l \in Waived(tid)) /\ Failing(Evs(tid)[l]) # {}
     THEN PrintT(ToJson([diag |-> tid, l |-> l, clauses |-> Failing(Evs(tid)[l]),
                         errs |-> Evs(tid)[l].ret.errs \o Evs(tid)[l].ret.nonfinite]))
     ELSE TRUE

Post ==
  PrintT(ToJson([rejected |-> {<<i, TLCGet(100 + i)>> : i \in {j \in 1..NT : TLCGet(100 + j) <= Len(Evs(j))}},
                 total |-> NT]))
=============================================================================
