---------------------------- MODULE EncoderCfgMC ----------------------------
(***************************************************************************)
(* The configuration machine of the encoders: every history of property    *)
(* setters (steps, dt, refrac incl. None, frequency, compensated).  The    *)
(* state is the configuration record of EncoderCore.  Emit prints the      *)
(* outcome table of every reachable configuration; the harness executes    *)
(* every edge on a real encoder object (direction A).                      *)
(***************************************************************************)
EXTENDS EncoderCore, TLC, Json

CONSTANTS
  Kind0, S0, D0, R0, Derive0, M0, Comp0,   \* initial configuration (constructor arguments)
  SVals, DVals, RVals, MVals,              \* values offered to the setters
  MaxDepth

VARIABLE st
vars == <<st>>

Init0 == [kind |-> Kind0, S |-> S0, D |-> D0, r |-> IF Derive0 THEN D0 ELSE R0, derive |-> Derive0,
          M |-> M0, comp |-> Comp0]

Ops(c) ==
  {[a |-> "set_steps", n |-> n] : n \in SVals \cup {0}}
  \cup {[a |-> "set_dt", D |-> d] : d \in DVals \cup {0}}
  \cup {[a |-> "set_freq", M |-> m] : m \in MVals \cup {-1}}
  \cup (IF HasRefrac(c)
        THEN {[a |-> "set_refrac", r |-> r] : r \in RVals \cup {-1, -2}}
             \cup {[a |-> "set_comp", b |-> b] : b \in BOOLEAN}
        ELSE {})

Init == st = Init0
Next == \E o \in Ops(st) : \E mo \in CApply(st, o) : st' = mo.st
Spec == Init /\ [][Next]_vars
Bounded == TLCGet("level") <= MaxDepth

TypeOK ==
  /\ st.kind \in {"exp", "bern", "pint"}
  /\ st.S >= 1 /\ st.D >= 1 /\ st.r >= 0 /\ st.M >= 1
  /\ st.derive \in BOOLEAN /\ st.comp \in BOOLEAN
  /\ (~HasRefrac(st) => st.r = 0 /\ ~st.derive /\ ~st.comp)

\* refrac = None pins the refractory period to the step time through every later dt change
DeriveTracksDt == st.derive => st.r = st.D

\* a setter that tests the frequency/refractory compatibility and accepts leaves a compatible
\* configuration (set_dt does not test: with a derived refractory period it can leave the
\* compensated rate above 1000/refrac - outside the property's quantifier, see notes)
CheckedSettersCompat ==
  \A o \in Ops(st) : o.a \in {"set_refrac", "set_freq", "set_comp"} =>
     \A mo \in CApply(st, o) : (mo.ret.t = "ok" /\ mo.st.comp) => Compat(mo.st.r, mo.st.M)

\* setters are deterministic (except the named deviation on a refused negative refrac)
Deterministic == \A o \in Ops(st) : (o.a = "set_refrac" /\ o.r < -1) \/ Cardinality(CApply(st, o)) = 1

Emit == PrintT(ToJson([s |-> st, out |-> {[op |-> o, res |-> CApply(st, o)] : o \in Ops(st)}]))
=============================================================================
