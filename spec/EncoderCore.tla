----------------------------- MODULE EncoderCore -----------------------------
(***************************************************************************)
(* Spike encoders of inferno (C19).                                        *)
(*                                                                         *)
(* Three encoder classes are specified:                                    *)
(*   "exp"   HomogeneousPoissonEncoder       exponential intervals + refrac *)
(*   "bern"  HomogeneousPoissonApproxEncoder one Bernoulli draw per step    *)
(*   "pint"  PoissonIntervalEncoder          Poisson-distributed intervals  *)
(*                                                                         *)
(* Time is counted in ticks (an arbitrary fixed real duration chosen by    *)
(* the harness).  A configuration is a record                              *)
(*    [kind, S, D, r, derive, M, comp]                                     *)
(*   S      number of steps of a spike train                               *)
(*   D      step time in ticks                                             *)
(*   r      refractory period in ticks ("exp" only, otherwise 0)           *)
(*   derive the refractory period is pinned to the step time (refrac=None) *)
(*   M      expected inter-spike interval at intensity 1, in ticks         *)
(*          (frequency = 1000 / (M * tick) Hz)                             *)
(*   comp   the rate is compensated for the refractory period              *)
(*                                                                         *)
(* Two layers:                                                             *)
(*  Abs  - the property's vocabulary: predicates over a finished raster    *)
(*         (AbsLength, AbsSilent, AbsMinGap, AbsMaxRate).                  *)
(*  Mech - the algorithm the code uses.  The only randomness is the        *)
(*         *schedule*: the sequence of interval draws (resolution: one     *)
(*         tick, i.e. a fraction 1/D of a step, D = 2 is the half-step     *)
(*         resolution) or of per-step Bernoulli outcomes.  Offline: the    *)
(*         positions are the cumulative sums of the draws, floored to a    *)
(*         step, clamped to S, scattered, and the spill-over row is        *)
(*         trimmed.  Online: a count-down per element, redrawn at a spike. *)
(*         EncInit / EncNext / EncDone / EncRaster expose the schedule one *)
(*         draw at a time so that TLC explores ALL schedules (EncoderMC)   *)
(*         or SEARCHES for a schedule explaining a recorded raster         *)
(*         (EncoderTrace; the draws are not logged).                       *)
(***************************************************************************)
EXTENDS Integers, Sequences, FiniteSets

Min(a, b) == IF a <= b THEN a ELSE b
Max(a, b) == IF a >= b THEN a ELSE b

(***************************************************************************)
(* Configuration and its setters (one operator per public property setter) *)
(***************************************************************************)
HasRefrac(c) == c.kind = "exp"
Multiple(c) == c.r % c.D = 0               \* refrac is a multiple of the step time
Compat(r, M) == r < M                      \* frequency * refrac < 1000
\* the configurations the property quantifies over
Sane(c) == HasRefrac(c) => (Multiple(c) /\ (c.comp => Compat(c.r, c.M)))

Ok(c) == {[st |-> c, ret |-> [t |-> "ok"]]}
Err(c, e) == {[st |-> c, ret |-> [t |-> "err", e |-> e]]}

\* o.r = -1 stands for None; o.M = -1 for a negative frequency
CApply(c, o) ==
  CASE o.a = "set_steps" ->
         IF o.n >= 1 THEN Ok([c EXCEPT !.S = o.n]) ELSE Err(c, "ValueError")
    [] o.a = "set_dt" ->
         IF o.D >= 1 THEN Ok([c EXCEPT !.D = o.D, !.r = IF c.derive THEN o.D ELSE c.r])
         ELSE Err(c, "ValueError")
    [] o.a = "set_refrac" ->
         LET eff == IF o.r = -1 THEN c.D ELSE o.r IN
         IF o.r < -1
         THEN \* named deviation RefusedRefracUnpins: the code clears the "pinned to dt" flag
              \* before it validates the value; C19 says nothing about refused calls, so both
              \* outcomes are admitted
              Err(c, "ValueError") \cup Err([c EXCEPT !.derive = FALSE], "ValueError")
         ELSE IF c.comp /\ ~Compat(eff, c.M) THEN Err(c, "ValueError")
         ELSE Ok([c EXCEPT !.r = eff, !.derive = (o.r = -1)])
    [] o.a = "set_freq" ->
         IF o.M < 1 THEN Err(c, "ValueError")
         ELSE IF HasRefrac(c) /\ c.comp /\ ~Compat(c.r, o.M) THEN Err(c, "ValueError")
         ELSE Ok([c EXCEPT !.M = o.M])
    [] o.a = "set_comp" ->
         IF o.b /\ ~Compat(c.r, c.M) THEN Err(c, "ValueError")
         ELSE Ok([c EXCEPT !.comp = o.b])

(***************************************************************************)
(* Abs: what the property says about a finished raster (a sequence of 0/1, *)
(* one entry per step, for one element whose intensity class is xc)        *)
(*   xc: "zero" intensity exactly 0;  "pos" anything positive;  "tiny"      *)
(*       ("pint" only) positive but with an expected interval beyond 10^9  *)
(*       steps: a Poisson variate with that mean exceeds any horizon;      *)
(*       for "bern" also "one" (probability clamps to 1) and "near"        *)
(*       (probability within rounding of 1: outcome left open)             *)
(***************************************************************************)
Spikes(ras) == {i \in 1..Len(ras) : ras[i] = 1}
AbsLength(c, ras) == Len(ras) = c.S /\ \A i \in 1..Len(ras) : ras[i] \in {0, 1}
AbsSilent(xc, ras) == xc = "zero" => Spikes(ras) = {}
\* extension clause NoForcedSpike: a rate whose expected interval dwarfs the horizon gives no spike
AbsNoForced(xc, ras) == xc = "tiny" => Spikes(ras) = {}
\* two spikes of one element are never closer than the refractory period
GapOK(c, ras) == \A i, j \in Spikes(ras) : i < j => (j - i) * c.D >= c.r
AbsMinGap(c, ras) == HasRefrac(c) => GapOK(c, ras)
AbsSaturated(c, xc, ras) == (c.kind = "bern" /\ xc = "one") => Spikes(ras) = 1..Len(ras)
AbsOK(c, xc, ras) == AbsLength(c, ras) /\ AbsSilent(xc, ras) /\ AbsNoForced(xc, ras) /\ AbsMinGap(c, ras) /\ AbsSaturated(c, xc, ras)

(***************************************************************************)
(* Mech: the schedules                                                     *)
(***************************************************************************)
Unit(c) == IF c.kind = "exp" THEN c.D ELSE 1          \* draw units per step
INF(c) == Unit(c) * (c.S + 2)                         \* "beyond the horizon" (also: infinite)

\* one interval draw.  exp: refrac + Exp(1) * scale, scale = M/x - r (compensated) or M/x:
\* at least r, unbounded; infinite at zero intensity; when the compensated scale is not
\* positive (documented as "nonsensical") the draw is at most r.
\* pint: a Poisson variate, zero at zero rate; offline zero draws at positive rate are
\* bumped to 1.
Draws(c, xc, online) ==
  IF c.kind = "exp"
  THEN IF xc = "zero" THEN {INF(c)}
       ELSE IF c.comp /\ ~Compat(c.r, c.M) THEN 0..c.r
       ELSE Min(c.r, INF(c))..INF(c)      \* every draw beyond the horizon is represented by INF
  ELSE IF xc = "zero" THEN {0}
       ELSE IF xc = "tiny" THEN {INF(c)}
       ELSE (IF online THEN 0 ELSE 1)..INF(c)

\* number of draws per element of the offline encoders
NDraws(c) ==
  IF c.kind = "exp"
  THEN IF c.r <= c.D THEN c.S ELSE (c.S * c.D) \div c.r     \* int(steps // max(refrac/dt, 1))
  ELSE c.S + 2

\* ---- offline: cumulative sum, floor, clamp to S, scatter, trim
\* exp: clamp to row S (dropped);  pint: the scatter target has S + 2 rows, row 0 (zero-rate
\* elements) and row S + 1 (everything beyond the horizon) are dropped
Row(c, cum) == IF c.kind = "exp" THEN Min(cum \div Unit(c), c.S) ELSE Min(cum, c.S + 1)
OffInit(c) == [m |-> "off", cum |-> 0, k |-> 0, pos |-> 0, hits |-> {}]
OffPlace(c, e, d) ==
  LET cum2 == Min(e.cum + d, INF(c)) IN
  [m |-> "off", cum |-> cum2, k |-> e.k + 1, pos |-> Row(c, cum2), hits |-> e.hits \cup {Row(c, cum2)}]
OffNext(c, xc, e) == {OffPlace(c, e, d) : d \in Draws(c, xc, FALSE)}
\* rows kept after trimming: exp rows 0..S-1 (row S collects the spill-over and is dropped);
\* pint rows 1..S.  (The code used to clamp to row S, which is kept: every positive-rate element
\* then spiked at the last step whatever its rate - defect D33, repaired by clamping to S + 1.)
Shift(c) == IF c.kind = "exp" THEN 1 ELSE 0
OffRaster(c, e) == [i \in 1..c.S |-> IF (i - Shift(c)) \in e.hits THEN 1 ELSE 0]

\* ---- online: count-down, redraw at a spike
OnInit(c, xc) == {[m |-> "on", I |-> d, t |-> 0, ras |-> <<>>] : d \in Draws(c, xc, TRUE)}
OnNext(c, xc, e) ==
  LET I1 == e.I - Unit(c)
      spk == I1 < Unit(c) /\ (c.kind = "pint" => xc # "zero")
  IN IF spk THEN {[m |-> "on", I |-> d, t |-> e.t + 1, ras |-> Append(e.ras, 1)] : d \in Draws(c, xc, TRUE)}
     ELSE {[m |-> "on", I |-> I1, t |-> e.t + 1, ras |-> Append(e.ras, 0)]}

\* ---- Bernoulli approximation: one draw per step against the clamped probability
BDraws(xc) == CASE xc = "zero" -> {0} [] xc = "one" -> {1} [] OTHER -> {0, 1}
BInit == [m |-> "bern", t |-> 0, ras |-> <<>>]
BNext(xc, e) == {[m |-> "bern", t |-> e.t + 1, ras |-> Append(e.ras, b)] : b \in BDraws(xc)}

\* ---- uniform interface
EncInit(c, xc, online) ==
  IF c.kind = "bern" THEN {BInit} ELSE IF online THEN OnInit(c, xc) ELSE {OffInit(c)}
EncDone(c, e) == IF e.m = "off" THEN e.k = NDraws(c) ELSE e.t = c.S
EncNext(c, xc, e) ==
  CASE e.m = "off" -> OffNext(c, xc, e)
    [] e.m = "on" -> OnNext(c, xc, e)
    [] e.m = "bern" -> BNext(xc, e)
EncRaster(c, e) == IF e.m = "off" THEN OffRaster(c, e) ELSE e.ras

\* A partial schedule can still produce the target raster.  Offline positions never
\* decrease (lemma Monotone, checked by TLC in EncoderMC), so a target spike that has
\* been passed must already have been hit.
Viable(c, e, target) ==
  IF e.m = "off"
  THEN /\ \A h \in e.hits : (h + Shift(c)) \in 1..c.S => target[h + Shift(c)] = 1
       /\ \A i \in 1..c.S : (target[i] = 1 /\ i - Shift(c) < e.pos) => (i - Shift(c)) \in e.hits
  ELSE /\ Len(e.ras) <= Len(target)
       /\ \A i \in 1..Len(e.ras) : e.ras[i] = target[i]

=============================================================================
