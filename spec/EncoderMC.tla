------------------------------ MODULE EncoderMC ------------------------------
(***************************************************************************)
(* Exhaustive exploration of ALL schedules (interval-draw sequences /      *)
(* Bernoulli outcomes) of the encoders for every configuration in a small  *)
(* family, one element at a time (elements never interact: the algorithm   *)
(* is element-wise).  A behaviour picks a configuration, an intensity      *)
(* class and online/offline, then one draw per transition.  The property's *)
(* clauses are invariants of the finished rasters.                         *)
(***************************************************************************)
EXTENDS EncoderCore, TLC, Json

CONSTANTS
  KindSet,     \* subset of {"exp", "bern", "pint"}
  SSet,        \* step counts
  DSet,        \* step times in ticks
  RSet,        \* refractory periods in ticks ("exp")
  MSet,        \* expected interval at intensity 1, in ticks
  CompSet,     \* compensation flags offered
  OnSet,       \* online flags offered
  OnlySane     \* TRUE: only configurations inside the property's quantifier

VARIABLE st
vars == <<st>>

Configs ==
  {c \in [kind : KindSet, S : SSet, D : DSet, r : RSet \cup {0}, derive : {FALSE}, M : MSet, comp : CompSet \cup {FALSE}] :
      /\ (c.kind = "exp" => c.r \in RSet /\ c.comp \in CompSet)
      /\ (c.kind # "exp" => c.r = 0 /\ c.comp = FALSE)
      /\ (OnlySane => Sane(c))}

XCs(c) == CASE c.kind = "bern" -> {"zero", "frac", "one"} [] c.kind = "pint" -> {"zero", "pos", "tiny"} [] OTHER -> {"zero", "pos"}

Init == \E c \in Configs : \E xc \in XCs(c) : \E on \in OnSet : \E e \in EncInit(c, xc, on) :
          st = [cfg |-> c, xc |-> xc, on |-> on, enc |-> e]

Next == /\ ~EncDone(st.cfg, st.enc)
        /\ \E e2 \in EncNext(st.cfg, st.xc, st.enc) : st' = [st EXCEPT !.enc = e2]

Spec == Init /\ [][Next]_vars

Final == EncDone(st.cfg, st.enc)
Ras == EncRaster(st.cfg, st.enc)

(***************************************************************************)
(* The clauses of C19 over every schedule                                  *)
(***************************************************************************)
Length == Final => AbsLength(st.cfg, Ras)
SilentAtZero == Final => AbsSilent(st.xc, Ras)
NoForcedSpike == Final => AbsNoForced(st.xc, Ras)
\* inside the quantifier (refrac None / dt / k*dt, frequency*refrac < 1000 when compensated)
MinGap == (Final /\ Sane(st.cfg)) => AbsMinGap(st.cfg, Ras)
\* the same clause without the guard: TLC refutes it for refractory periods that are not a
\* multiple of the step time and for compensated rates above 1000/refrac ("shows why")
MinGapUnguarded == Final => AbsMinGap(st.cfg, Ras)
Saturated == Final => AbsSaturated(st.cfg, st.xc, Ras)
\* partial rasters already obey the gap (a spike is never retracted)
PrefixGap == (Sane(st.cfg) /\ st.enc.m = "on") => AbsMinGap(st.cfg, st.enc.ras)

\* lemma used by the trace specification's pruning: offline positions never decrease
Monotone == (st.enc.m = "off" /\ ~Final) =>
              \A e2 \in EncNext(st.cfg, st.xc, st.enc) : e2.pos >= st.enc.pos /\ st.enc.hits \subseteq e2.hits
\* the pruning never cuts a schedule that ends in the raster it is pruned for
ViableSound == Final => Viable(st.cfg, st.enc, Ras)

(***************************************************************************)
(* Tightness (non-vacuity of Mech): offline exponential encoder, sane      *)
(* configuration, positive intensity: EVERY raster that obeys the gap and  *)
(* whose first spike is not earlier than the refractory period is produced *)
(* by some schedule (the witness: one draw per gap).  Evaluated once per   *)
(* configuration, at the initial states.                                   *)
(***************************************************************************)
RECURSIVE RunOff(_, _, _)
RunOff(c, e, ds) == IF ds = <<>> THEN e ELSE RunOff(c, OffPlace(c, e, Head(ds)), Tail(ds))

RECURSIVE Witness(_, _, _, _)
\* draws hitting the spikes of ras from step i on, the previous position being row prev
Witness(c, ras, i, prev) ==
  IF i > c.S THEN <<>>
  ELSE IF ras[i] = 1 THEN <<((i - 1) - prev) * c.D>> \o Witness(c, ras, i + 1, i - 1)
  ELSE Witness(c, ras, i + 1, prev)

RECURSIVE PWitness(_, _, _, _)
\* pint: raster index i is row i; one draw per gap
PWitness(c, ras, i, prev) ==
  IF i > c.S THEN <<>>
  ELSE IF ras[i] = 1 THEN <<i - prev>> \o PWitness(c, ras, i + 1, i) ELSE PWitness(c, ras, i + 1, prev)

Pad(c, ds) == ds \o [j \in 1..(NDraws(c) - Len(ds)) |-> INF(c)]

AllRasters(S) == [1..S -> {0, 1}]
Complete ==
  (TLCGet("level") = 1 /\ st.cfg.kind = "exp" /\ ~st.on /\ st.xc = "pos" /\ Sane(st.cfg)) =>
     \A ras \in AllRasters(st.cfg.S) :
        LET c == st.cfg
            first == IF Spikes(ras) = {} THEN c.S + 1 ELSE CHOOSE i \in Spikes(ras) : \A j \in Spikes(ras) : i <= j
            allowed == GapOK(c, ras) /\ (Spikes(ras) # {} => (first - 1) * c.D >= c.r)
                       /\ (c.r = 0 => TRUE)
        IN allowed =>
             LET w == Witness(c, ras, 1, 0) IN
             /\ Len(w) <= NDraws(c)
             /\ \A j \in 1..Len(w) : w[j] \in Draws(c, "pos", FALSE)
             /\ OffRaster(c, RunOff(c, OffInit(c), Pad(c, w))) = ras

\* tightness of the offline Poisson-interval schedules: every raster is reachable at a positive
\* rate (in particular the last step is not forced to spike)
PintComplete ==
  (TLCGet("level") = 1 /\ st.cfg.kind = "pint" /\ ~st.on /\ st.xc = "pos") =>
     \A ras \in [1..st.cfg.S -> {0, 1}] :
        LET c == st.cfg
            w == PWitness(c, ras, 1, 0)
            pad == w \o [j \in 1..(NDraws(c) - Len(w)) |-> INF(c)]
        IN /\ Len(w) <= NDraws(c)
           /\ \A j \in 1..Len(w) : w[j] \in Draws(c, "pos", FALSE)
           /\ OffRaster(c, RunOff(c, OffInit(c), pad)) = ras

\* every finished raster, for the tightness report of the harness (which rasters the real
\* encoder was seen to produce among those the specification allows)
EmitFinal == Final => PrintT(ToJson([cfg |-> st.cfg, xc |-> st.xc, on |-> st.on, ras |-> Ras]))
=============================================================================
