---------------------------- MODULE EncoderTrace ----------------------------
(***************************************************************************)
(* Trace specification for encoder executions recorded from the real       *)
(* implementation (direction B).  The random schedule (interval draws /    *)
(* Bernoulli outcomes) is NOT logged: for every encode event TLC searches, *)
(* element by element and draw by draw, for a schedule of the specified    *)
(* algorithm that produces the logged raster.  A trace is rejected at an   *)
(* event when no schedule explains it (spike at zero intensity, gap below  *)
(* the refractory period, wrong number of slices, ...), when a setter      *)
(* returns something else than CApply says, or when the same generator     *)
(* state, configuration and input did not reproduce the same raster.       *)
(*                                                                         *)
(* Events:                                                                 *)
(*   [op |-> [a |-> "set_*", ...],  ret |-> [t |-> "ok"] / [t |-> "err", e |-> ..], st |-> [cfg, gen]] *)
(*   [op |-> [a |-> "restore_gen", g |-> id], ret |-> [t |-> "ok"], st]   *)
(*   [op |-> [a |-> "encode", online, xid, xshape, xc |-> <<class per element>>], *)
(*    ret |-> [t |-> "ras", n |-> slices, shape |-> slice shape, dty, r |-> <<0/1 per step>> per element], st] *)
(* gen is the harness' numbering of distinct torch.Generator states.       *)
(***************************************************************************)
EXTENDS EncoderCore, Json, IOUtils, TLC, TLCExt

Traces == JsonDeserialize(IOEnv.TRACE_FILE)

VARIABLES tid, l, st
vars == <<tid, l, st>>

NT == Len(Traces)
Evs(t) == Traces[t].ev
MaxI(a, b) == IF a >= b THEN a ELSE b
Waived(t) == {Traces[t].hdr.waive[i] : i \in DOMAIN Traces[t].hdr.waive}

ASSUME \A i \in 1..NT : TLCSet(100 + i, 0)

Idle == [m |-> "idle"]

Init == /\ tid \in 1..NT
        /\ l = 1
        /\ st = [cfg |-> Traces[tid].hdr.init.cfg, gen |-> Traces[tid].hdr.init.gen, memo |-> {}, enc |-> Idle]

\* ---- clauses decided when an encode event starts
NE(e) == Len(e.op.xc)
Key(s, e) == [g |-> s.gen, cfg |-> s.cfg, xid |-> e.op.xid, online |-> e.op.online]
IsRas(e) == e.ret.t = "ras"
ShapeOK(s, e) == /\ e.ret.n = s.cfg.S                      \* exactly `steps` slices, time first
                 /\ e.ret.shape = e.op.xshape              \* every slice has the input's shape
                 /\ e.ret.dty = "bool"
                 /\ Len(e.ret.r) = NE(e)
                 /\ \A i \in 1..NE(e) : AbsLength(s.cfg, e.ret.r[i])
ReproOK(s, e) == \A m \in s.memo : m.key = Key(s, e) => (m.r = e.ret.r /\ m.g2 = e.st.gen)
\* the Abs clauses, evaluated for the diagnostic line (they are implied by the existence of
\* a schedule: invariants MinGap / SilentAtZero / Saturated of EncoderMC)
Failing(s, e) ==
  IF ~IsRas(e) THEN {"EncodeTotal"}
  ELSE IF ~ShapeOK(s, e) THEN {"Length"}
  ELSE (IF \E i \in 1..NE(e) : ~AbsSilent(e.op.xc[i], e.ret.r[i]) THEN {"SilentAtZero"} ELSE {})
       \cup (IF \E i \in 1..NE(e) : ~AbsNoForced(e.op.xc[i], e.ret.r[i]) THEN {"NoForcedSpike"} ELSE {})
       \cup (IF Sane(s.cfg) /\ \E i \in 1..NE(e) : ~AbsMinGap(s.cfg, e.ret.r[i]) THEN {"MinGap"} ELSE {})
       \cup (IF \E i \in 1..NE(e) : ~AbsSaturated(s.cfg, e.op.xc[i], e.ret.r[i]) THEN {"Saturated"} ELSE {})
       \cup (IF ~ReproOK(s, e) THEN {"Reproducible"} ELSE {})
StaticOK(s, e) == IsRas(e) /\ ShapeOK(s, e) /\ ReproOK(s, e) /\ e.st.cfg = s.cfg

\* ---- non-encode events
CApplyG(s, o) ==
  IF o.a = "restore_gen" THEN {[st |-> [s EXCEPT !.gen = o.g], ret |-> [t |-> "ok"]]}
  ELSE {[st |-> [s EXCEPT !.cfg = mo.st], ret |-> mo.ret] : mo \in CApply(s.cfg, o)}
MatchesG(s, e) == {mo \in CApplyG(s, e.op) : mo.ret = e.ret /\ mo.st.cfg = e.st.cfg /\ mo.st.gen = e.st.gen}

\* ---- the schedule search of an encode event
Starts(s, e, i) == {x \in EncInit(s.cfg, e.op.xc[i], e.op.online) : Viable(s.cfg, x, e.ret.r[i])}

EncodeStep(e) ==
  IF st.enc = Idle
  THEN /\ StaticOK(st, e)
       /\ \E x \in Starts(st, e, 1) : st' = [st EXCEPT !.enc = [i |-> 1, s |-> x]]
       /\ l' = l
  ELSE LET i == st.enc.i
           x == st.enc.s
       IN IF ~EncDone(st.cfg, x)
          THEN /\ \E x2 \in EncNext(st.cfg, e.op.xc[i], x) :
                     Viable(st.cfg, x2, e.ret.r[i]) /\ st' = [st EXCEPT !.enc = [i |-> i, s |-> x2]]
               /\ l' = l
          ELSE /\ EncRaster(st.cfg, x) = e.ret.r[i]
               /\ IF i < NE(e)
                  THEN /\ \E x2 \in Starts(st, e, i + 1) : st' = [st EXCEPT !.enc = [i |-> i + 1, s |-> x2]]
                       /\ l' = l
                  ELSE /\ st' = [st EXCEPT !.enc = Idle, !.gen = e.st.gen,
                                          !.memo = @ \cup {[key |-> Key(st, e), r |-> e.ret.r, g2 |-> e.st.gen]}]
                       /\ l' = l + 1

Step ==
  /\ l <= Len(Evs(tid))
  /\ LET e == Evs(tid)[l] IN
       IF l \in Waived(tid)
       THEN st' = [st EXCEPT !.cfg = e.st.cfg, !.gen = e.st.gen, !.enc = Idle] /\ l' = l + 1
       ELSE IF e.op.a = "encode" THEN EncodeStep(e)
       ELSE /\ \E mo \in MatchesG(st, e) : st' = mo.st
            /\ l' = l + 1
  /\ UNCHANGED tid

TraceSpec == Init /\ [][Step]_vars

Track ==
  /\ TLCSet(100 + tid, MaxI(TLCGet(100 + tid), l))
  /\ IF l <= Len(Evs(tid)) /\ ~(l \in Waived(tid)) /\ st.enc = Idle
     THEN LET e == Evs(tid)[l] IN
          IF e.op.a = "encode"
          THEN IF Failing(st, e) # {}
               THEN PrintT(ToJson([diag |-> tid, l |-> l, clauses |-> Failing(st, e), state |-> [cfg |-> st.cfg, gen |-> st.gen]]))
               ELSE TRUE
          ELSE IF MatchesG(st, e) = {}
               THEN PrintT(ToJson([diag |-> tid, l |-> l, clauses |-> {"SetterOK"},
                                   expected |-> {[ret |-> mo.ret, cfg |-> mo.st.cfg] : mo \in CApplyG(st, e.op)},
                                   state |-> [cfg |-> st.cfg, gen |-> st.gen]]))
               ELSE TRUE
     ELSE TRUE

Post ==
  PrintT(ToJson([rejected |-> {<<i, TLCGet(100 + i)>> : i \in {j \in 1..NT : TLCGet(100 + j) <= Len(Evs(j))}},
                 total |-> NT]))
=============================================================================
