------------------------------ MODULE HomeoCore ------------------------------
(***************************************************************************)
(* Extension (C09 anchors learn/trainers/homeostasis.py): the MAGNITUDE of *)
(* LinearHomeostasis.  C09 decides how its update is split into LTP / LTD  *)
(* parts; this module specifies what the update IS:                        *)
(*     weight:  dw = lambda (rT - r) / rT      per postsynaptic neuron,    *)
(*     bias  :  the same, per output with its own bias term,               *)
(*     delay :  dd = - lambda (rT - r) / rT                                *)
(* where r is the cumulative average of the neuron's spikes over the steps *)
(* the trainer has observed since it was last cleared.                     *)
(*                                                                         *)
(* Exact arithmetic: rates are carried multiplied by RS = 60 (= lcm 1..6,  *)
(* at most 6 observed steps), updates by US = 120 with lambda = 1/2 and    *)
(* 1/rT in {2, 4}:  US dw = 60 - 60 (1/rT) s / n   for s spikes in n steps.*)
(*                                                                         *)
(* Abs : the observed history h (one spike vector per observed step).      *)
(* Mech: what the code keeps: the CAReducer's count and running average    *)
(*       mu' = mu + (x - mu) / count, the clamp split                      *)
(*       pos = max(k, 0), neg = min(k, 0)   (named deviation               *)
(*       NegPartIsNegative: the LTD part is stored with its sign, known    *)
(*       finding D10 of C09 - reported there, modelled here as coded).     *)
(* Operations: step(y) one layer step with postsynaptic spikes y;          *)
(*   call(tinv) the trainer's forward with target 1/tinv (0: the default   *)
(*   of the cell); clear; mode(b) trainer.train(b).                        *)
(***************************************************************************)
EXTENDS Integers, Sequences, FiniteSets

CONSTANTS O,          \* postsynaptic neurons
          Param,      \* "weight" | "bias" | "delay"
          DefTinv     \* 1 / (default target rate)

RS == 60
US == 120
Neurons == 1..O

RECURSIVE SumH(_, _, _)
SumH(h, o, k) == IF k = 0 THEN 0 ELSE h[k][o] + SumH(h, o, k - 1)
Spikes(h, o) == SumH(h, o, Len(h))

Sgn == IF Param = "delay" THEN -1 ELSE 1

\* US * update of neuron o: lambda = 1/2, target 1/tinv, s spikes in n steps
AbsDelta(h, o, tinv) == Sgn * (60 - (60 * tinv * Spikes(h, o)) \div Len(h))
AbsExact(h, o, tinv) == (60 * tinv * Spikes(h, o)) % Len(h) = 0

MaxI(a, b) == IF a >= b THEN a ELSE b
MinI(a, b) == IF a <= b THEN a ELSE b

InitSt == [h |-> <<>>, cnt |-> 0, mu |-> [o \in Neurons |-> 0], training |-> TRUE]

\* CAReducer.fold: the first observation is taken as it is, then mu + (x - mu) / count
MFold(st, y) ==
  LET c == st.cnt + 1 IN
  [st EXCEPT !.cnt = c,
             !.mu = [o \in Neurons |-> IF st.cnt = 0 THEN RS * y[o] ELSE st.mu[o] + (RS * y[o] - st.mu[o]) \div c],
             !.h = Append(st.h, y)]
MFoldExact(st, y) == \A o \in Neurons : st.cnt = 0 \/ (RS * y[o] - st.mu[o]) % (st.cnt + 1) = 0

Out(st, r) == [st |-> st, ret |-> r]

\* LinearHomeostasis.forward: k = (target - rate) / target, times (-)plasticity, clamp split
\* sel: "all" (cells = None), "this" (cells = [the cell's name]), "other" (cells = [another name]: the cell is skipped)
MCall(st, tinv0, sel) ==
  LET tinv == IF tinv0 = 0 THEN DefTinv ELSE tinv0
      k(o) == Sgn * (60 - tinv * st.mu[o])           \* US * lambda * (1 - mu / rT)  with mu carried * RS
  IN IF ~st.training \/ sel = "other" THEN Out(st, [t |-> "skipped"])
     ELSE IF st.cnt = 0 THEN Out(st, [t |-> "raises"])              \* nothing observed yet: peek() is None
     ELSE Out(st, [t |-> "parts", pos |-> [o \in Neurons |-> MaxI(k(o), 0)], neg |-> [o \in Neurons |-> MinI(k(o), 0)]])

MApply(st, op) ==
  CASE op.a = "step" -> IF st.training THEN Out(MFold(st, op.y), [t |-> "ok"]) ELSE Out(st, [t |-> "ok"])
    [] op.a = "call" -> MCall(st, op.tinv, op.sel)
    [] op.a = "clear" -> Out([st EXCEPT !.h = <<>>, !.cnt = 0, !.mu = [o \in Neurons |-> 0]], [t |-> "ok"])
    [] op.a = "mode" -> Out([st EXCEPT !.training = op.b], [t |-> "ok"])

-----------------------------------------------------------------------------
\* the running average is the spike count over the number of observed steps
RateOK(st) == st.cnt = Len(st.h) /\ \A o \in Neurons : st.cnt > 0 => st.mu[o] * st.cnt = RS * Spikes(st.h, o)

\* the requested change is the documented one
RefinesAt(st, op) ==
  LET mo == MApply(st, op) IN
  (op.a = "call" /\ mo.ret.t = "parts") =>
     LET tinv == IF op.tinv = 0 THEN DefTinv ELSE op.tinv IN
     \A o \in Neurons :
        /\ AbsExact(st.h, o, tinv)
        /\ mo.ret.pos[o] + mo.ret.neg[o] = AbsDelta(st.h, o, tinv)
        /\ mo.ret.pos[o] >= 0 /\ mo.ret.neg[o] <= 0 /\ (mo.ret.pos[o] = 0 \/ mo.ret.neg[o] = 0)

\* homeostasis: the weight goes up exactly when the neuron fires below its target (delays the other way),
\* and nothing is requested at the target rate
SignLaw(st, op) ==
  LET mo == MApply(st, op) IN
  (op.a = "call" /\ mo.ret.t = "parts") =>
     LET tinv == IF op.tinv = 0 THEN DefTinv ELSE op.tinv IN
     \A o \in Neurons :
        LET below == tinv * Spikes(st.h, o) < Len(st.h)
            at == tinv * Spikes(st.h, o) = Len(st.h)
            d == mo.ret.pos[o] + mo.ret.neg[o]
        IN /\ at <=> d = 0
           /\ below <=> Sgn * d > 0
=============================================================================
