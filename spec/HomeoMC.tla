------------------------------- MODULE HomeoMC -------------------------------
(* every spike history of O neurons up to T observed steps, with calls (default / explicit target), clears and  *)
(* mode switches in between; look-ahead invariants over ALL operations of every reachable state; Emit prints    *)
(* the outcome table of every state for the replay on a real LinearHomeostasis trainer                          *)
EXTENDS HomeoCore, TLC, Json

CONSTANTS T, Tinvs, MaxOther

VARIABLE st, k
vars == <<st, k>>

Ops(s) ==
  (IF Len(s.h) < T THEN {[a |-> "step", y |-> y] : y \in [Neurons -> {0, 1}]} ELSE {})
  \cup {[a |-> "call", tinv |-> t, sel |-> x] : t \in Tinvs \cup {0}, x \in {"all", "this", "other"}}
  \cup {[a |-> "clear"]}
  \cup {[a |-> "mode", b |-> b] : b \in BOOLEAN \ {s.training}}

Init == st = InitSt /\ k = 0
Next == \E o \in Ops(st) : /\ st' = MApply(st, o).st
                           /\ k' = IF o.a = "step" THEN k ELSE k + 1
                           /\ (o.a = "step" \/ k < MaxOther)
Spec == Init /\ [][Next]_vars

TypeOK == st.cnt \in 0..T /\ Len(st.h) <= T /\ \A o \in Neurons : st.mu[o] \in 0..RS
RateInv == RateOK(st)
FoldExact == \A o \in Ops(st) : (o.a = "step" /\ st.training) => MFoldExact(st, o.y)
Refinement == \A o \in Ops(st) : RefinesAt(st, o)
SignInv == \A o \in Ops(st) : SignLaw(st, o)
\* a call changes nothing the trainer observes; evaluation mode observes nothing
Frame == \A o \in Ops(st) : LET mo == MApply(st, o) IN
            /\ o.a = "call" => mo.st = st
            /\ (o.a = "call" /\ o.sel = "other") => mo.ret.t = "skipped"          \* a cell that is not listed gets nothing
            /\ (o.a = "call" /\ o.sel = "this") => mo.ret = MApply(st, [o EXCEPT !.sel = "all"]).ret
            /\ (o.a = "step" /\ ~st.training) => mo.st = st

Emit == PrintT(ToJson([s |-> st, out |-> {[op |-> o, res |-> {MApply(st, o)}] : o \in Ops(st)}]))
=============================================================================
