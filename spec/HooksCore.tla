----------------------------- MODULE HooksCore -----------------------------
(***************************************************************************)
(* Functional core of the hook specification (property C16):               *)
(*   inferno/core/infrastructure.py  Hook, ContextualHook, StateHook       *)
(*   inferno/neural/hooks.py         Clamping, Normalization               *)
(*                                                                         *)
(* Mech layer (what the code does): the hooked module owns two ordered     *)
(* handle tables (torch's _forward_pre_hooks / _forward_hooks); a hook     *)
(* object owns its handles (reg), its enable flags (te, ee) and a          *)
(* finaliser that detaches the handles when the object is collected; the   *)
(* callables stored in the module's tables reach the hook object through a *)
(* weak reference.  One operator per public call.                          *)
(*                                                                         *)
(* Abs layer (what C16 says): a hook is armed iff it is alive and          *)
(* registered; a call of the module runs every armed hook whose mode flag  *)
(* matches the module's mode exactly once, in pre- or post-position; a     *)
(* manual call obeys force / ignore_mode; nothing else ever runs a hook.   *)
(*                                                                         *)
(*   MApply(st, op) == set of [st |-> st', ret |-> r]                      *)
(*                                                                         *)
(* st = [training, cf, pre, post, hooks, x]                                *)
(*   training  mode of the hooked module                                   *)
(*   cf        whether the cumulative counters `fired` are kept             *)
(*   pre, post sequences of owner ids in the module's handle tables, in    *)
(*             execution order (0 = a foreign torch hook registered by the *)
(*             environment before anything else: the bystander)            *)
(*   hooks     sequence of hook records (below)                            *)
(*   x         the target attribute: [num, den, r, c] - an r x c matrix    *)
(*             (row-major) of rationals num[i]/den in lowest common terms; *)
(*             den = 0 means "opaque" (real-valued run: effects are not    *)
(*             modelled, post-conditions are evaluated by the harness)     *)
(* hook record = configuration (never changes)                             *)
(*   kind  "hook" | "ctx" | "state" | "clamp" | "norm"                     *)
(*   hpre, hpost   has a pre / post callable (state kinds: exactly one)    *)
(*   prep          registered with prepend=True                            *)
(*   haslo, lo, hashi, hi     clamp bounds (integers)                      *)
(*   p, sc, dm     norm order (0 = infinity), scale (integer # 0),         *)
(*                 dims "row" (last dim) | "col" (dim 0) | "all"           *)
(* + dynamic part                                                          *)
(*   alive, reg, te, ee, fired                                             *)
(*                                                                         *)
(* ret = [err |-> "" | exception class, ev |-> sequence of events,         *)
(*        spur |-> attribute modified although no value hook ran]          *)
(* event = [h |-> owner id, at |-> "pre" | "fwd" | "post" | "man",         *)
(*          ok |-> post-condition of the hook holds right after it ran]    *)
(***************************************************************************)
EXTENDS Integers, Sequences, FiniteSets, TLC

AbsI(v) == IF v < 0 THEN -v ELSE v
MaxI(a, b) == IF a >= b THEN a ELSE b

RECURSIVE GcdN(_, _)
GcdN(a, b) == IF b = 0 THEN a ELSE GcdN(b, a % b)       \* a, b >= 0
Gcd(a, b) == GcdN(AbsI(a), AbsI(b))
Lcm(a, b) == IF a = 0 \/ b = 0 THEN 0 ELSE (AbsI(a) \div Gcd(a, b)) * AbsI(b)

RECURSIVE GcdSeq(_, _)
GcdSeq(s, g) == IF s = <<>> THEN g ELSE GcdSeq(Tail(s), Gcd(g, Head(s)))
RECURSIVE LcmSet(_)
LcmSet(S) == IF S = {} THEN 1 ELSE LET v == CHOOSE v \in S : TRUE IN Lcm(v, LcmSet(S \ {v}))
RECURSIVE SumSet(_, _)
SumSet(S, f) == IF S = {} THEN 0 ELSE LET i == CHOOSE i \in S : TRUE IN f[i] + SumSet(S \ {i}, f)
RECURSIVE MaxSet(_, _)
MaxSet(S, f) == IF S = {} THEN 0 ELSE LET i == CHOOSE i \in S : TRUE IN MaxI(f[i], MaxSet(S \ {i}, f))

Exact(x) == x.den > 0
\* lowest common terms: gcd of all numerators and the denominator is 1
Canon(num, den, r, c) ==
  LET g == GcdSeq(num, den) IN
  [num |-> [i \in DOMAIN num |-> num[i] \div g], den |-> den \div g, r |-> r, c |-> c]

(***************************************************************************)
(* Value effects                                                           *)
(***************************************************************************)
\* clamp: num/den < lo  <=>  num < lo*den   (den > 0)
ClampX(hk, x) ==
  IF ~Exact(x) THEN x
  ELSE Canon([i \in DOMAIN x.num |->
               LET v == x.num[i] IN
               IF hk.haslo /\ v < hk.lo * x.den THEN hk.lo * x.den
               ELSE IF hk.hashi /\ v > hk.hi * x.den THEN hk.hi * x.den
               ELSE v], x.den, x.r, x.c)

ClampPost(hk, x) ==
  ~Exact(x) \/ \A i \in DOMAIN x.num :
     /\ hk.haslo => x.num[i] >= hk.lo * x.den
     /\ hk.hashi => x.num[i] <= hk.hi * x.den

\* index groups along which a norm is taken (row-major r x c matrix)
Groups(dm, r, c) ==
  CASE dm = "row" -> {{(i - 1) * c + j : j \in 1..c} : i \in 1..r}
    [] dm = "col" -> {{(i - 1) * c + j : i \in 1..r} : j \in 1..c}
    [] OTHER      -> {1..(r * c)}

RECURSIVE RootFrom(_, _)
RootFrom(n, s) == IF n * n >= s THEN n ELSE RootFrom(n + 1, s)
ISqrt(s) == LET n == RootFrom(0, s) IN
            IF n * n = s THEN n
            ELSE Assert(FALSE, <<"2-norm is not rational: configuration error", s>>)

\* p-norm of the integer vector f restricted to the index set G (0 encodes infinity)
PNorm(p, G, f) ==
  CASE p = 1 -> SumSet(G, [i \in G |-> AbsI(f[i])])
    [] p = 0 -> MaxSet(G, [i \in G |-> AbsI(f[i])])
    [] p = 2 -> ISqrt(SumSet(G, [i \in G |-> f[i] * f[i]]))

GroupOf(gs, i) == CHOOSE G \in gs : i \in G

\* x'[i] = (num[i]/den) * sc / (n_G/den) = num[i] * sc / n_G ;  zero groups are left alone
NormX(hk, x) ==
  IF ~Exact(x) THEN x
  ELSE LET gs == Groups(hk.dm, x.r, x.c)
           nrm == [G \in gs |-> PNorm(hk.p, G, x.num)]
           L == LcmSet({nrm[G] : G \in {H \in gs : nrm[H] # 0}})
       IN Canon([i \in DOMAIN x.num |->
                   LET n == nrm[GroupOf(gs, i)] IN
                   IF n = 0 THEN 0 ELSE x.num[i] * hk.sc * (L \div n)], L, x.r, x.c)

\* norm of every group = |sc| (as rationals: PNorm(num) = |sc| * den), zero groups stay zero;
\* for p = 2 stated on squares so that no root is needed
NormPost(hk, x0, x) ==
  ~Exact(x) \/ \A G \in Groups(hk.dm, x.r, x.c) :
     IF \A i \in G : x0.num[i] = 0 THEN \A i \in G : x.num[i] = 0
     ELSE CASE hk.p = 2 -> SumSet(G, [i \in G |-> x.num[i] * x.num[i]]) = hk.sc * hk.sc * x.den * x.den
            [] OTHER    -> PNorm(hk.p, G, x.num) = AbsI(hk.sc) * x.den

Effect(hk, x) == CASE hk.kind = "clamp" -> ClampX(hk, x)
                   [] hk.kind = "norm"  -> NormX(hk, x)
                   [] OTHER             -> x
PostCond(hk, x0, x) == CASE hk.kind = "clamp" -> ClampPost(hk, x)
                         [] hk.kind = "norm"  -> NormPost(hk, x0, x)
                         [] OTHER             -> TRUE

(***************************************************************************)
(* Mech                                                                    *)
(***************************************************************************)
StateKinds == {"state", "clamp", "norm"}
ModeOK(hk, training) == (hk.te /\ training) \/ (hk.ee /\ ~training)
Without(s, h) == SelectSeq(s, LAMBDA o : o # h)
Insert(s, h, prep) == IF prep THEN <<h>> \o s ELSE Append(s, h)
CountOf(ev, h) == Cardinality({i \in DOMAIN ev : ev[i].h = h /\ ev[i].at # "fwd"})

Ret(err, ev) == [err |-> err, ev |-> ev, spur |-> FALSE]
Out(st, r) == [st |-> st, ret |-> r]
Quiet(st) == {Out(st, Ret("", <<>>))}
Fail(st, e) == {Out(st, Ret(e, <<>>))}

\* execute one handle table; acc = [x, ev, err]
RECURSIVE RunList(_, _, _, _, _)
RunList(lst, at, hooks, training, acc) ==
  IF lst = <<>> \/ acc.err # "" THEN acc
  ELSE LET id == Head(lst) IN
       IF id = 0
       THEN RunList(Tail(lst), at, hooks, training,
                    [acc EXCEPT !.ev = Append(@, [h |-> 0, at |-> at, ok |-> TRUE])])
       ELSE LET hk == hooks[id] IN
            IF ~hk.alive
            THEN [acc EXCEPT !.err = "AttributeError"]  \* dangling handle: the weak reference is dead
            ELSE IF ModeOK(hk, training)
            THEN LET x2 == Effect(hk, acc.x) IN
                 RunList(Tail(lst), at, hooks, training,
                         [acc EXCEPT !.x = x2,
                                     !.ev = Append(@, [h |-> id, at |-> at, ok |-> PostCond(hk, acc.x, x2)])])
            ELSE RunList(Tail(lst), at, hooks, training, acc)

Bump(st, ev) ==
  IF ~st.cf THEN st.hooks
  ELSE [i \in DOMAIN st.hooks |-> [st.hooks[i] EXCEPT !.fired = @ + CountOf(ev, i)]]

MCall(st) ==
  LET a1 == RunList(st.pre, "pre", st.hooks, st.training, [x |-> st.x, ev |-> <<>>, err |-> ""])
      a2 == IF a1.err # "" THEN a1 ELSE [a1 EXCEPT !.ev = Append(@, [h |-> 0, at |-> "fwd", ok |-> TRUE])]
      a3 == RunList(st.post, "post", st.hooks, st.training, a2)
  IN {Out([st EXCEPT !.x = a3.x, !.hooks = Bump(st, a3.ev)], Ret(a3.err, a3.ev))}

MRegisterSt(st, h) ==
  LET hk == st.hooks[h] IN
  [st EXCEPT !.pre = IF hk.hpre THEN Insert(@, h, hk.prep) ELSE @,
             !.post = IF hk.hpost THEN Insert(@, h, hk.prep) ELSE @,
             !.hooks[h].reg = TRUE]

\* Hook.register refuses a second registration; StateHook.register ignores it
MRegister(st, h) ==
  LET hk == st.hooks[h] IN
  IF hk.reg THEN (IF hk.kind \in StateKinds THEN Quiet(st) ELSE Fail(st, "RuntimeError"))
  ELSE Quiet(MRegisterSt(st, h))

\* Hook.register(x) with x not a torch module
MRegisterBad(st, h) ==
  IF st.hooks[h].reg THEN Fail(st, "RuntimeError") ELSE Fail(st, "TypeError")

MDetach(st, h) == [st EXCEPT !.pre = Without(@, h), !.post = Without(@, h), !.hooks[h].reg = FALSE]
MDeregister(st, h) == Quiet(MDetach(st, h))

\* the last reference is dropped and the collector runs: the finaliser detaches the handles
MDelete(st, h) ==
  LET s1 == IF st.hooks[h].reg THEN MDetach(st, h) ELSE st
  IN Quiet([s1 EXCEPT !.hooks[h].alive = FALSE, !.hooks[h].reg = FALSE,
                      !.hooks[h].te = FALSE, !.hooks[h].ee = FALSE])

\* StateHook.__call__(force, ignore_mode)
MFire(st, h, force, ign) ==
  LET hk == st.hooks[h] IN
  IF (hk.reg \/ force) /\ (ign \/ ModeOK(hk, st.training))
  THEN LET x2 == Effect(hk, st.x)
           ev == <<[h |-> h, at |-> "man", ok |-> PostCond(hk, st.x, x2)]>>
       IN {Out([st EXCEPT !.x = x2, !.hooks = Bump(st, ev)], Ret("", ev))}
  ELSE Quiet(st)

MApply(st, o) ==
  CASE o.a = "call"    -> MCall(st)
    [] o.a = "train"   -> Quiet([st EXCEPT !.training = o.b])
    [] o.a = "reg"     -> MRegister(st, o.h)
    [] o.a = "reg_bad" -> MRegisterBad(st, o.h)
    [] o.a = "dereg"   -> MDeregister(st, o.h)
    [] o.a = "set_te"  -> Quiet([st EXCEPT !.hooks[o.h].te = o.b])
    [] o.a = "set_ee"  -> Quiet([st EXCEPT !.hooks[o.h].ee = o.b])
    [] o.a = "fire"    -> MFire(st, o.h, o.force, o.ign)
    [] o.a = "del"     -> MDelete(st, o.h)
    [] o.a = "setx"    -> Quiet([st EXCEPT !.x = IF Exact(@) THEN Canon(o.v, 1, @.r, @.c) ELSE @])

\* operations that make sense in a state (a dead object cannot be called)
Applicable(st, o) ==
  IF "h" \in DOMAIN o
  THEN /\ o.h \in DOMAIN st.hooks
       /\ st.hooks[o.h].alive
       /\ o.a = "fire" => st.hooks[o.h].kind \in StateKinds
       /\ o.a = "reg_bad" => st.hooks[o.h].kind \notin StateKinds
  ELSE TRUE

(***************************************************************************)
(* Abs: the vocabulary of C16                                              *)
(*   a = [training, hooks: seq of [armed, alive, te, ee]]                  *)
(* an outcome names the set of (hook, position) pairs that run exactly     *)
(* once; every other pair must not run at all                              *)
(***************************************************************************)
AbsOf(st) ==
  [training |-> st.training,
   hooks |-> [i \in DOMAIN st.hooks |->
                [armed |-> st.hooks[i].alive /\ st.hooks[i].reg, alive |-> st.hooks[i].alive,
                 te |-> st.hooks[i].te, ee |-> st.hooks[i].ee]]]

AModeOK(ah, training) == (ah.te /\ training) \/ (ah.ee /\ ~training)

\* cfg: the configuration part of the hook records (placement)
AApply(a, cfg, o) ==
  LET same == [st |-> a, runs |-> {}, err |-> ""] IN
  CASE o.a = "call" ->
         [same EXCEPT !.runs =
            {<<i, "pre">> : i \in {j \in DOMAIN a.hooks : a.hooks[j].armed /\ cfg[j].hpre /\ AModeOK(a.hooks[j], a.training)}}
            \cup {<<i, "post">> : i \in {j \in DOMAIN a.hooks : a.hooks[j].armed /\ cfg[j].hpost /\ AModeOK(a.hooks[j], a.training)}}]
    [] o.a = "train"  -> [same EXCEPT !.st.training = o.b]
    [] o.a = "reg"    ->
         IF a.hooks[o.h].armed
         THEN [same EXCEPT !.err = IF cfg[o.h].kind \in StateKinds THEN "" ELSE "RuntimeError"]
         ELSE [same EXCEPT !.st.hooks[o.h].armed = TRUE]
    [] o.a = "reg_bad" -> [same EXCEPT !.err = IF a.hooks[o.h].armed THEN "RuntimeError" ELSE "TypeError"]
    [] o.a = "dereg"  -> [same EXCEPT !.st.hooks[o.h].armed = FALSE]
    [] o.a = "set_te" -> [same EXCEPT !.st.hooks[o.h].te = o.b]
    [] o.a = "set_ee" -> [same EXCEPT !.st.hooks[o.h].ee = o.b]
    [] o.a = "fire"   ->
         IF (a.hooks[o.h].armed \/ o.force) /\ (o.ign \/ AModeOK(a.hooks[o.h], a.training))
         THEN [same EXCEPT !.runs = {<<o.h, "man">>}] ELSE same
    [] o.a = "del"    -> [same EXCEPT !.st.hooks[o.h] = [armed |-> FALSE, alive |-> FALSE, te |-> FALSE, ee |-> FALSE]]
    [] o.a = "setx"   -> same

\* events of hooks (not of the bystander / forward marker) as (hook, position) pairs
RunsOf(ev) == {<<ev[i].h, ev[i].at>> : i \in {j \in DOMAIN ev : ev[j].h # 0}}
OnceEach(ev) == \A i, j \in DOMAIN ev : (ev[i].h # 0 /\ ev[i].h = ev[j].h /\ ev[i].at = ev[j].at) => i = j
\* pre-position events precede the forward computation, post-position events follow it
Placed(ev) ==
  \A i, j \in DOMAIN ev : ev[j].at = "fwd" =>
     /\ ev[i].at = "pre" => i < j
     /\ ev[i].at = "post" => i > j

\* handle tables hold exactly the handles of armed hooks (plus the bystander's): no dangling handle
HandlesExact(st) ==
  /\ \A i \in DOMAIN st.hooks :
       LET armed == st.hooks[i].alive /\ st.hooks[i].reg IN
       /\ Cardinality({k \in DOMAIN st.pre : st.pre[k] = i}) = (IF armed /\ st.hooks[i].hpre THEN 1 ELSE 0)
       /\ Cardinality({k \in DOMAIN st.post : st.post[k] = i}) = (IF armed /\ st.hooks[i].hpost THEN 1 ELSE 0)
  /\ Cardinality({k \in DOMAIN st.pre : st.pre[k] = 0}) = 1
  /\ Cardinality({k \in DOMAIN st.post : st.post[k] = 0}) = 1

RefinesAt(st, o) ==
  LET ao == AApply(AbsOf(st), st.hooks, o) IN
  \A mo \in MApply(st, o) :
     /\ AbsOf(mo.st) = ao.st
     /\ mo.ret.err = ao.err
     /\ RunsOf(mo.ret.ev) = ao.runs
     /\ OnceEach(mo.ret.ev)
     /\ Placed(mo.ret.ev)
     /\ HandlesExact(mo.st)
     /\ ~mo.ret.spur
     \* a hook that did not run leaves the attribute alone
     /\ (ao.runs = {} /\ o.a # "setx") => mo.st.x = st.x
     \* cumulative counters: fired' = fired + 1 per run
     /\ st.cf => \A i \in DOMAIN st.hooks :
                   mo.st.hooks[i].fired = st.hooks[i].fired + Cardinality({r \in ao.runs : r[1] = i})

PostOKAt(st, o) == \A mo \in MApply(st, o) : \A i \in DOMAIN mo.ret.ev : mo.ret.ev[i].ok
=============================================================================
