------------------------------ MODULE HooksMC ------------------------------
(***************************************************************************)
(* Exhaustive exploration of the hook model (C16) and behaviour            *)
(* generation.  Every initial state is one choice of hook configurations   *)
(* (kind, placement, prepend, bounds / norm parameters) and constructor    *)
(* flags; the invariants quantify over ALL operations applicable in every  *)
(* reachable state.                                                        *)
(***************************************************************************)
EXTENDS HooksCore, Json

CONSTANTS
  NH,          \* number of hook objects attached to the one hooked module
  CfgNames,    \* names (below) of the hook configurations offered to every hook slot
  InitFlags,   \* constructor flags offered: subset of {"TT","TF","FT","FF"} (train_update, eval_update)
  CountFired,  \* keep cumulative counters (then the search is depth-bounded)
  XName,       \* "none": opaque attribute; otherwise the name of the set of matrices offered to setx
  MaxDepth

VARIABLE st
vars == <<st>>

Base == [kind |-> "state", hpre |-> FALSE, hpost |-> TRUE, prep |-> FALSE,
         haslo |-> FALSE, lo |-> 0, hashi |-> FALSE, hi |-> 0, p |-> 0, sc |-> 0, dm |-> "-"]
Pre(r) == [r EXCEPT !.hpre = TRUE, !.hpost = FALSE]
Both(r) == [r EXCEPT !.hpre = TRUE, !.hpost = TRUE]
Prep(r) == [r EXCEPT !.prep = TRUE]
K(r, k) == [r EXCEPT !.kind = k]
Clamp(r, haslo, lo, hashi, hi) == [r EXCEPT !.kind = "clamp", !.haslo = haslo, !.lo = lo, !.hashi = hashi, !.hi = hi]
Norm(r, p, sc, dm) == [r EXCEPT !.kind = "norm", !.p = p, !.sc = sc, !.dm = dm]

Cfg(n) ==
  CASE n = "hook_pre"     -> Pre(K(Base, "hook"))
    [] n = "hook_post"    -> K(Base, "hook")
    [] n = "hook_both"    -> Both(K(Base, "hook"))
    [] n = "hook_pre_p"   -> Prep(Pre(K(Base, "hook")))
    [] n = "hook_post_p"  -> Prep(K(Base, "hook"))
    [] n = "hook_both_p"  -> Prep(Both(K(Base, "hook")))
    [] n = "ctx_pre"      -> Pre(K(Base, "ctx"))
    [] n = "ctx_post"     -> K(Base, "ctx")
    [] n = "ctx_both"     -> Both(K(Base, "ctx"))
    [] n = "ctx_both_p"   -> Prep(Both(K(Base, "ctx")))
    [] n = "state_pre"    -> Pre(Base)
    [] n = "state_post"   -> Base
    [] n = "state_pre_p"  -> Prep(Pre(Base))
    [] n = "state_post_p" -> Prep(Base)
    [] n = "clamp_a"      -> Clamp(Base, TRUE, -1, TRUE, 2)
    [] n = "clamp_lo"     -> Clamp(Pre(Base), TRUE, 0, FALSE, 0)
    [] n = "clamp_hi_p"   -> Clamp(Prep(Base), FALSE, 0, TRUE, 1)
    [] n = "norm_1row"    -> Norm(Base, 1, 2, "row")
    [] n = "norm_1all_p"  -> Norm(Prep(Base), 1, -1, "all")
    [] n = "norm_infcol"  -> Norm(Pre(Base), 0, -1, "col")
    [] n = "norm_infrow"  -> Norm(Base, 0, 3, "row")
    [] n = "norm_2row"    -> Norm(Base, 2, -2, "row")
    [] n = "norm_2all"    -> Norm(Pre(Base), 2, 3, "all")

\* 2 x 2 matrices (row-major) offered to setx
XVals ==
  CASE XName = "int"     -> {<<0, 0, 0, 0>>, <<3, -4, 0, 0>>, <<1, -2, 2, 4>>, <<-3, 5, 2, 0>>}
    [] XName = "pythrow" -> {<<0, 0, 0, 0>>, <<3, -4, 0, 0>>, <<6, 8, -5, 12>>, <<0, 5, -8, 6>>}
    [] XName = "pythall" -> {<<0, 0, 0, 0>>, <<3, -4, 0, 0>>, <<1, 2, 2, 4>>, <<2, -4, 5, 6>>}
    [] OTHER             -> {}

X0 == IF XName = "none" THEN [num |-> <<>>, den |-> 0, r |-> 0, c |-> 0]
      ELSE [num |-> <<0, 0, 0, 0>>, den |-> 1, r |-> 2, c |-> 2]

InitHook(n, f) ==
  LET c == Cfg(n) IN
  [kind |-> c.kind, hpre |-> c.hpre, hpost |-> c.hpost, prep |-> c.prep,
   haslo |-> c.haslo, lo |-> c.lo, hashi |-> c.hashi, hi |-> c.hi, p |-> c.p, sc |-> c.sc, dm |-> c.dm,
   alive |-> TRUE, reg |-> FALSE, te |-> (f \in {"TT", "TF"}), ee |-> (f \in {"TT", "FT"}), fired |-> 0]

InitStates ==
  {[training |-> TRUE, cf |-> CountFired, pre |-> <<0>>, post |-> <<0>>, hooks |-> hs, x |-> X0] :
     hs \in [1..NH -> {InitHook(n, f) : n \in CfgNames, f \in InitFlags}]}

Ops(s) ==
  {o \in
     {[a |-> "call"]} \cup {[a |-> "train", b |-> b] : b \in BOOLEAN}
     \cup {[a |-> "reg", h |-> h] : h \in 1..NH}
     \cup {[a |-> "reg_bad", h |-> h] : h \in 1..NH}
     \cup {[a |-> "dereg", h |-> h] : h \in 1..NH}
     \cup {[a |-> "del", h |-> h] : h \in 1..NH}
     \cup {[a |-> "set_te", h |-> h, b |-> b] : h \in 1..NH, b \in BOOLEAN}
     \cup {[a |-> "set_ee", h |-> h, b |-> b] : h \in 1..NH, b \in BOOLEAN}
     \cup {[a |-> "fire", h |-> h, force |-> f, ign |-> g] : h \in 1..NH, f \in BOOLEAN, g \in BOOLEAN}
     \cup {[a |-> "setx", v |-> v] : v \in (IF Exact(s.x) THEN XVals ELSE {})}
   : Applicable(s, o)}

Init == st \in InitStates
Next == \E o \in Ops(st) : \E mo \in MApply(st, o) : st' = mo.st
Spec == Init /\ [][Next]_vars

Bounded == TLCGet("level") <= MaxDepth

(***************************************************************************)
(* Properties                                                              *)
(***************************************************************************)
TypeOK ==
  /\ st.training \in BOOLEAN
  /\ \A i \in DOMAIN st.hooks :
       /\ st.hooks[i].alive \in BOOLEAN /\ st.hooks[i].reg \in BOOLEAN
       /\ st.hooks[i].fired >= 0
       /\ ~st.hooks[i].alive => ~st.hooks[i].reg
  /\ st.x.den >= 0
  /\ Exact(st.x) => GcdSeq(st.x.num, st.x.den) = 1

\* C16, lifecycle part: every operation in every reachable state behaves as the property says
\* (runs exactly the armed + enabled hooks once, in position; manual rules; registration
\* rules; nothing dangling after deregistration or collection)
Refinement == \A o \in Ops(st) : RefinesAt(st, o)
NoDangling == HandlesExact(st)

\* C16, value part: whenever a clamping / normalisation hook runs its post-condition holds
PostOK == \A o \in Ops(st) : PostOKAt(st, o)

\* a registered, alive, enabled hook does run (non-vacuity of the model itself)
Emit == PrintT(ToJson([s |-> st, init |-> (TLCGet("level") = 1),
                       out |-> {[op |-> o, res |-> MApply(st, o)] : o \in Ops(st)}]))
=============================================================================
