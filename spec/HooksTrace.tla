---------------------------- MODULE HooksTrace ----------------------------
(***************************************************************************)
(* Trace specification for hook executions recorded from the real          *)
(* implementation (direction B of C16).  A batch file holds many traces:   *)
(*   [ [hdr |-> [init |-> state, waive |-> <<..>>], ev |-> << [op, ret, st], ... >>] ] *)
(* Every event must be an outcome of MApply on the current state (same     *)
(* return value: exception class, ordered list of hook runs with their     *)
(* post-condition flags; same projected state) and the step must satisfy   *)
(* the property-level description (RefinesAt).  In recorded runs the       *)
(* attribute is real-valued ("opaque", x.den = 0): which hooks run, when   *)
(* and in which order is decided here; whether the clamp / norm            *)
(* post-condition holds at each run is evaluated numerically by the        *)
(* harness and carried in the event's ok flag, which the specification     *)
(* requires to be TRUE.                                                    *)
(***************************************************************************)
EXTENDS HooksCore, Json, IOUtils, TLCExt

Traces == JsonDeserialize(IOEnv.TRACE_FILE)

VARIABLES tid, l, st
vars == <<tid, l, st>>

NT == Len(Traces)
Evs(t) == Traces[t].ev
Waived(t) == {Traces[t].hdr.waive[i] : i \in DOMAIN Traces[t].hdr.waive}

ASSUME \A i \in 1..NT : TLCSet(100 + i, 0)

Init == /\ tid \in 1..NT
        /\ l = 1
        /\ st = Traces[tid].hdr.init

Matches(e) == {mo \in MApply(st, e.op) : mo.ret = e.ret /\ mo.st = e.st}
RefOK(s, o) == Applicable(s, o) /\ RefinesAt(s, o) /\ PostOKAt(s, o)

Step ==
  /\ l <= Len(Evs(tid))
  /\ LET e == Evs(tid)[l] IN
       IF l \in Waived(tid)
       THEN st' = e.st
       ELSE /\ RefOK(st, e.op)
            /\ \E mo \in Matches(e) : st' = mo.st
  /\ l' = l + 1
  /\ UNCHANGED tid

TraceSpec == Init /\ [][Step]_vars

Track ==
  /\ TLCSet(100 + tid, MaxI(TLCGet(100 + tid), l))
  /\ IF l <= Len(Evs(tid)) /\ ~(l \in Waived(tid))
        /\ (~RefOK(st, Evs(tid)[l].op) \/ Matches(Evs(tid)[l]) = {})
     THEN PrintT(ToJson([diag |-> tid, l |-> l, refok |-> RefOK(st, Evs(tid)[l].op),
                         expected |-> MApply(st, Evs(tid)[l].op), state |-> st]))
     ELSE TRUE

Post ==
  PrintT(ToJson([rejected |-> {<<i, TLCGet(100 + i)>> : i \in {j \in 1..NT : TLCGet(100 + j) <= Len(Evs(j))}},
                 total |-> NT]))
=============================================================================
