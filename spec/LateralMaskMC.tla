---------------------------- MODULE LateralMaskMC ----------------------------
(***************************************************************************)
(* LinearLateral (C05): "a lateral connection never has a nonzero          *)
(* self-weight or self-delay whatever is assigned to it".                  *)
(*                                                                         *)
(* State: weight and delay matrices (N x N integer tokens) and the bias    *)
(* vector.  Operations: the public weight / delay / bias setters, the      *)
(* constructor's initialisers (the initial state) and Updater applications *)
(* (accumulate a positive and a negative part, then update(): the updater  *)
(* assigns  param + pos - neg  through the same setter).                   *)
(*  Mech: the code multiplies every assigned matrix with the buffer        *)
(*        mask = 1 - I.                                                    *)
(*  Abs : off-diagonal entries are what was assigned, the diagonal is 0.   *)
(***************************************************************************)
EXTENDS Integers, Sequences, FiniteSets, TLC, Json

CONSTANTS
  N,          \* number of neurons
  Vals,       \* scalars used to build the assignable matrices / vectors
  InitW, InitD,   \* which alphabet matrix the weight / delay initialiser returns: "tok", "ones", "diag"
  MaxDepth

VARIABLE st
vars == <<st>>

I == 1..N
Mat(f(_, _)) == [i \in I |-> [j \in I |-> f(i, j)]]
Vec(f(_)) == [i \in I |-> f(i)]

TokF(i, j) == (i - 1) * N + j                 \* all entries distinct and nonzero
Tok == Mat(TokF)
TokT == [i \in I |-> [j \in I |-> TokF(j, i)]]
Const(v) == [i \in I |-> [j \in I |-> v]]
Diag(v) == [i \in I |-> [j \in I |-> IF i = j THEN v ELSE 0]]
Mats == {Tok, TokT} \cup {Const(v) : v \in Vals} \cup {Diag(v) : v \in Vals}
Vecs == {[i \in I |-> v] : v \in Vals} \cup {[i \in I |-> i]}
Named(k) == CASE k = "tok" -> Tok [] k = "ones" -> Const(1) [] k = "diag" -> Diag(2)

Add(a, b) == [i \in I |-> [j \in I |-> a[i][j] + b[i][j]]]
Sub(a, b) == [i \in I |-> [j \in I |-> a[i][j] - b[i][j]]]
VAdd(a, b) == [i \in I |-> a[i] + b[i]]
Zero == Const(0)

\* Mech: element-wise product with the mask buffer 1 - I
MaskM == [i \in I |-> [j \in I |-> IF i = j THEN 0 ELSE 1]]
Masked(m) == [i \in I |-> [j \in I |-> m[i][j] * MaskM[i][j]]]
\* Abs: the intended meaning
OffDiag(m) == [i \in I |-> [j \in I |-> IF i = j THEN 0 ELSE m[i][j]]]

Ok(s) == {[st |-> s, ret |-> [t |-> "ok"]]}

\* neg = Zero stands for "no negative part"
MApply(s, o) ==
  CASE o.a = "set_weight" -> Ok([s EXCEPT !.w = Masked(o.m)])
    [] o.a = "set_delay" -> Ok([s EXCEPT !.d = Masked(o.m)])
    [] o.a = "set_bias" -> Ok([s EXCEPT !.b = o.v])
    [] o.a = "upd_weight" -> Ok([s EXCEPT !.w = Masked(Add(s.w, Sub(o.p, o.n)))])
    [] o.a = "upd_delay" -> Ok([s EXCEPT !.d = Masked(Add(s.d, Sub(o.p, o.n)))])
    [] o.a = "upd_all" -> Ok([w |-> Masked(Add(s.w, Sub(o.p, o.n))), d |-> Masked(Add(s.d, o.p)), b |-> VAdd(s.b, o.v)])
    \* augmented assignment `conn.weight += v`: the stored parameter is modified in place and the SAME object is
    \* assigned back through the setter, which masks it like any other value
    [] o.a = "iadd_weight" -> Ok([s EXCEPT !.w = Masked(Add(s.w, Const(o.k)))])
    [] o.a = "iadd_delay" -> Ok([s EXCEPT !.d = Masked(Add(s.d, Const(o.k)))])

AApply(s, o) ==
  CASE o.a = "set_weight" -> Ok([s EXCEPT !.w = OffDiag(o.m)])
    [] o.a = "set_delay" -> Ok([s EXCEPT !.d = OffDiag(o.m)])
    [] o.a = "set_bias" -> Ok([s EXCEPT !.b = o.v])
    [] o.a = "upd_weight" -> Ok([s EXCEPT !.w = OffDiag(Add(s.w, Sub(o.p, o.n)))])
    [] o.a = "upd_delay" -> Ok([s EXCEPT !.d = OffDiag(Add(s.d, Sub(o.p, o.n)))])
    [] o.a = "upd_all" -> Ok([w |-> OffDiag(Add(s.w, Sub(o.p, o.n))), d |-> OffDiag(Add(s.d, o.p)), b |-> VAdd(s.b, o.v)])
    [] o.a = "iadd_weight" -> Ok([s EXCEPT !.w = OffDiag(Add(s.w, Const(o.k)))])
    [] o.a = "iadd_delay" -> Ok([s EXCEPT !.d = OffDiag(Add(s.d, Const(o.k)))])

Ops(s) ==
  {[a |-> "set_weight", m |-> m] : m \in Mats}
  \cup {[a |-> "set_delay", m |-> m] : m \in Mats}
  \cup {[a |-> "set_bias", v |-> v] : v \in Vecs}
  \cup {[a |-> "upd_weight", p |-> p, n |-> n] : p \in {Tok, Const(1), Diag(1)}, n \in {Zero, Const(1), Diag(2)}}
  \cup {[a |-> "upd_delay", p |-> p, n |-> Zero] : p \in {Const(1), Diag(1)}}
  \cup {[a |-> "upd_all", p |-> p, n |-> Zero, v |-> v] : p \in {Const(1), Diag(1)}, v \in {[i \in I |-> 1]}}
  \cup {[a |-> x, k |-> 1] : x \in {"iadd_weight", "iadd_delay"}}

Init == st = [w |-> Masked(Named(InitW)), d |-> Masked(Named(InitD)), b |-> [i \in I |-> i]]
Next == \E o \in Ops(st) : \E mo \in MApply(st, o) : st' = mo.st
Spec == Init /\ [][Next]_vars
Bounded == TLCGet("level") <= MaxDepth

DiagZero == \A i \in I : st.w[i][i] = 0 /\ st.d[i][i] = 0
\* one-step look-ahead over ALL operations: the mechanism computes the intended assignment
Refinement == \A o \in Ops(st) : MApply(st, o) = AApply(st, o)
\* the mask never touches the bias, weight/delay assignments leave the other parameters alone
Frame == \A o \in Ops(st) : \A mo \in MApply(st, o) :
           /\ (o.a \in {"set_weight", "upd_weight", "iadd_weight"} => mo.st.d = st.d /\ mo.st.b = st.b)
           /\ (o.a \in {"set_delay", "upd_delay", "iadd_delay"} => mo.st.w = st.w /\ mo.st.b = st.b)
           /\ (o.a = "set_bias" => mo.st.b = o.v /\ mo.st.w = st.w /\ mo.st.d = st.d)

Emit == Bounded => PrintT(ToJson([s |-> st, out |-> {[op |-> o, res |-> MApply(st, o)] : o \in Ops(st)}]))
=============================================================================
