-------------------------- MODULE LayerClearTrace ---------------------------
(***************************************************************************)
(* C17, direction B on layers of REAL components: the protocol             *)
(*      build ; step^j ; [learn] ; clear ; step^T                          *)
(* recorded next to (i) a reference run of a freshly built layer on the    *)
(* same inputs (hdr.ref, hdr.d0) and (ii) a TWIN: a layer built afresh at  *)
(* the moment of the clear that is given the cleared layer's learned       *)
(* parameters and adaptations and then receives the same inputs.           *)
(* Tensors are interned by the harness: equal token <=> bit-identical      *)
(* tensors (values, shape, dtype).                                         *)
(*                                                                         *)
(* Clauses (the names are reported):                                       *)
(*   ClearOK    clear() returns normally                                   *)
(*   DynFresh   after clear the dynamic state (through the public API:     *)
(*              voltages, refractory periods, spikes, synaptic currents and*)
(*              spikes incl. their delayed views, stored feedback spikes)  *)
(*              is that of the freshly built twin                          *)
(*   ParKept    clear leaves learned parameters untouched                  *)
(*   AdKept     clear leaves adaptations untouched                         *)
(*   TwinOut / TwinState   every later step: outputs / dynamic state and   *)
(*              adaptations equal the twin's                               *)
(*   RefOut / RefState     before any clear, and after it when the layer   *)
(*              has neither adaptation nor learning (hdr.literal), step k  *)
(*              since build / clear reproduces step k of the reference run *)
(*   ShapeOK    every output has its neuron group's batched shape          *)
(* state st = [n, cleared, par, ad]: steps since build / clear, whether a  *)
(* clear happened, parameter and adaptation tokens.                        *)
(***************************************************************************)
EXTENDS Integers, Sequences, FiniteSets, TLC, Json, IOUtils, TLCExt

Traces == JsonDeserialize(IOEnv.TRACE_FILE)

VARIABLES tid, l, st
vars == <<tid, l, st>>

NT == Len(Traces)
Evs(t) == Traces[t].ev
Hdr(t) == Traces[t].hdr
MaxI(a, b) == IF a >= b THEN a ELSE b
Waived(t) == {Traces[t].hdr.waive[i] : i \in DOMAIN Traces[t].hdr.waive}

ASSUME \A i \in 1..NT : TLCSet(100 + i, 0)

\* the named clauses that event e violates in state s of trace t
Failed(t, s, e) ==
  LET h == Hdr(t)
      k == s.n + 1
      inref == k <= Len(h.ref) /\ e.op.a = "step" /\ e.op.i = h.ref[k].i
      useref == inref /\ (~s.cleared \/ h.literal)
  IN CASE e.op.a = "step" ->
            (IF e.ret.t # "out" THEN {"StepOK"} ELSE
             (IF e.ret.shape THEN {} ELSE {"ShapeOK"})
             \cup (IF useref /\ e.ret.y # h.ref[k].y THEN {"RefOut"} ELSE {})
             \cup (IF useref /\ e.ret.d # h.ref[k].d THEN {"RefState"} ELSE {})
             \cup (IF s.cleared /\ e.ret.y # e.ret.ty THEN {"TwinOut"} ELSE {})
             \cup (IF s.cleared /\ (e.ret.d # e.ret.td \/ e.ret.ad # e.ret.tad) THEN {"TwinState"} ELSE {}))
       [] e.op.a = "clear" ->
            (IF e.ret.t # "ok" THEN {"ClearOK"} ELSE
             (IF e.ret.d # e.ret.td \/ (h.literal /\ e.ret.d # h.d0) THEN {"DynFresh"} ELSE {})
             \cup (IF e.ret.par # s.par THEN {"ParKept"} ELSE {})
             \cup (IF e.ret.ad # s.ad THEN {"AdKept"} ELSE {}))
       [] OTHER -> {}

\* the successor state (also used on waived lines: it adopts what was logged)
After(s, e) ==
  CASE e.op.a = "step" -> [s EXCEPT !.n = s.n + 1, !.ad = IF e.ret.t = "out" THEN e.ret.ad ELSE s.ad]
    [] e.op.a = "clear" -> [s EXCEPT !.n = 0, !.cleared = TRUE]
    [] e.op.a = "learn" -> [s EXCEPT !.par = e.ret.par]

Init == /\ tid \in 1..NT
        /\ l = 1
        /\ st = Hdr(tid).init

Step ==
  /\ l <= Len(Evs(tid))
  /\ LET e == Evs(tid)[l] IN
       /\ (l \in Waived(tid) \/ Failed(tid, st, e) = {})
       /\ st' = After(st, e)
  /\ l' = l + 1
  /\ UNCHANGED tid

TraceSpec == Init /\ [][Step]_vars

Track ==
  /\ TLCSet(100 + tid, MaxI(TLCGet(100 + tid), l))
  /\ IF l <= Len(Evs(tid)) /\ ~(l \in Waived(tid)) /\ Failed(tid, st, Evs(tid)[l]) # {}
     THEN PrintT(ToJson([diag |-> tid, l |-> l, clauses |-> Failed(tid, st, Evs(tid)[l]), state |-> st]))
     ELSE TRUE

Post ==
  PrintT(ToJson([rejected |-> {<<i, TLCGet(100 + i)>> : i \in {j \in 1..NT : TLCGet(100 + j) <= Len(Evs(j))}},
                 total |-> NT]))
=============================================================================
