------------------------ MODULE LayerRegistryCore ------------------------
(***************************************************************************)
(* Extension of the C17 specification: the component REGISTRIES of a layer *)
(* (inferno/neural/network.py: Layer.add_/del_/get_ connection, neuron,    *)
(* cell; the listings; the named accessors of Serial, RecurrentSerial and  *)
(* Biclique; the parts of a Cell).                                         *)
(*                                                                         *)
(* Abs  - three relations: registered connections, registered neurons,     *)
(*        cells (a set of connection-neuron pairs), each with the order of *)
(*        registration; a cell exists only between registered components   *)
(*        and deleting a component deletes its cells; a listing shows      *)
(*        exactly what is registered; a named accessor returns the         *)
(*        component that was given to the constructor under that role.     *)
(* Mech - the code's three dictionaries: connections_, neurons_ and the    *)
(*        NESTED dictionary cells_[connection][neuron] with its removal of *)
(*        inner dictionaries that became empty; the exception classes as   *)
(*        coded (del_neuron of an unknown name raises ValueError where     *)
(*        del_connection raises AttributeError).                           *)
(*                                                                         *)
(* kind: "layer" a plain Layer subclass (every operation allowed);         *)
(*       "serial", "recurrent" (trainable feedback or not), "biclique":    *)
(*       the shipped topologies, whose structural operations are refused   *)
(*       (RuntimeError) and whose registries are fixed by the constructor. *)
(* A component is identified by the name it was CREATED with (the adaptor  *)
(* creates one object per name and maps objects back by identity).         *)
(***************************************************************************)
EXTENDS Integers, Sequences, FiniteSets, TLC

CONSTANTS CNames, NNames      \* names a test may use for connections / neurons of a plain layer

Out(st, r) == [st |-> st, ret |-> r]
Ok(st) == {Out(st, [t |-> "ok"])}
Err(st, e) == {Out(st, [t |-> "err", e |-> e])}

Has(s, x) == \E i \in DOMAIN s : s[i] = x
Without(s, x) == SelectSeq(s, LAMBDA e : e # x)

(***************************************************************************)
(* Mech state: [kind, tf, C, N, cells]                                     *)
(*   C, N   sequences of names (dictionary order = registration order)     *)
(*   cells  sequence of [c, ns] (outer dictionary order, inner order)      *)
(***************************************************************************)
Fixed(st) == st.kind # "layer"
Group(st, c) == IF \E i \in DOMAIN st.cells : st.cells[i].c = c
                THEN (CHOOSE g \in {st.cells[i] : i \in DOMAIN st.cells} : g.c = c).ns ELSE <<>>
HasCell(st, c, n) == Has(Group(st, c), n)
SetGroup(cells, c, ns) ==
  IF ns = <<>> THEN SelectSeq(cells, LAMBDA g : g.c # c)                          \* empty inner dictionaries are removed
  ELSE IF \E i \in DOMAIN cells : cells[i].c = c
       THEN [i \in DOMAIN cells |-> IF cells[i].c = c THEN [c |-> c, ns |-> ns] ELSE cells[i]]
       ELSE Append(cells, [c |-> c, ns |-> ns])

InitLayer == [kind |-> "layer", tf |-> FALSE, C |-> <<>>, N |-> <<>>, cells |-> <<>>]
InitSerial == [kind |-> "serial", tf |-> FALSE, C |-> <<"serial">>, N |-> <<"serial">>,
               cells |-> <<[c |-> "serial", ns |-> <<"serial">>]>>]
InitRecurrent(tf) ==
  [kind |-> "recurrent", tf |-> tf, C |-> <<"feedfwd", "lateral", "feedback">>, N |-> <<"feedfwd", "feedback">>,
   cells |-> IF tf THEN <<[c |-> "feedfwd", ns |-> <<"feedfwd">>], [c |-> "lateral", ns |-> <<"feedback">>],
                          [c |-> "feedback", ns |-> <<"feedfwd">>]>>
             ELSE <<[c |-> "feedfwd", ns |-> <<"feedfwd">>]>>]
InitBiclique == [kind |-> "biclique", tf |-> FALSE, C |-> <<"a", "b">>, N |-> <<"x", "y">>,
                 cells |-> <<[c |-> "a", ns |-> <<"x", "y">>], [c |-> "b", ns |-> <<"x", "y">>]>>]

MAddConn(st, c) ==
  IF Fixed(st) THEN Err(st, "RuntimeError") ELSE IF Has(st.C, c) THEN Err(st, "RuntimeError")
  ELSE Ok([st EXCEPT !.C = Append(@, c)])
MDelConn(st, c) ==
  IF Fixed(st) THEN Err(st, "RuntimeError") ELSE IF ~Has(st.C, c) THEN Err(st, "AttributeError")
  ELSE Ok([st EXCEPT !.C = Without(@, c), !.cells = SelectSeq(@, LAMBDA g : g.c # c)])
MAddNeuron(st, n) ==
  IF Fixed(st) THEN Err(st, "RuntimeError") ELSE IF Has(st.N, n) THEN Err(st, "RuntimeError")
  ELSE Ok([st EXCEPT !.N = Append(@, n)])
MDelNeuron(st, n) ==
  IF Fixed(st) THEN Err(st, "RuntimeError") ELSE IF ~Has(st.N, n) THEN Err(st, "ValueError")
  ELSE Ok([st EXCEPT !.N = Without(@, n),
                     !.cells = SelectSeq([i \in DOMAIN @ |-> [c |-> @[i].c, ns |-> Without(@[i].ns, n)]],
                                         LAMBDA g : g.ns # <<>>)])
MAddCell(st, c, n) ==
  IF Fixed(st) THEN Err(st, "RuntimeError")
  ELSE IF ~Has(st.C, c) \/ ~Has(st.N, n) THEN Err(st, "AttributeError")
  ELSE IF HasCell(st, c, n) THEN {Out(st, [t |-> "cell", c |-> c, n |-> n])}
  ELSE {Out([st EXCEPT !.cells = SetGroup(@, c, Append(Group(st, c), n))], [t |-> "cell", c |-> c, n |-> n])}
MDelCell(st, c, n) ==
  IF Fixed(st) THEN Err(st, "RuntimeError")
  ELSE IF ~Has(st.C, c) \/ ~Has(st.N, n) THEN Err(st, "AttributeError")
  ELSE Ok([st EXCEPT !.cells = SetGroup(@, c, Without(Group(st, c), n))])
\* get_cell: the cell object, whose parts are the registered components of those names
MGetCell(st, c, n) ==
  IF HasCell(st, c, n) THEN {Out(st, [t |-> "cell", c |-> c, n |-> n])} ELSE Err(st, "AttributeError")
MGetConn(st, c) == IF Has(st.C, c) THEN {Out(st, [t |-> "comp", k |-> "c", name |-> c])} ELSE Err(st, "AttributeError")
MGetNeuron(st, n) == IF Has(st.N, n) THEN {Out(st, [t |-> "comp", k |-> "n", name |-> n])} ELSE Err(st, "AttributeError")

Pairs(cells) ==
  LET RECURSIVE Flat(_)
      Flat(s) == IF s = <<>> THEN <<>> ELSE [j \in DOMAIN Head(s).ns |-> <<Head(s).c, Head(s).ns[j]>>] \o Flat(Tail(s))
  IN Flat(cells)
MList(st, what) ==
  {Out(st, [t |-> "list", v |-> CASE what = "connections" -> st.C
                                  [] what = "neurons" -> st.N
                                  [] what = "synapses" -> st.C            \* one synapse per connection, same order
                                  [] what = "cells" -> Pairs(st.cells)])}

\* named accessors of the shipped topologies: role -> [k, name] ("-" = None)
NoneRet == [t |-> "comp", k |-> "-", name |-> "-"]
Roles(st) ==
  CASE st.kind = "serial" ->
         [connection |-> [k |-> "c", name |-> "serial"], neuron |-> [k |-> "n", name |-> "serial"],
          synapse |-> [k |-> "s", name |-> "serial"], updater |-> [k |-> "u", name |-> "serial"],
          cell |-> [k |-> "cell", name |-> "serial/serial"]]
    [] st.kind = "recurrent" ->
         [feedfwd_connection |-> [k |-> "c", name |-> "feedfwd"], lateral_connection |-> [k |-> "c", name |-> "lateral"],
          feedback_connection |-> [k |-> "c", name |-> "feedback"], feedfwd_neuron |-> [k |-> "n", name |-> "feedfwd"],
          feedback_neuron |-> [k |-> "n", name |-> "feedback"], feedfwd_synapse |-> [k |-> "s", name |-> "feedfwd"],
          lateral_synapse |-> [k |-> "s", name |-> "lateral"], feedback_synapse |-> [k |-> "s", name |-> "feedback"],
          feedfwd_updater |-> [k |-> "u", name |-> "feedfwd"], lateral_updater |-> [k |-> "u", name |-> "lateral"],
          feedback_updater |-> [k |-> "u", name |-> "feedback"],
          feedfwd_cell |-> [k |-> "cell", name |-> "feedfwd/feedfwd"],
          lateral_cell |-> IF st.tf THEN [k |-> "cell", name |-> "lateral/feedback"] ELSE [k |-> "-", name |-> "-"],
          feedback_cell |-> IF st.tf THEN [k |-> "cell", name |-> "feedback/feedfwd"] ELSE [k |-> "-", name |-> "-"]]
    [] OTHER -> [none |-> [k |-> "-", name |-> "-"]]
MRole(st, role) == {Out(st, [t |-> "comp", k |-> Roles(st)[role].k, name |-> Roles(st)[role].name])}

MApply(st, o) ==
  CASE o.a = "add_connection" -> MAddConn(st, o.c)
    [] o.a = "del_connection" -> MDelConn(st, o.c)
    [] o.a = "add_neuron" -> MAddNeuron(st, o.n)
    [] o.a = "del_neuron" -> MDelNeuron(st, o.n)
    [] o.a = "add_cell" -> MAddCell(st, o.c, o.n)
    [] o.a = "del_cell" -> MDelCell(st, o.c, o.n)
    [] o.a = "get_cell" -> MGetCell(st, o.c, o.n)
    [] o.a = "get_connection" -> MGetConn(st, o.c)
    [] o.a = "get_neuron" -> MGetNeuron(st, o.n)
    [] o.a = "list" -> MList(st, o.what)
    [] o.a = "role" -> MRole(st, o.role)

(***************************************************************************)
(* Abs: sets                                                               *)
(***************************************************************************)
Range(s) == {s[i] : i \in DOMAIN s}
CellSet(st) == UNION {{<<st.cells[i].c, n>> : n \in Range(st.cells[i].ns)} : i \in DOMAIN st.cells}

\* a cell exists only between registered components; no empty inner dictionary; no name twice
WellFormed(st) ==
  /\ \A p \in CellSet(st) : p[1] \in Range(st.C) /\ p[2] \in Range(st.N)
  /\ \A i \in DOMAIN st.cells : st.cells[i].ns # <<>>
  /\ \A i, j \in DOMAIN st.C : i # j => st.C[i] # st.C[j]
  /\ \A i, j \in DOMAIN st.N : i # j => st.N[i] # st.N[j]
  /\ \A i, j \in DOMAIN st.cells : i # j => st.cells[i].c # st.cells[j].c
\* what each operation means on the sets
AbsStep(st, o, mo) ==
  LET a == [C |-> Range(st.C), N |-> Range(st.N), cells |-> CellSet(st)]
      b == [C |-> Range(mo.st.C), N |-> Range(mo.st.N), cells |-> CellSet(mo.st)]
      ok == mo.ret.t # "err"
  IN CASE ~ok -> b = a                                                        \* a refused call has no effect
       [] o.a = "add_connection" -> b = [a EXCEPT !.C = @ \cup {o.c}]
       [] o.a = "del_connection" -> b = [a EXCEPT !.C = @ \ {o.c}, !.cells = {p \in @ : p[1] # o.c}]
       [] o.a = "add_neuron" -> b = [a EXCEPT !.N = @ \cup {o.n}]
       [] o.a = "del_neuron" -> b = [a EXCEPT !.N = @ \ {o.n}, !.cells = {p \in @ : p[2] # o.n}]
       [] o.a = "add_cell" -> b = [a EXCEPT !.cells = @ \cup {<<o.c, o.n>>}]
       [] o.a = "del_cell" -> b = [a EXCEPT !.cells = @ \ {<<o.c, o.n>>}]
       [] OTHER -> b = a
=============================================================================
