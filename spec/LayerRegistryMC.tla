------------------------- MODULE LayerRegistryMC -------------------------
(***************************************************************************)
(* The whole closure of the registry model: a plain Layer over the names   *)
(* CNames x NNames with every add / del / get in every order, and the      *)
(* fixed registries of Serial, RecurrentSerial (trainable feedback or      *)
(* not) and Biclique with their refusals, listings and named accessors.    *)
(***************************************************************************)
EXTENDS LayerRegistryCore, Json

VARIABLE st
vars == <<st>>

AllC(s) == CNames \cup Range(s.C)
AllN(s) == NNames \cup Range(s.N)
RoleNames(s) == IF s.kind \in {"serial", "recurrent"} THEN DOMAIN Roles(s) ELSE {}
Ops(s) ==
  {[a |-> x, c |-> c] : x \in {"add_connection", "del_connection", "get_connection"}, c \in AllC(s)}
  \cup {[a |-> x, n |-> n] : x \in {"add_neuron", "del_neuron", "get_neuron"}, n \in AllN(s)}
  \cup {[a |-> x, c |-> c, n |-> n] : x \in {"add_cell", "del_cell", "get_cell"}, c \in AllC(s), n \in AllN(s)}
  \cup {[a |-> "list", what |-> w] : w \in {"connections", "neurons", "synapses", "cells"}}
  \cup {[a |-> "role", role |-> r] : r \in RoleNames(s)}

Init == st \in {InitLayer, InitSerial, InitRecurrent(TRUE), InitRecurrent(FALSE), InitBiclique}
Next == \E o \in Ops(st) : \E mo \in MApply(st, o) : st' = mo.st
Spec == Init /\ [][Next]_vars

WellFormedInv == WellFormed(st)
\* every operation means on the three relations what the documentation says, and a refused call changes nothing
Refinement == \A o \in Ops(st) : \A mo \in MApply(st, o) : AbsStep(st, o, mo)
\* listings show exactly what is registered
ListingsExact ==
  /\ \A mo \in MList(st, "cells") : {mo.ret.v[i] : i \in DOMAIN mo.ret.v} = CellSet(st) /\ Len(mo.ret.v) = Cardinality(CellSet(st))
  /\ \A mo \in MList(st, "synapses") : mo.ret.v = st.C
\* get_cell succeeds exactly for existing cells; the shipped topologies never change
GetCellExact == \A c \in AllC(st), n \in AllN(st) :
                  \A mo \in MGetCell(st, c, n) : (mo.ret.t = "cell") = (<<c, n>> \in CellSet(st))
FixedNeverChange == \A o \in Ops(st) : \A mo \in MApply(st, o) : Fixed(st) => mo.st = st
\* every named accessor of a shipped topology names a registered component (or None for the untrainable feedback cells)
RolesRegistered ==
  \A r \in RoleNames(st) :
     LET x == Roles(st)[r]
     IN CASE x.k \in {"c", "s", "u"} -> x.name \in Range(st.C)
          [] x.k = "n" -> x.name \in Range(st.N)
          [] x.k = "cell" -> \E p \in CellSet(st) : x.name = p[1] \o "/" \o p[2]
          [] OTHER -> st.kind = "recurrent" /\ ~st.tf
Deterministic == \A o \in Ops(st) : Cardinality(MApply(st, o)) = 1

Emit == PrintT(ToJson([s |-> st, out |-> {[op |-> o, res |-> MApply(st, o)] : o \in Ops(st)}]))
=============================================================================
