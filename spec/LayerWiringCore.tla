-------------------------- MODULE LayerWiringCore --------------------------
(***************************************************************************)
(* C17 - dataflow of the inferno layers (inferno/neural/network.py:        *)
(* Layer.forward, Serial, Biclique, RecurrentSerial) and the meaning of    *)
(* clear().                                                                *)
(*                                                                         *)
(* Components are replaced by a PROBE ALGEBRA over exact integers, chosen  *)
(* so that every wiring mistake changes a number:                          *)
(*   connection c  (state: m = its previous input, 0 when fresh/cleared;   *)
(*                  learned parameter w, kept by clear)                    *)
(*        x  |->  (CA[c] + w) * x + CB[c] + CK[c] * m                      *)
(*   out-transform of connection c    v |-> v + PT[c]                      *)
(*   in-transform  (recurrent only)   v |-> <<v + IT[j]>>                  *)
(*   pre-output transform of group n  v |-> v + NU[n]                      *)
(*   neuron group n (state: m = its previous input, s = its last output =  *)
(*                  its `spike`, both 0 when fresh/cleared; adaptation a,  *)
(*                  kept by clear and incremented by every step)           *)
(*        x  |->  NP[n] * x + m + a                                        *)
(*   combine: sum / mean / prod / min / max over the connections that were *)
(*            run, or a custom callable  sum_c CW[c] * v_c  keyed by the   *)
(*            connection names.                                            *)
(* With combine = mean all neuron-side quantities are carried multiplied   *)
(* by Scale = 6 (= lcm(1,2,3)), so that they stay integers.                *)
(*                                                                         *)
(* Two layers:                                                             *)
(*   Abs  - the documented dataflow as a function of the HISTORY of inputs *)
(*          since the layer was built or last cleared (a freshly built     *)
(*          layer carrying the learned parameters and adaptations);        *)
(*   Mech - the stepwise algorithm of the code with explicit component     *)
(*          state, the lazily created feedback-spike buffer, two-pass      *)
(*          recurrent forward, and the clear cascade.                      *)
(* state  st = [cfg, w, ad, cm, nm, sp, fb, hist]                          *)
(*   cfg   [kind, nc, nn, comb, tr]                                        *)
(*   w     learned weight increment (all connections)                      *)
(*   ad    adaptation per neuron group                                     *)
(*   cm    per connection: previous input (synapse state)                  *)
(*   nm    per neuron group: previous input;  sp: last output (`spike`)    *)
(*   fb    stored feedback spikes of RecurrentSerial, -1 = None            *)
(*   hist  inputs (and weights in force) since built / last cleared        *)
(***************************************************************************)
EXTENDS Integers, Sequences, FiniteSets, TLC

CA == <<2, 3, 5>>
CB == <<7, 11, 13>>
CK == <<17, 19, 23>>
PT == <<30, 40, 50>>
IT == <<1, 2>>
NU == <<600, 700>>
NP == <<2, 3>>
CW == <<1, 2, 3>>

Scale(cfg) == IF cfg.comb = "mean" THEN 6 ELSE 1
Tr(cfg, v) == IF cfg.tr THEN v ELSE 0

Out(st, r) == [st |-> st, ret |-> r]

RECURSIVE SumSeq(_), ProdSeq(_), MinSeq(_), MaxSeq(_)
SumSeq(s) == IF s = <<>> THEN 0 ELSE Head(s) + SumSeq(Tail(s))
ProdSeq(s) == IF s = <<>> THEN 1 ELSE Head(s) * ProdSeq(Tail(s))
MinSeq(s) == IF Len(s) = 1 THEN s[1] ELSE LET m == MinSeq(Tail(s)) IN IF s[1] <= m THEN s[1] ELSE m
MaxSeq(s) == IF Len(s) = 1 THEN s[1] ELSE LET m == MaxSeq(Tail(s)) IN IF s[1] >= m THEN s[1] ELSE m

\* the members of S within i..n as an ascending sequence
RECURSIVE PickFrom(_, _, _)
PickFrom(i, n, S) == IF i > n THEN <<>> ELSE (IF i \in S THEN <<i>> ELSE <<>>) \o PickFrom(i + 1, n, S)

ConnOut(c, x, m, w) == (CA[c] + w) * x + CB[c] + CK[c] * m
NeurOut(n, x, m, a, S) == NP[n] * x + m + S * a

\* combination of the transformed outputs v (a function on the set `run` of connections that
\* were given an input), scaled by S
Combine(cfg, run, v) ==
  LET idx == PickFrom(1, cfg.nc, run)
      vs == [i \in 1..Len(idx) |-> v[idx[i]]]
  IN CASE cfg.comb = "sum" -> SumSeq(vs)
       [] cfg.comb = "mean" -> (6 * SumSeq(vs)) \div Len(vs)
       [] cfg.comb = "prod" -> ProdSeq(vs)
       [] cfg.comb = "min" -> MinSeq(vs)
       [] cfg.comb = "max" -> MaxSeq(vs)
       [] cfg.comb = "custom" -> SumSeq([i \in 1..Len(idx) |-> CW[idx[i]] * v[idx[i]]])
       [] OTHER -> vs[1]                 \* serial: the only connection

(***************************************************************************)
(* Initial (freshly built) dynamic state                                   *)
(***************************************************************************)
InitState(cfg, w, ad) ==
  [cfg |-> cfg, w |-> w, ad |-> ad,
   cm |-> [c \in 1..cfg.nc |-> 0], nm |-> [n \in 1..cfg.nn |-> 0], sp |-> [n \in 1..cfg.nn |-> 0],
   fb |-> -1, fb0 |-> 0, hist |-> <<>>]
\* fb0: the feedback spikes carried ACROSS the last clear (RecurrentSerial.clear(clear_feedback=False)), 0: none

Dyn(st) == [cm |-> st.cm, nm |-> st.nm, sp |-> st.sp, fb |-> st.fb]
Kept(st) == [cfg |-> st.cfg, w |-> st.w, ad |-> st.ad]

(***************************************************************************)
(* Mech: Layer.forward for Serial / Biclique                               *)
(*   res = {k: connections_[k](v...) for k, v in inputs.items()}             *)
(*   wiring(res):  serial   {neuron: transform(res[connection])}           *)
(*                 biclique {k: pre_output[k](combine({k: post_input[k](v)}))} *)
(*   {k: neurons_[k](v)}                                                   *)
(* x[c] = 0 means connection c was given no input this step.               *)
(***************************************************************************)
MStepFlat(st, x) ==
  LET cfg == st.cfg
      S == Scale(cfg)
      run == {c \in 1..cfg.nc : x[c] # 0}
      cout == [c \in 1..cfg.nc |-> IF c \in run THEN ConnOut(c, x[c], st.cm[c], st.w) ELSE -1]
      pin == [c \in 1..cfg.nc |-> cout[c] + Tr(cfg, PT[c])]
      comb == Combine(cfg, run, pin)
      nin == [n \in 1..cfg.nn |->
                comb + (IF cfg.kind = "biclique" THEN S * Tr(cfg, NU[n]) ELSE 0)]
      y == [n \in 1..cfg.nn |-> NeurOut(n, nin[n], st.nm[n], st.ad[n], S)]
      st2 == [st EXCEPT !.cm = [c \in 1..cfg.nc |-> IF c \in run THEN x[c] ELSE st.cm[c]],
                        !.nm = nin, !.sp = y,
                        !.ad = [n \in 1..cfg.nn |-> st.ad[n] + 1],
                        !.hist = Append(st.hist, [x |-> x, w |-> st.w, cut |-> FALSE])]
  IN {Out(st2, [t |-> "out", y |-> y, nin |-> nin, cin |-> x, cout |-> cout])}

(***************************************************************************)
(* Mech: RecurrentSerial.forward.  Connections 1 = feedfwd, 2 = lateral,   *)
(* 3 = feedback; neuron groups 1 = feedfwd, 2 = feedback.                  *)
(*   if feedback_spikes is None: feedback_spikes = zeros_like(fb.spike)    *)
(*   pass 1: feedfwd(inputs), feedback(feedback_in(feedback_spikes))       *)
(*           feedfwd neuron <- feedfwd_out(.) + feedback_out(.)            *)
(*   pass 2: lateral(lateral_in(feedfwd neuron.spike))                     *)
(*           feedback neuron <- lateral_out(.)                             *)
(*   feedback_spikes = feedback neuron.spike                               *)
(***************************************************************************)
MStepRec(st, x) ==
  LET cfg == st.cfg
      fb0 == IF st.fb = -1 THEN 0 ELSE st.fb
      fbin == fb0 + Tr(cfg, IT[2])
      c1 == ConnOut(1, x[1], st.cm[1], st.w)
      c3 == ConnOut(3, fbin, st.cm[3], st.w)
      n1 == (c1 + Tr(cfg, PT[1])) + (c3 + Tr(cfg, PT[3]))
      y1 == NeurOut(1, n1, st.nm[1], st.ad[1], 1)
      latin == y1 + Tr(cfg, IT[1])
      c2 == ConnOut(2, latin, st.cm[2], st.w)
      n2 == c2 + Tr(cfg, PT[2])
      y2 == NeurOut(2, n2, st.nm[2], st.ad[2], 1)
      st2 == [st EXCEPT !.cm = <<x[1], latin, fbin>>, !.nm = <<n1, n2>>, !.sp = <<y1, y2>>,
                        !.ad = <<st.ad[1] + 1, st.ad[2] + 1>>, !.fb = y2,
                        !.hist = Append(st.hist, [x |-> x, w |-> st.w, cut |-> (st.fb = -1 /\ st.hist # <<>>)])]
  IN {Out(st2, [t |-> "out", y |-> <<y1, y2>>, nin |-> <<n1, n2>>,
                cin |-> <<x[1], latin, fbin>>, cout |-> <<c1, c2, c3>>])}

MStep(st, x) == IF st.cfg.kind = "recurrent" THEN MStepRec(st, x) ELSE MStepFlat(st, x)

(***************************************************************************)
(* Mech: clear().  The cascade the documentation describes: every          *)
(* connection (and through it its synapse and updater) and every neuron    *)
(* group is cleared; RecurrentSerial first drops its stored feedback       *)
(* spikes.  `iter` names what the loop `for connection in connections_`    *)
(* iterates: "values" (the modules, intended) or "keys" (what iterating a  *)
(* ModuleDict yields: strings, so `.clear` raises AttributeError).         *)
(***************************************************************************)
MClear(st, iter) ==
  LET s1 == IF st.cfg.kind = "recurrent" THEN [st EXCEPT !.fb = -1, !.fb0 = 0] ELSE st
  IN IF iter = "keys"
     THEN {Out(s1, [t |-> "err", e |-> "AttributeError"])}
     ELSE {Out([s1 EXCEPT !.cm = [c \in 1..st.cfg.nc |-> 0],
                          !.nm = [n \in 1..st.cfg.nn |-> 0],
                          !.sp = [n \in 1..st.cfg.nn |-> 0],
                          !.hist = <<>>],
               [t |-> "ok"])}

\* RecurrentSerial.clear(submodules=False): only the stored feedback spikes are dropped; connections and neurons
\* keep their state.  The next step then sees NO feedback spikes (as the first step does).
\* Layer.clear(submodules=False) on a Serial / Biclique clears nothing at all.
MClearFb(st) == {Out([st EXCEPT !.fb = -1, !.fb0 = IF st.hist = <<>> THEN 0 ELSE @], [t |-> "ok"])}

\* RecurrentSerial.clear(clear_feedback=False): connections and neurons are cleared, the stored feedback spikes are
\* kept - the first step after it still receives them through the feedback connection
MClearKeepFb(st) ==
  {Out([st EXCEPT !.cm = [c \in 1..st.cfg.nc |-> 0], !.nm = [n \in 1..st.cfg.nn |-> 0], !.sp = [n \in 1..st.cfg.nn |-> 0],
                  !.hist = <<>>, !.fb0 = IF st.fb = -1 THEN 0 ELSE st.fb],
       [t |-> "ok"])}

MLearn(st) == {Out([st EXCEPT !.w = st.w + 1], [t |-> "ok"])}

MApplyI(st, o, iter) ==
  CASE o.a = "step" -> MStep(st, o.x)
    [] o.a = "clear" -> MClear(st, iter)
    [] o.a = "clear_fb" -> MClearFb(st)
    [] o.a = "clear_keepfb" -> MClearKeepFb(st)
    [] o.a = "learn" -> MLearn(st)

MApply(st, o) == MApplyI(st, o, "values")

(***************************************************************************)
(* Abs: what the layer documentation promises, as a function of the inputs *)
(* h[1..T] received since the layer was built / cleared, the learned       *)
(* weights in force at each of those steps and the adaptation a0 it        *)
(* carried when it was built / cleared.  No component state: every         *)
(* quantity of step t is expressed through quantities of steps t and t-1.  *)
(***************************************************************************)
\* most recent input of connection c strictly before step t (0: none, fresh synapse)
RECURSIVE PrevIn(_, _, _)
PrevIn(h, c, t) == IF t <= 1 THEN 0
                   ELSE IF h[t - 1].x[c] # 0 THEN h[t - 1].x[c] ELSE PrevIn(h, c, t - 1)

AFlatAt(cfg, a0, h, t) ==
  LET S == Scale(cfg)
      NIn[u \in 0..t] ==
        IF u = 0 THEN [n \in 1..cfg.nn |-> 0]
        ELSE LET x == h[u].x
                 run == {c \in 1..cfg.nc : x[c] # 0}
                 pin == [c \in 1..cfg.nc |->
                           IF c \in run THEN ConnOut(c, x[c], PrevIn(h, c, u), h[u].w) + Tr(cfg, PT[c]) ELSE -1]
                 comb == Combine(cfg, run, pin)
             IN [n \in 1..cfg.nn |-> comb + (IF cfg.kind = "biclique" THEN S * Tr(cfg, NU[n]) ELSE 0)]
      x == h[t].x
  IN [y |-> [n \in 1..cfg.nn |-> NP[n] * NIn[t][n] + NIn[t - 1][n] + S * (a0[n] + t - 1)],
      nin |-> NIn[t],
      cin |-> x,
      cout |-> [c \in 1..cfg.nc |-> IF x[c] # 0 THEN ConnOut(c, x[c], PrevIn(h, c, t), h[t].w) ELSE -1]]

\* the recurrent layer: feed-forward neurons get feed-forward current + the feedback
\* connection's response to the feedback spikes OF THE PREVIOUS STEP (none on the first)
ARecAtF(cfg, a0, h, t, fb0) ==
  LET R[u \in 0..t] ==
        IF u = 0 THEN [y1 |-> 0, y2 |-> 0, n1 |-> 0, n2 |-> 0, fbin |-> 0, latin |-> 0, c1 |-> 0, c2 |-> 0, c3 |-> 0]
        ELSE LET p == R[u - 1]
                 w == h[u].w
                 fbin == (IF u = 1 THEN fb0 ELSE IF h[u].cut THEN 0 ELSE p.y2) + Tr(cfg, IT[2])   \* no spikes on the first step
                                                                                 \* (unless carried across a clear), nor
                                                                                 \* after the feedback was dropped
                 c1 == ConnOut(1, h[u].x[1], IF u = 1 THEN 0 ELSE h[u - 1].x[1], w)
                 c3 == ConnOut(3, fbin, p.fbin, w)
                 n1 == c1 + Tr(cfg, PT[1]) + c3 + Tr(cfg, PT[3])
                 y1 == NP[1] * n1 + p.n1 + (a0[1] + u - 1)
                 latin == y1 + Tr(cfg, IT[1])
                 c2 == ConnOut(2, latin, p.latin, w)
                 n2 == c2 + Tr(cfg, PT[2])
                 y2 == NP[2] * n2 + p.n2 + (a0[2] + u - 1)
             IN [y1 |-> y1, y2 |-> y2, n1 |-> n1, n2 |-> n2, fbin |-> fbin, latin |-> latin,
                 c1 |-> c1, c2 |-> c2, c3 |-> c3]
      r == R[t]
  IN [y |-> <<r.y1, r.y2>>, nin |-> <<r.n1, r.n2>>, cin |-> <<h[t].x[1], r.latin, r.fbin>>,
      cout |-> <<r.c1, r.c2, r.c3>>]

ARecAt(cfg, a0, h, t) == ARecAtF(cfg, a0, h, t, 0)
AbsAtF(cfg, a0, h, t, fb0) == IF cfg.kind = "recurrent" THEN ARecAtF(cfg, a0, h, t, fb0) ELSE AFlatAt(cfg, a0, h, t)
AbsAt(cfg, a0, h, t) == AbsAtF(cfg, a0, h, t, 0)

\* adaptation carried when the layer was built / last cleared
A0(st) == [n \in 1..st.cfg.nn |-> st.ad[n] - Len(st.hist)]

(***************************************************************************)
(* Refinement of one operation at one state:                               *)
(*  step : what Mech returns (outputs, neuron inputs, connection inputs    *)
(*         and outputs) is what Abs derives from the history alone         *)
(*         (so the state reached after clear + replay of h is             *)
(*         indistinguishable from a fresh layer fed h: ReplayAfterClear);  *)
(*  clear: succeeds, dynamic state = that of a freshly built layer, learned*)
(*         parameters and adaptations kept.                                *)
(***************************************************************************)
RefinesAtI(st, o, iter) ==
  \A mo \in MApplyI(st, o, iter) :
    CASE o.a = "step" ->
           LET h == Append(st.hist, [x |-> o.x, w |-> st.w,
                                      cut |-> (st.cfg.kind = "recurrent" /\ st.fb = -1 /\ st.hist # <<>>)])
               e == AbsAtF(st.cfg, A0(st), h, Len(h), st.fb0)
           IN /\ mo.ret.t = "out"
              /\ mo.ret.y = e.y /\ mo.ret.nin = e.nin /\ mo.ret.cin = e.cin /\ mo.ret.cout = e.cout
      [] o.a = "clear" ->
           /\ mo.ret.t = "ok"
           /\ mo.st = InitState(st.cfg, st.w, st.ad)
      [] o.a = "clear_fb" -> mo.ret.t = "ok" /\ Kept(mo.st) = Kept(st) /\ Dyn(mo.st) = [Dyn(st) EXCEPT !.fb = -1]
                             /\ mo.st.hist = st.hist
      [] o.a = "clear_keepfb" ->
           /\ mo.ret.t = "ok"
           /\ mo.st = [InitState(st.cfg, st.w, st.ad) EXCEPT !.fb = st.fb, !.fb0 = IF st.fb = -1 THEN 0 ELSE st.fb]
      [] OTHER -> Kept(mo.st).ad = st.ad /\ Dyn(mo.st) = Dyn(st)

RefinesAt(st, o) == RefinesAtI(st, o, "values")
=============================================================================
