--------------------------- MODULE LayerWiringMC ---------------------------
(***************************************************************************)
(* Exhaustive exploration of the layer dataflow model (C17) and behaviour  *)
(* generation.  The initial states enumerate the layer topologies; from    *)
(* each, every sequence of step / clear / learn operations is explored     *)
(* (bounded by MaxDepth, at most MaxSteps steps between two clears).       *)
(* The invariants quantify over ALL operations applicable at every         *)
(* reachable state.                                                        *)
(***************************************************************************)
EXTENDS LayerWiringCore, Json

CONSTANTS
  Kinds,      \* subset of {"serial", "biclique", "recurrent"}
  NCs, NNs,   \* numbers of connections / neuron groups offered to Biclique
  Combs,      \* combine modes offered to Biclique
  Trs,        \* subset of BOOLEAN: transforms configured or left to their defaults
  Toks,       \* input tokens (positive integers)
  Partial,    \* Biclique: also steps that give an input to only some connections
  MaxSteps,   \* steps between two clears
  WMax,       \* bound on the learned weight increment
  ClearIter,  \* "values" (intended) or "keys" (what the loop in Layer.clear iterates)
  MaxDepth

VARIABLE st
vars == <<st>>

Cfgs ==
  (IF "serial" \in Kinds
   THEN {[kind |-> "serial", nc |-> 1, nn |-> 1, comb |-> "none", tr |-> t] : t \in Trs} ELSE {})
  \cup (IF "biclique" \in Kinds
        THEN {[kind |-> "biclique", nc |-> c, nn |-> n, comb |-> m, tr |-> t] :
                 c \in NCs, n \in NNs, m \in Combs, t \in Trs} ELSE {})
  \cup (IF "recurrent" \in Kinds
        THEN {[kind |-> "recurrent", nc |-> 3, nn |-> 2, comb |-> "none", tr |-> t] : t \in Trs} ELSE {})

NExt(cfg) == IF cfg.kind = "biclique" THEN cfg.nc ELSE 1

Ops(s) ==
  (IF Len(s.hist) < (IF s.fb0 # 0 THEN 2 ELSE MaxSteps)     \* (tokens grow with every step: 32-bit integers)
   THEN {[a |-> "step", x |-> x] :
           x \in {v \in [1..NExt(s.cfg) -> (IF Partial /\ s.cfg.kind = "biclique" THEN Toks \cup {0} ELSE Toks)] :
                    \E c \in 1..NExt(s.cfg) : v[c] # 0}}
   ELSE {})
  \cup {[a |-> "clear"]}
  \cup (IF s.cfg.kind # "recurrent" \/ s.fb # -1 THEN {[a |-> "clear_fb"]} ELSE {})      \* clear(submodules=False)
  \cup (IF s.cfg.kind = "recurrent" /\ s.fb0 = 0 /\ Len(s.hist) <= 1
        THEN {[a |-> "clear_keepfb"]} ELSE {})                                              \* clear(clear_feedback=False)
  \cup (IF s.w < WMax THEN {[a |-> "learn"]} ELSE {})

Init == \E cfg \in Cfgs : st = InitState(cfg, 0, [n \in 1..cfg.nn |-> 0])
Next == \E o \in Ops(st) : \E mo \in MApplyI(st, o, ClearIter) : st' = mo.st
Spec == Init /\ [][Next]_vars

Bounded == TLCGet("level") <= MaxDepth

TypeOK ==
  /\ st.cfg \in Cfgs
  /\ st.w \in 0..WMax
  /\ DOMAIN st.cm = 1..st.cfg.nc /\ DOMAIN st.nm = 1..st.cfg.nn /\ DOMAIN st.sp = 1..st.cfg.nn
  /\ \A n \in 1..st.cfg.nn : st.ad[n] >= Len(st.hist)
  /\ Len(st.hist) <= MaxSteps
  /\ (st.cfg.kind # "recurrent") => st.fb = -1
  /\ (st.hist = <<>> /\ st.fb0 = 0) => Dyn(st) = Dyn(InitState(st.cfg, st.w, st.ad))   \* nothing survives a clear
  /\ (st.hist = <<>> /\ st.fb0 # 0) => st.fb = st.fb0      \* ... but the feedback spikes it was asked to keep

\* C17, every operation at every reachable state: outputs are the documented dataflow
\* applied to the history since the last clear; clear succeeds and restores
Refinement == \A o \in Ops(st) : RefinesAtI(st, o, ClearIter)

\* C17: clearing succeeds on any layer
ClearSucceeds == \A mo \in MApplyI(st, [a |-> "clear"], ClearIter) : mo.ret.t = "ok"

\* C17: replaying the inputs received since the last clear on the cleared layer reproduces
\* the outputs (while adaptations and weights are kept, so the comparison is with a fresh
\* layer carrying them).  Stated directly: clear, then feed the recorded history again.
RECURSIVE Run(_, _, _)
Run(s, h, k) ==   \* sequence of returns of feeding h[k..] to s (weights in force are s.w)
  IF k > Len(h) THEN <<>>
  ELSE LET mo == CHOOSE m \in MStep(s, h[k].x) : TRUE IN <<mo.ret>> \o Run(mo.st, h, k + 1)

ReplayAfterClear ==
  \A mo \in MApplyI(st, [a |-> "clear"], ClearIter) :
     mo.ret.t = "ok" =>
        LET fresh == InitState(st.cfg, st.w, st.ad) IN
        Run(mo.st, st.hist, 1) = Run(fresh, st.hist, 1)

(***************************************************************************)
(* Behaviour generation: one JSON line per distinct state with the         *)
(* complete outcome table of that state.                                   *)
(***************************************************************************)
Emit == PrintT(ToJson([s |-> st, out |-> {[op |-> o, res |-> MApplyI(st, o, ClearIter)] : o \in Ops(st)}]))
=============================================================================
