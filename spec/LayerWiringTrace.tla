-------------------------- MODULE LayerWiringTrace --------------------------
(***************************************************************************)
(* Trace specification for programs recorded from real inferno layers      *)
(* assembled from probe components (C17, direction B).  A batch file holds *)
(* many traces:                                                            *)
(*   [ [hdr |-> [init, cfg, waive], ev |-> << [op, ret, st], ... >>] ]     *)
(* Every event must be an outcome of MApply on the current state (same     *)
(* return value, same projected state) and the step must refine the        *)
(* history-based dataflow (RefinesAt).  Lines listed in hdr.waive adopt    *)
(* the logged state instead (only used to examine the rest of a trace once *)
(* a rejection has been reported).                                         *)
(***************************************************************************)
EXTENDS LayerWiringCore, Json, IOUtils, TLCExt

Traces == JsonDeserialize(IOEnv.TRACE_FILE)

VARIABLES tid, l, st
vars == <<tid, l, st>>

NT == Len(Traces)
Evs(t) == Traces[t].ev
MaxI(a, b) == IF a >= b THEN a ELSE b
Waived(t) == {Traces[t].hdr.waive[i] : i \in DOMAIN Traces[t].hdr.waive}

ASSUME \A i \in 1..NT : TLCSet(100 + i, 0)

Init == /\ tid \in 1..NT
        /\ l = 1
        /\ st = Traces[tid].hdr.init

Matches(e) == {mo \in MApply(st, e.op) : mo.ret = e.ret /\ mo.st = e.st}

Step ==
  /\ l <= Len(Evs(tid))
  /\ LET e == Evs(tid)[l] IN
       IF l \in Waived(tid)
       THEN st' = e.st
       ELSE /\ RefinesAt(st, e.op)
            /\ \E mo \in Matches(e) : st' = mo.st
  /\ l' = l + 1
  /\ UNCHANGED tid

TraceSpec == Init /\ [][Step]_vars

Track ==
  /\ TLCSet(100 + tid, MaxI(TLCGet(100 + tid), l))
  /\ IF l <= Len(Evs(tid)) /\ ~(l \in Waived(tid))
        /\ (Matches(Evs(tid)[l]) = {} \/ ~RefinesAt(st, Evs(tid)[l].op))
     THEN PrintT(ToJson([diag |-> tid, l |-> l, refok |-> RefinesAt(st, Evs(tid)[l].op),
                         expected |-> MApply(st, Evs(tid)[l].op), state |-> st]))
     ELSE TRUE

Post ==
  PrintT(ToJson([rejected |-> {<<i, TLCGet(100 + i)>> : i \in {j \in 1..NT : TLCGet(100 + j) <= Len(Evs(j))}},
                 total |-> NT]))
=============================================================================
