--------------------------- MODULE LifecycleCore ---------------------------
(***************************************************************************)
(* Functional core of the trainer / monitor lifecycle specification        *)
(* (property C15):                                                         *)
(*   inferno/learn/base.py       CellTrainer, IndependentCellTrainer       *)
(*   inferno/observe/pooling.py  MonitorPool, Observable                   *)
(*   inferno/observe/monitors.py Monitor (a ContextualHook on the layer)   *)
(*   inferno/neural/network.py   Cell (an Observable), Layer               *)
(*   shipped trainers            STDP (4 monitors per cell), MSTDPET (6)   *)
(*                                                                         *)
(* Two cells "a" (1) and "b" (2) that share a neuron group or a connection *)
(* of one layer - or (share = "layers") live in two different layers with  *)
(* identical component names - and NT trainers.                            *)
(*                                                                         *)
(* Mech (what the code does): every trainer owns a pool                    *)
(*      pool[t][c][m] = id of a PHYSICAL monitor object (0: none)          *)
(* where a physical monitor may be aliased by both cells of the SAME       *)
(* trainer (same monitor name, same realigned attribute, same tags);       *)
(*      ph[id] = [reg, rec, var, tag]   registered with its layer / what   *)
(* it holds / which reducer + tags variant it was built with ("std": what  *)
(* the trainer installs, "alt": another amplitude and an extra tag) /      *)
(* whether it carries tags (objects built with unique = True do not and    *)
(* can never be aliased)                                                   *)
(* A registered monitor records at a layer step iff the layer is in        *)
(* training mode (train_update = True, eval_update = False).               *)
(* Physical ids are kept canonical (numbered by first reference in the     *)
(* traversal trainer, cell, name), unreferenced objects die.               *)
(*      redir[t][c]  the monitors an eligibility-trace trainer t reads on  *)
(* cell c through the cell's name table (Observable.monitors, one table    *)
(* per cell shared by ALL trainers, last writer wins) are not its own.     *)
(*                                                                         *)
(* Abs (what C15 says): one LOGICAL monitor per (trainer, cell, name),     *)
(*      mon[t][c][m] = [on, rec]                                           *)
(* whose rec grows by the step id at each layer step iff the trainer and   *)
(* the layer are both in training mode, is reset by clear, and is touched  *)
(* by nothing else - in particular by no operation on another cell or      *)
(* another trainer.                                                        *)
(*                                                                         *)
(*   MApply(st, op) == set of [st |-> st', ret |-> r]                      *)
(*   AApply(a, op)  == a'                                                  *)
(*                                                                         *)
(* What a monitor holds (rec) is kept in the form in which it can be       *)
(* observed through the public API:                                        *)
(*   trace monitors (names 1, 3)  the whole sequence of recorded step ids  *)
(*                                (a 1/2-decay cumulative trace encodes it)*)
(*   pass-through   (names 2, 4)  <<last recorded step id>>                *)
(*   eligibility    (names 5, 6)  <<0>> once anything has been recorded    *)
(***************************************************************************)
EXTENDS Integers, Sequences, FiniteSets, TLC

NAMES == <<"trace_post", "spike_post", "trace_pre", "spike_pre", "elig_post", "elig_pre">>
CELLS == <<"a", "b">>
NC == 2
NamesOf(tt) == IF tt = "mstdpet" THEN 1..6 ELSE 1..4
Kind(m) == IF m \in {1, 3} THEN "trace" ELSE IF m \in {2, 4} THEN "pass" ELSE "elig"
Unique(m) == m >= 5      \* the eligibility monitors are created with unique = True

\* can the monitors named m (built as variant var) of the two cells be one object?  Same basis
\* (layer), same realigned attribute and same tags: the std trace monitors carry the cell's
\* hyper-parameters in their tags, the alt ones the same values for both cells
Aliasable(cfg, m, var) ==
  /\ cfg.share # "layers"
  /\ IF cfg.share = "neuron" THEN m \in {1, 2} ELSE m \in {3, 4}
  /\ (Kind(m) = "pass" \/ var = "alt" \/ cfg.samehp)

LayerOf(cfg, c) == IF cfg.share = "layers" THEN c ELSE 1
Layers(cfg) == IF cfg.share = "layers" THEN {1, 2} ELSE {1}

Record(m, rec, id) == CASE Kind(m) = "trace" -> Append(rec, id)
                        [] Kind(m) = "pass"  -> <<id>>
                        [] OTHER             -> <<0>>

NT(st) == Len(st.tr)
Out(st, r) == [st |-> st, ret |-> r]
OkR == [err |-> "", v |-> <<>>]
Ok(st) == {Out(st, OkR)}
Fail(st, e) == {Out(st, [err |-> e, v |-> <<>>])}

(***************************************************************************)
(* canonical numbering of physical monitors                                *)
(***************************************************************************)
RECURSIVE Flat3(_, _, _, _)
Flat3(pool, t, c, m) ==     \* ids in traversal order
  IF t > Len(pool) THEN <<>>
  ELSE IF c > NC THEN Flat3(pool, t + 1, 1, 1)
  ELSE IF m > 6 THEN Flat3(pool, t, c + 1, 1)
  ELSE (IF pool[t][c][m] # 0 THEN <<pool[t][c][m]>> ELSE <<>>) \o Flat3(pool, t, c, m + 1)

RECURSIVE Dedup(_, _)
Dedup(s, acc) == IF Len(s) = 0 THEN acc
                 ELSE IF \E i \in DOMAIN acc : acc[i] = Head(s) THEN Dedup(Tail(s), acc)
                 ELSE Dedup(Tail(s), Append(acc, Head(s)))

IndexOf(s, x) == CHOOSE i \in DOMAIN s : s[i] = x

Normalize(st) ==
  LET order == Dedup(Flat3(st.pool, 1, 1, 1), <<>>) IN
  [st EXCEPT !.ph = [k \in 1..Len(order) |-> st.ph[order[k]]],
             !.pool = [t \in DOMAIN st.pool |-> [c \in 1..NC |-> [m \in 1..6 |->
                          IF st.pool[t][c][m] = 0 THEN 0 ELSE IndexOf(order, st.pool[t][c][m])]]]]

IdsOf(st, t) == {st.pool[t][c][m] : c \in 1..NC, m \in 1..6} \ {0}
\* is the object also listed under another cell of the same trainer?
SharedElsewhere(st, t, c, id) == \E c2 \in 1..NC : c2 # c /\ \E m \in 1..6 : st.pool[t][c2][m] = id
HasMonitors(st, t, c) == \E m \in 1..6 : st.pool[t][c][m] # 0

(***************************************************************************)
(* Mech                                                                    *)
(***************************************************************************)
\* MonitorPool.add_monitor(cell, name, attr, constructor, unique, **tags) with the constructor /
\* tags variant var
AddMon(st, t, c, m, u, var) ==
  LET cur == st.pool[t][c][m] IN
  IF cur # 0 /\ ~u THEN st          \* the existing monitor is returned, whatever was asked for
  ELSE
    LET s1 == [st EXCEPT !.pool[t][c][m] = 0]   \* unique: the listed one is dropped (NOT deregistered:
                                                \* it may still be pooled under the other cell)
        cands == {c2 \in 1..NC : /\ c2 # c /\ st.tr[t].cells[c2] /\ s1.pool[t][c2][m] # 0
                                  /\ s1.ph[s1.pool[t][c2][m]].tag /\ s1.ph[s1.pool[t][c2][m]].var = var}
        found == IF ~u /\ Aliasable(st.cfg, m, var) /\ cands # {}
                 THEN s1.pool[t][CHOOSE c2 \in cands : TRUE][m] ELSE 0
        nid == Len(s1.ph) + 1
        s2 == IF found # 0 THEN s1
              ELSE [s1 EXCEPT !.ph = Append(@, [reg |-> TRUE, rec |-> <<>>, var |-> var, tag |-> ~u])]
        id == IF found # 0 THEN found ELSE nid
        s3 == IF st.tr[t].training THEN s2 ELSE [s2 EXCEPT !.ph[id].reg = FALSE]
    IN [s3 EXCEPT !.pool[t][c][m] = id]

RECURSIVE AddAll(_, _, _, _, _)
AddAll(st, t, c, m, last) ==
  IF m > last THEN st ELSE AddAll(AddMon(st, t, c, m, Unique(m), "std"), t, c, m + 1, last)

\* trainers (other than t) whose eligibility monitors on cell c read through the cell's name table
Readers(st, t, c) == {u \in 1..NT(st) : u # t /\ st.tr[u].alive /\ st.cfg.ttype[u] = "mstdpet" /\ st.tr[u].cells[c]}

\* writing names 1..4 of cell c into the shared table re-points what the readers read (as coded);
\* a corrected implementation leaves them alone: both outcomes are admitted, the first is the
\* known design defect and is reported by the NoRedirect invariant / by the harness
Redirecting(st, t, c, s2) ==
  LET rs == Readers(st, t, c) IN
  IF rs = {} THEN {s2}
  ELSE {s2, [s2 EXCEPT !.redir = [u \in DOMAIN @ |-> [k \in 1..NC |->
                                    IF u \in rs /\ k = c THEN TRUE ELSE @[u][k]]]]}

MRegisterCell(st, t, c) ==
  IF st.tr[t].cells[c] THEN Fail(st, "ValueError")
  ELSE LET s1 == [st EXCEPT !.tr[t].cells[c] = TRUE]
           s2 == Normalize(AddAll(s1, t, c, 1, IF st.cfg.ttype[t] = "mstdpet" THEN 6 ELSE 4))
       IN {Out(s, OkR) : s \in Redirecting(st, t, c, s2)}

\* del_observed: (repaired) only objects not listed under a surviving cell are deregistered;
\* D14 = TRUE models the code as found: every listed object is deregistered
DropSlot(st, t, c, m, d14) ==
  LET id == st.pool[t][c][m] IN
  IF id = 0 THEN st
  ELSE LET s1 == IF d14 \/ ~SharedElsewhere(st, t, c, id) THEN [st EXCEPT !.ph[id].reg = FALSE] ELSE st
       IN [s1 EXCEPT !.pool[t][c][m] = 0]

RECURSIVE DropAll(_, _, _, _, _)
DropAll(st, t, c, m, d14) == IF m > 6 THEN st ELSE DropAll(DropSlot(st, t, c, m, d14), t, c, m + 1, d14)

\* deregistration happens for all listed objects before the entries are removed
DeregAll(st, t, c, d14) ==
  [st EXCEPT !.ph = [i \in DOMAIN @ |->
     IF (\E m \in 1..6 : st.pool[t][c][m] = i) /\ (d14 \/ ~SharedElsewhere(st, t, c, i))
     THEN [@[i] EXCEPT !.reg = FALSE] ELSE @[i]]]

MDelCell(st, t, c) ==
  IF ~st.tr[t].cells[c] THEN Fail(st, "AttributeError")
  ELSE LET s1 == DeregAll(st, t, c, st.cfg.d14)
           s2 == [s1 EXCEPT !.pool[t][c] = [m \in 1..6 |-> 0], !.tr[t].cells[c] = FALSE, !.redir[t][c] = FALSE]
       IN Ok(Normalize(s2))

MAddMonitor(st, t, c, m, u, var) ==
  IF ~st.tr[t].cells[c] THEN Fail(st, "AttributeError")
  ELSE LET proceeds == st.pool[t][c][m] = 0 \/ u
           s2 == Normalize(AddMon(st, t, c, m, u, var))
       IN IF proceeds /\ m <= 4 THEN {Out(s, OkR) : s \in Redirecting(st, t, c, s2)} ELSE Ok(s2)

\* CellTrainer.add_cell: the cell alone, no monitors
MAddCell(st, t, c) ==
  IF st.tr[t].cells[c] THEN Fail(st, "ValueError") ELSE Ok([st EXCEPT !.tr[t].cells[c] = TRUE])

MDelMonitor(st, t, c, m) ==
  IF ~st.tr[t].cells[c] \/ ~HasMonitors(st, t, c) THEN Fail(st, "AttributeError")
  ELSE IF st.pool[t][c][m] = 0 THEN Fail(st, "AttributeError")
  ELSE Ok(Normalize(DropSlot(st, t, c, m, st.cfg.d14)))

MTrainerTrain(st, t, b) ==
  Ok([st EXCEPT !.tr[t].training = b,
                !.ph = [i \in DOMAIN @ |-> IF i \in IdsOf(st, t) THEN [@[i] EXCEPT !.reg = b] ELSE @[i]]])

\* a slot under which the object is listed (kind and layer are the same for all of them)
SlotOfId(st, i) ==
  CHOOSE x \in {<<t, c, m>> : t \in 1..NT(st), c \in 1..NC, m \in 1..6} : st.pool[x[1]][x[2]][x[3]] = i

\* a step of layer L: every registered monitor of that layer records iff the layer trains
MStep(st, L) ==
  LET id == st.clk + 1 IN
  Ok([st EXCEPT !.clk = id,
                !.ph = [i \in DOMAIN @ |->
                   LET x == SlotOfId(st, i) IN
                   IF st.ltr[L] /\ @[i].reg /\ LayerOf(st.cfg, x[2]) = L
                   THEN [@[i] EXCEPT !.rec = Record(x[3], @, id)] ELSE @[i]]])

\* what trainer() needs: every monitor it reads is listed and holds data (cells whose layer
\* is in eval mode are skipped)
Needed(tt) == IF tt = "mstdpet" THEN {5, 6} ELSE {1, 2, 3, 4}
Supplied(st, t) ==
  \A c \in 1..NC : (st.tr[t].cells[c] /\ st.ltr[LayerOf(st.cfg, c)]) =>
     \A m \in Needed(st.cfg.ttype[t]) : st.pool[t][c][m] # 0 /\ Len(st.ph[st.pool[t][c][m]].rec) > 0
MTrainerStep(st, t) ==
  IF ~st.tr[t].training THEN Ok(st)                     \* skipped
  ELSE IF Supplied(st, t) THEN Ok(st)
  ELSE Ok(st) \cup Fail(st, "Error")                    \* no data to compute from: not fixed by the property

MClear(st, t) ==
  Ok([st EXCEPT !.ph = [i \in DOMAIN @ |-> IF i \in IdsOf(st, t) THEN [@[i] EXCEPT !.rec = <<>>] ELSE @[i]]])

\* the last reference to the trainer is dropped and the collector runs
MDrop(st, t) ==
  Ok(Normalize([st EXCEPT !.tr[t] = [alive |-> FALSE, training |-> FALSE, cells |-> [c \in 1..NC |-> FALSE]],
                          !.pool[t] = [c \in 1..NC |-> [m \in 1..6 |-> 0]],
                          !.redir[t] = [c \in 1..NC |-> FALSE]]))

RECURSIVE ListNamed(_, _, _, _)
ListNamed(st, t, c, m) ==
  IF c > NC THEN <<>>
  ELSE IF m > 6 THEN ListNamed(st, t, c + 1, 1)
  ELSE (IF st.pool[t][c][m] # 0 THEN <<[c |-> CELLS[c], m |-> NAMES[m]]>> ELSE <<>>) \o ListNamed(st, t, c, m + 1)

MList(st, t, what, c) ==
  CASE what = "named"    -> {Out(st, [err |-> "", v |-> ListNamed(st, t, 1, 1)])}
    [] what = "monitors" -> {Out(st, [err |-> "", v |-> <<Cardinality(IdsOf(st, t))>>])}
    [] what = "cells"    -> {Out(st, [err |-> "", v |-> SelectSeq(CELLS, LAMBDA n : st.tr[t].cells[IF n = "a" THEN 1 ELSE 2])])}
    \* named_monitors_of(cell) = get_unit(cell).monitors = what iterating the trainer yields
    [] what = "of"       -> {Out(st, [err |-> "", v |-> SelectSeq(NAMES, LAMBDA n :
                                 \E m \in 1..6 : NAMES[m] = n /\ st.pool[t][c][m] # 0)])}

MApply(st, o) ==
  CASE o.a = "register_cell" -> MRegisterCell(st, o.t, o.c)
    [] o.a = "del_cell"      -> MDelCell(st, o.t, o.c)
    [] o.a = "add_monitor"   -> MAddMonitor(st, o.t, o.c, o.m, o.u, o.var)
    [] o.a = "add_cell"      -> MAddCell(st, o.t, o.c)
    [] o.a = "update"        -> Ok(st)
    [] o.a = "del_monitor"   -> MDelMonitor(st, o.t, o.c, o.m)
    [] o.a = "ttrain"        -> MTrainerTrain(st, o.t, o.b)
    [] o.a = "ltrain"        -> Ok([st EXCEPT !.ltr[o.l] = o.b])
    [] o.a = "step"          -> MStep(st, o.l)
    [] o.a = "tstep"         -> MTrainerStep(st, o.t)
    [] o.a = "clear"         -> MClear(st, o.t)
    [] o.a = "drop"          -> MDrop(st, o.t)
    [] o.a = "list"          -> MList(st, o.t, o.what, o.c)

Applicable(st, o) ==
  /\ "t" \in DOMAIN o => (o.t \in 1..NT(st) /\ st.tr[o.t].alive)
  /\ "m" \in DOMAIN o => (o.m \in NamesOf(st.cfg.ttype[o.t]))
  /\ "l" \in DOMAIN o => (o.l \in Layers(st.cfg))
  \* a bare cell (no monitors) under an eligibility-trace trainer: its eligibility monitors would
  \* have nothing to read - a usage error, not modelled
  /\ o.a = "add_cell" => st.cfg.ttype[o.t] = "stdp"

\* states in which an eligibility-trace trainer reads somebody else's monitors
Redirected(st) == \E t \in 1..NT(st), c \in 1..NC : st.redir[t][c]

(***************************************************************************)
(* Abs                                                                     *)
(*   a = [ltr, clk, tr: seq of [alive, training, cells], mon: t, c, m -> [on, rec]] *)
(***************************************************************************)
Off == [on |-> FALSE, rec |-> <<>>]
Fresh == [on |-> TRUE, rec |-> <<>>]

AApply(a, cfg, o) ==
  CASE o.a = "register_cell" ->
         IF a.tr[o.t].cells[o.c] THEN a
         ELSE [a EXCEPT !.tr[o.t].cells[o.c] = TRUE,
                        !.mon[o.t][o.c] = [m \in 1..6 |-> IF m \in NamesOf(cfg.ttype[o.t]) THEN Fresh ELSE Off]]
    [] o.a = "del_cell" ->
         IF ~a.tr[o.t].cells[o.c] THEN a
         ELSE [a EXCEPT !.tr[o.t].cells[o.c] = FALSE, !.mon[o.t][o.c] = [m \in 1..6 |-> Off]]
    [] o.a = "add_monitor" ->
         IF ~a.tr[o.t].cells[o.c] THEN a
         ELSE IF a.mon[o.t][o.c][o.m].on /\ ~o.u THEN a
         ELSE [a EXCEPT !.mon[o.t][o.c][o.m] = Fresh]
    [] o.a = "add_cell" -> [a EXCEPT !.tr[o.t].cells[o.c] = TRUE]
    [] o.a = "del_monitor" -> [a EXCEPT !.mon[o.t][o.c][o.m] = Off]
    [] o.a = "ttrain" -> [a EXCEPT !.tr[o.t].training = o.b]
    [] o.a = "ltrain" -> [a EXCEPT !.ltr[o.l] = o.b]
    [] o.a = "step" ->
         [a EXCEPT !.clk = @ + 1,
                   !.mon = [t \in DOMAIN @ |-> [c \in 1..NC |-> [m \in 1..6 |->
                       IF a.ltr[o.l] /\ LayerOf(cfg, c) = o.l /\ a.tr[t].alive /\ a.tr[t].training /\ @[t][c][m].on
                       THEN [@[t][c][m] EXCEPT !.rec = Append(@, a.clk + 1)] ELSE @[t][c][m]]]]]
    [] o.a = "clear" ->
         [a EXCEPT !.mon[o.t] = [c \in 1..NC |-> [m \in 1..6 |-> IF @[c][m].on THEN Fresh ELSE Off]]]
    [] o.a = "drop" ->
         [a EXCEPT !.tr[o.t] = [alive |-> FALSE, training |-> FALSE, cells |-> [c \in 1..NC |-> FALSE]],
                   !.mon[o.t] = [c \in 1..NC |-> [m \in 1..6 |-> Off]]]
    [] OTHER -> a

AInit(st) ==
  [ltr |-> st.ltr, clk |-> st.clk, tr |-> st.tr,
   mon |-> [t \in DOMAIN st.tr |-> [c \in 1..NC |-> [m \in 1..6 |-> Off]]]]

IsSuffix(s, full) == Len(s) <= Len(full) /\ SubSeq(full, Len(full) - Len(s) + 1, Len(full)) = s

\* the physical record shows the logical one (an aliased object may carry older observations
\* of the same signal in front of it)
Shows(m, arec, prec) ==
  CASE Kind(m) = "trace" -> IsSuffix(arec, prec)
    [] Kind(m) = "pass"  -> IF Len(arec) = 0 THEN TRUE ELSE prec = <<arec[Len(arec)]>>
    [] OTHER             -> IF Len(arec) = 0 THEN TRUE ELSE prec = <<0>>

\* Abs <= Mech: every logical monitor is backed by an object that is registered exactly while
\* its trainer is in training mode and that holds exactly the logical observations
Refines(st, a) ==
  /\ a.ltr = st.ltr /\ a.clk = st.clk /\ a.tr = st.tr
  /\ \A t \in 1..NT(st), c \in 1..NC, m \in 1..6 :
       /\ a.mon[t][c][m].on <=> st.pool[t][c][m] # 0
       /\ a.mon[t][c][m].on =>
            LET p == st.ph[st.pool[t][c][m]] IN
            /\ p.reg = st.tr[t].training
            /\ Shows(m, a.mon[t][c][m].rec, p.rec)

\* every object is referenced, ids are canonical
Canonical(st) == Normalize(st) = st

\* Isolation: an operation aimed at (trainer, cell) / at a trainer changes what no other
\* logical monitor is registered as and holds
Targets(o, t, c) ==
  CASE o.a \in {"register_cell", "del_cell", "add_monitor", "del_monitor", "add_cell"} -> t = o.t /\ c = o.c
    [] o.a \in {"ttrain", "clear", "drop"} -> t = o.t
    [] o.a = "step" -> TRUE
    [] OTHER -> FALSE

Aimed(o) == o.a \in {"register_cell", "del_cell", "add_monitor", "del_monitor", "add_cell", "ttrain", "clear", "drop"}
IsolationAt(st, o) ==
  IF o.a = "step" THEN TRUE
  ELSE IF ~Aimed(o) THEN \A mo \in MApply(st, o) : mo.st.pool = st.pool /\ mo.st.ph = st.ph
  ELSE \A mo \in MApply(st, o) : \A t \in 1..NT(st), c \in 1..NC, m \in 1..6 :
     (~Targets(o, t, c) /\ st.pool[t][c][m] # 0) =>
        /\ mo.st.pool[t][c][m] # 0
        /\ mo.st.ph[mo.st.pool[t][c][m]] = st.ph[st.pool[t][c][m]]

\* one observation per training step: a layer step adds exactly the step id to exactly the
\* monitors of trainers in training mode when the layer is in training mode, nothing otherwise
StepExactAt(st) ==
  \A L \in Layers(st.cfg) : \A mo \in MStep(st, L) : \A t \in 1..NT(st), c \in 1..NC, m \in 1..6 :
     st.pool[t][c][m] # 0 =>
        LET p == st.ph[st.pool[t][c][m]]
            q == mo.st.ph[mo.st.pool[t][c][m]]
        IN IF st.ltr[L] /\ LayerOf(st.cfg, c) = L /\ st.tr[t].training
           THEN q.rec = Record(m, p.rec, st.clk + 1)
           ELSE q.rec = p.rec

\* listings reflect exactly what is registered
OnPairs(a, t) == UNION {{<<CELLS[c], NAMES[m]>> : m \in {j \in 1..6 : a.mon[t][c][j].on}} : c \in 1..NC}
ListingsExactAt(st, a) ==
  \A t \in 1..NT(st) : st.tr[t].alive =>
     /\ \A mo \in MList(st, t, "named", 1) :
          /\ {<<mo.ret.v[i].c, mo.ret.v[i].m>> : i \in DOMAIN mo.ret.v} = OnPairs(a, t)
          /\ Len(mo.ret.v) = Cardinality(OnPairs(a, t))
     /\ \A mo \in MList(st, t, "cells", 1) :
          /\ {mo.ret.v[i] : i \in DOMAIN mo.ret.v} = {CELLS[c] : c \in {k \in 1..NC : a.tr[t].cells[k]}}
          /\ Len(mo.ret.v) = Cardinality({k \in 1..NC : a.tr[t].cells[k]})
     /\ \A mo \in MList(st, t, "monitors", 1) :
          /\ mo.ret.v[1] <= Cardinality(OnPairs(a, t))
          /\ (OnPairs(a, t) # {}) => mo.ret.v[1] >= 1
     /\ \A c \in 1..NC : \A mo \in MList(st, t, "of", c) :
          {mo.ret.v[i] : i \in DOMAIN mo.ret.v} = {NAMES[m] : m \in {j \in 1..6 : a.mon[t][c][j].on}}

\* with complete, current data (every monitor the trainer installs on every registered cell is
\* there and has observed the last step) the trainer's update succeeds
Complete(a, cfg, t) ==
  \A c \in 1..NC : a.tr[t].cells[c] => \A m \in NamesOf(cfg.ttype[t]) :
        /\ a.mon[t][c][m].on
        /\ Len(a.mon[t][c][m].rec) > 0
TrainerStepOKAt(st, a) ==
  \A t \in 1..NT(st) :
     (st.tr[t].alive /\ Complete(a, st.cfg, t)) => \A mo \in MTrainerStep(st, t) : mo.ret.err = ""
=============================================================================
