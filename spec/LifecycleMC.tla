---------------------------- MODULE LifecycleMC ----------------------------
(***************************************************************************)
(* Exhaustive exploration of the trainer / monitor lifecycle model (C15)   *)
(* and behaviour generation.  Two variables: the Mech state (what can be   *)
(* observed on the real objects) and the Abs state (the logical monitors   *)
(* of the property), advanced in lock-step by the same operation.          *)
(***************************************************************************)
EXTENDS LifecycleCore, Json

CONSTANTS
  NTr,             \* number of trainers (1 or 2)
  TType1, TType2,  \* "stdp" | "mstdpet"
  Share,           \* cells share a "neuron" group or a "conn"ection, or live in two "layers"
  SameHp,          \* both cells are registered with the same hyper-parameters (=> trace monitors alias)
  D14,             \* model del_observed / del_monitor as found (deregisters shared objects)
  AMNames,         \* indices of the monitor names offered to add_monitor / del_monitor
  Uniques,         \* values of `unique` offered to add_monitor (subset of BOOLEAN)
  Vars,            \* constructor / tags variants offered to add_monitor (subset of {"std", "alt"})
  Extras,          \* offer add_cell, update and the per-cell listings
  WithDrop,        \* offer dropping the last reference to a trainer
  Prune,           \* do not explore beyond states in which an eligibility trainer was redirected
  MaxDepth

VARIABLES st, abs
vars == <<st, abs>>

TTypes == IF NTr = 1 THEN <<TType1>> ELSE <<TType1, TType2>>

Init0 ==
  [cfg |-> [ttype |-> TTypes, share |-> Share, samehp |-> SameHp, d14 |-> D14],
   ltr |-> <<TRUE, TRUE>>, clk |-> 0,
   tr |-> [t \in 1..NTr |-> [alive |-> TRUE, training |-> TRUE, cells |-> [c \in 1..NC |-> FALSE]]],
   pool |-> [t \in 1..NTr |-> [c \in 1..NC |-> [m \in 1..6 |-> 0]]],
   ph |-> <<>>,
   redir |-> [t \in 1..NTr |-> [c \in 1..NC |-> FALSE]]]

Offered(tt) == IF tt = "mstdpet" THEN AMNames \cap {5, 6} ELSE AMNames \cap (1..4)

Ops(s) ==
  {o \in
     {[a |-> "step", l |-> l] : l \in 1..2} \cup {[a |-> "ltrain", l |-> l, b |-> b] : l \in 1..2, b \in BOOLEAN}
     \cup {[a |-> "register_cell", t |-> t, c |-> c] : t \in 1..NTr, c \in 1..NC}
     \cup {[a |-> "del_cell", t |-> t, c |-> c] : t \in 1..NTr, c \in 1..NC}
     \cup UNION {{[a |-> "add_monitor", t |-> t, c |-> c, m |-> m, u |-> u, var |-> v] :
                     c \in 1..NC, m \in Offered(TTypes[t]), u \in Uniques, v \in Vars} : t \in 1..NTr}
     \cup {[a |-> "add_cell", t |-> t, c |-> c] : t \in (IF Extras THEN 1..NTr ELSE {}), c \in 1..NC}
     \cup {[a |-> "update", t |-> t] : t \in (IF Extras THEN 1..NTr ELSE {})}
     \cup {[a |-> "list", t |-> t, what |-> "of", c |-> c] : t \in (IF Extras THEN 1..NTr ELSE {}), c \in 1..NC}
     \cup UNION {{[a |-> "del_monitor", t |-> t, c |-> c, m |-> m] : c \in 1..NC, m \in Offered(TTypes[t])} : t \in 1..NTr}
     \cup {[a |-> "ttrain", t |-> t, b |-> b] : t \in 1..NTr, b \in BOOLEAN}
     \cup {[a |-> "tstep", t |-> t] : t \in 1..NTr}
     \cup {[a |-> "clear", t |-> t] : t \in 1..NTr}
     \cup {[a |-> "drop", t |-> t] : t \in (IF WithDrop THEN 1..NTr ELSE {})}
     \cup {[a |-> "list", t |-> t, what |-> w, c |-> 1] : t \in 1..NTr, w \in {"named", "monitors", "cells"}}
   : Applicable(s, o)}

Init == st = Init0 /\ abs = AInit(Init0)
Next == \E o \in Ops(st) : \E mo \in MApply(st, o) :
          /\ st' = mo.st
          /\ abs' = AApply(abs, st.cfg, o)
Spec == Init /\ [][Next]_vars

Bounded == TLCGet("level") <= MaxDepth /\ (Prune => ~Redirected(st))

(***************************************************************************)
(* Properties                                                              *)
(***************************************************************************)
TypeOK ==
  /\ st.ltr \in [1..2 -> BOOLEAN] /\ st.clk >= 0
  /\ Canonical(st)
  /\ \A i \in DOMAIN st.ph : st.ph[i].reg \in BOOLEAN
  /\ \A t \in 1..NTr : ~st.tr[t].alive => IdsOf(st, t) = {}

\* Abs <= Mech: one observation per layer step taken while trainer and layer are both in
\* training mode and none otherwise, for every logical monitor of every registered cell
Refinement == Refines(st, abs)

\* the same, stated on the next layer step from every reachable state
StepExact == StepExactAt(st)

\* no operation on one (trainer, cell) touches the monitors of another
Isolation == \A o \in Ops(st) : IsolationAt(st, o)

ListingsExact == ListingsExactAt(st, abs)
TrainerStepOK == TrainerStepOKAt(st, abs)

\* eligibility-trace trainers read their own monitors (violated by the shared name table: D16)
NoRedirect == ~Redirected(st)

Emit == PrintT(ToJson([s |-> st, init |-> (TLCGet("level") = 1),
                       out |-> {[op |-> o, res |-> MApply(st, o)] : o \in Ops(st)}]))
=============================================================================
