-------------------------- MODULE LifecycleTrace --------------------------
(***************************************************************************)
(* Trace specification for trainer / monitor lifecycle executions recorded *)
(* from the real implementation (direction B of C15).  A batch file holds  *)
(* many traces:                                                            *)
(*   [ [hdr |-> [init |-> state, waive |-> <<..>>], ev |-> << [op, ret, st], ... >>] ] *)
(* Every event must be an outcome of MApply on the current state (same     *)
(* return value, same projected state), and after every event the Abs      *)
(* state advanced by the same operation must still be refined by the       *)
(* observed state (one observation per training step, isolation), the      *)
(* listings must be exact and no eligibility trainer may be redirected.    *)
(***************************************************************************)
EXTENDS LifecycleCore, Json, IOUtils, TLCExt

Traces == JsonDeserialize(IOEnv.TRACE_FILE)

VARIABLES tid, l, st, abs
vars == <<tid, l, st, abs>>

NTraces == Len(Traces)
Evs(t) == Traces[t].ev
MaxI(a, b) == IF a >= b THEN a ELSE b
Waived(t) == {Traces[t].hdr.waive[i] : i \in DOMAIN Traces[t].hdr.waive}

ASSUME \A i \in 1..NTraces : TLCSet(100 + i, 0)

Init == /\ tid \in 1..NTraces
        /\ l = 1
        /\ st = Traces[tid].hdr.init
        /\ abs = AInit(Traces[tid].hdr.init)

Matches(e) == {mo \in MApply(st, e.op) : mo.ret = e.ret /\ mo.st = e.st}

\* property-level clauses evaluated on the state the implementation reports
AbsOK(s, a, o) ==
  LET a2 == AApply(a, s.cfg, o) IN
  \A mo \in Matches([op |-> o, ret |-> Evs(tid)[l].ret, st |-> Evs(tid)[l].st]) :
     /\ Refines(mo.st, a2)
     /\ ListingsExactAt(mo.st, a2)
     /\ TrainerStepOKAt(mo.st, a2)
     /\ IsolationAt(s, o)
     /\ ~Redirected(mo.st)

Step ==
  /\ l <= Len(Evs(tid))
  /\ LET e == Evs(tid)[l] IN
       IF l \in Waived(tid)
       THEN st' = e.st
       ELSE /\ Applicable(st, e.op)
            /\ AbsOK(st, abs, e.op)
            /\ \E mo \in Matches(e) : st' = mo.st
  /\ abs' = AApply(abs, st.cfg, Evs(tid)[l].op)
  /\ l' = l + 1
  /\ UNCHANGED tid

TraceSpec == Init /\ [][Step]_vars

Track ==
  /\ TLCSet(100 + tid, MaxI(TLCGet(100 + tid), l))
  /\ IF l <= Len(Evs(tid)) /\ ~(l \in Waived(tid))
        /\ (Matches(Evs(tid)[l]) = {} \/ ~AbsOK(st, abs, Evs(tid)[l].op))
     THEN PrintT(ToJson([diag |-> tid, l |-> l,
                         refok |-> (Matches(Evs(tid)[l]) = {} \/ AbsOK(st, abs, Evs(tid)[l].op)),
                         redirected |-> Redirected(Evs(tid)[l].st),
                         expected |-> MApply(st, Evs(tid)[l].op), state |-> st]))
     ELSE TRUE

Post ==
  PrintT(ToJson([rejected |-> {<<i, TLCGet(100 + i)>> : i \in {j \in 1..NTraces : TLCGet(100 + j) <= Len(Evs(j))}},
                 total |-> NTraces]))
=============================================================================
