----------------------------- MODULE MathFnsCore -----------------------------
(***************************************************************************)
(* Extension of C20 (DESIGN section 7, item 5): the remaining numerical    *)
(* helpers as exact rational functions.                                    *)
(*   inferno.functional dimension reductions: sum nansum divsum nandivsum  *)
(*     min absmin max absmax mean nanmean quantile nanquantile median      *)
(*     nanmedian geomean nangeomean                                        *)
(*   inferno.rescale, inferno.normalize (orders 1 and inf),                *)
(*   inferno.exponential_smoothing, inferno.holt_linear_smoothing,         *)
(*   the spike-time kernels exp_stdp_post_kernel / exp_stdp_pre_kernel     *)
(*                                                                         *)
(* Data values are small integers; NAN is a sentinel.  A result is a       *)
(* rational <<n, d>> (d > 0, not reduced) or NaNR = <<0, 0>>.              *)
(* A "bag" is the sequence of the elements reduced together (one slice).   *)
(*  Abs: declarative definitions over the bag (counting, order statistics) *)
(*  Mech: one left-to-right scan with accumulators / insertion sort, the   *)
(*        way a reduction kernel works; MathFnsMC runs it one element per  *)
(*        transition and checks Mech = Abs at the end of every bag.        *)
(***************************************************************************)
EXTENDS Integers, Sequences, FiniteSets

NAN == 99
NaNR == <<0, 0>>
R(n) == <<n, 1>>
AbsV(x) == IF x >= 0 THEN x ELSE -x
IsNaN(x) == x = NAN
Idx(b) == 1..Len(b)
NonNaN(b) == {i \in Idx(b) : ~IsNaN(b[i])}
HasNaN(b) == \E i \in Idx(b) : IsNaN(b[i])

RECURSIVE SumOver(_, _)
SumOver(b, S) == IF S = {} THEN 0 ELSE LET i == CHOOSE x \in S : TRUE IN b[i] + SumOver(b, S \ {i})

(***************************************************************************)
(* Abs: per-bag meaning of every reduction.  Each returns the SET of       *)
(* admissible results (a singleton except where the documentation leaves a *)
(* tie open).                                                              *)
(***************************************************************************)
ASum(b) == IF HasNaN(b) THEN {NaNR} ELSE {R(SumOver(b, Idx(b)))}
ANanSum(b) == {R(SumOver(b, NonNaN(b)))}                         \* NaN counts as absent; empty sum is 0
ADivSum(b, den) == IF HasNaN(b) THEN {NaNR} ELSE {<<SumOver(b, Idx(b)), den>>}
ANanDivSum(b, den) == {<<SumOver(b, NonNaN(b)), den>>}
AMin(b) == IF HasNaN(b) THEN {NaNR} ELSE {R(b[i]) : i \in {j \in Idx(b) : \A k \in Idx(b) : b[j] <= b[k]}}
AMax(b) == IF HasNaN(b) THEN {NaNR} ELSE {R(b[i]) : i \in {j \in Idx(b) : \A k \in Idx(b) : b[j] >= b[k]}}
\* "minimum absolute distance from zero, the signs of elements are preserved": the result is an
\* ELEMENT of the bag of least magnitude (either one when +v and -v tie)
AAbsMin(b) == IF HasNaN(b) THEN {NaNR}
              ELSE {R(b[i]) : i \in {j \in Idx(b) : \A k \in Idx(b) : AbsV(b[j]) <= AbsV(b[k])}}
AAbsMax(b) == IF HasNaN(b) THEN {NaNR}
              ELSE {R(b[i]) : i \in {j \in Idx(b) : \A k \in Idx(b) : AbsV(b[j]) >= AbsV(b[k])}}
AMean(b) == IF HasNaN(b) THEN {NaNR} ELSE {<<SumOver(b, Idx(b)), Len(b)>>}
ANanMean(b) == IF NonNaN(b) = {} THEN {NaNR} ELSE {<<SumOver(b, NonNaN(b)), Cardinality(NonNaN(b))>>}

\* order statistics by counting: v is the k-th smallest (k = 0 .. n-1) of the elements S of b iff
\* fewer than k+1 elements are smaller and at least k+1 are not larger
Kth(b, S, k) == CHOOSE v \in {b[i] : i \in S} :
                  /\ Cardinality({i \in S : b[i] < v}) <= k
                  /\ Cardinality({i \in S : b[i] <= v}) >= k + 1
\* quantile q = q4/4 of the elements S (non-empty): continuous index k = q (n-1), in quarters
AQuantOver(b, S, q4, mode) ==
  LET n == Cardinality(S)
      k4 == q4 * (n - 1)
      lo == k4 \div 4
      fr == k4 % 4
      hi == IF fr > 0 THEN lo + 1 ELSE lo
      a == Kth(b, S, lo)
      c == Kth(b, S, hi)
  IN CASE mode = "linear" -> {<<4 * a + (c - a) * fr, 4>>}
       [] mode = "lower" -> {R(a)}
       [] mode = "higher" -> {R(c)}
       [] mode = "midpoint" -> {<<a + c, 2>>}
       [] mode = "nearest" -> IF fr < 2 THEN {R(a)} ELSE IF fr > 2 THEN {R(c)} ELSE {R(a), R(c)}   \* tie left open
AQuantile(b, q4, mode) == IF HasNaN(b) THEN {NaNR} ELSE AQuantOver(b, Idx(b), q4, mode)
ANanQuantile(b, q4, mode) == IF NonNaN(b) = {} THEN {NaNR} ELSE AQuantOver(b, NonNaN(b), q4, mode)
AMedian(b) == AQuantile(b, 2, "midpoint")
ANanMedian(b) == ANanQuantile(b, 2, "midpoint")

\* geometric mean of non-negative data: zeros are ignored, all zero gives zero.  Data are 0 or
\* powers of two; the result is 2^(n/d), returned as [z |-> is zero, e |-> <<n, d>>]
Log2(v) == CASE v = 1 -> 0 [] v = 2 -> 1 [] v = 4 -> 2 [] v = 8 -> 3 [] v = 16 -> 4
RECURSIVE LogSum(_, _)
LogSum(b, S) == IF S = {} THEN 0 ELSE LET i == CHOOSE x \in S : TRUE IN Log2(b[i]) + LogSum(b, S \ {i})
Pos(b) == {i \in Idx(b) : ~IsNaN(b[i]) /\ b[i] # 0}
AGeoMean(b) == IF HasNaN(b) THEN [nan |-> TRUE, z |-> FALSE, e |-> <<0, 1>>]
               ELSE IF Pos(b) = {} THEN [nan |-> FALSE, z |-> TRUE, e |-> <<0, 1>>]
               ELSE [nan |-> FALSE, z |-> FALSE, e |-> <<LogSum(b, Pos(b)), Cardinality(Pos(b))>>]
ANanGeoMean(b) == IF Pos(b) = {} THEN [nan |-> FALSE, z |-> TRUE, e |-> <<0, 1>>]
                  ELSE [nan |-> FALSE, z |-> FALSE, e |-> <<LogSum(b, Pos(b)), Cardinality(Pos(b))>>]

(***************************************************************************)
(* Mech: a scan.  acc = [i, nan, sum, nsum, cnt, mn, mx, amn, amx, nsrt]:  *)
(* elements seen, NaN seen, running sum (all / non-NaN), count of non-NaN, *)
(* running min / max, running least / greatest magnitude element (a +v/-v  *)
(* tie goes to -v for absmin and +v for absmax), insertion-sorted non-NaN  *)
(* prefix.                                                                 *)
(***************************************************************************)
Insert(s, v) ==
  LET p == Cardinality({j \in 1..Len(s) : s[j] <= v}) IN SubSeq(s, 1, p) \o <<v>> \o SubSeq(s, p + 1, Len(s))
Acc0 == [i |-> 0, nan |-> FALSE, sum |-> 0, nsum |-> 0, cnt |-> 0, mn |-> 0, mx |-> 0, amn |-> 0, amx |-> 0,
         nsrt |-> <<>>]
Scan(acc, v) ==
  IF IsNaN(v) THEN [acc EXCEPT !.i = @ + 1, !.nan = TRUE]
  ELSE LET first == acc.cnt = 0
       IN [i |-> acc.i + 1, nan |-> acc.nan, sum |-> acc.sum + v, nsum |-> acc.nsum + v, cnt |-> acc.cnt + 1,
           mn |-> IF first \/ v < acc.mn THEN v ELSE acc.mn,
           mx |-> IF first \/ v > acc.mx THEN v ELSE acc.mx,
           amn |-> IF first \/ AbsV(v) < AbsV(acc.amn) \/ (AbsV(v) = AbsV(acc.amn) /\ v < acc.amn) THEN v ELSE acc.amn,
           amx |-> IF first \/ AbsV(v) > AbsV(acc.amx) \/ (AbsV(v) = AbsV(acc.amx) /\ v > acc.amx) THEN v ELSE acc.amx,
           nsrt |-> Insert(acc.nsrt, v)]
MQuantOf(s, q4, mode) ==     \* s sorted, non-empty, 1-based
  LET n == Len(s)
      k4 == q4 * (n - 1)
      lo == k4 \div 4
      fr == k4 % 4
      hi == IF fr > 0 THEN lo + 1 ELSE lo
      a == s[lo + 1]
      c == s[hi + 1]
  IN CASE mode = "linear" -> <<4 * a + (c - a) * fr, 4>>
       [] mode = "lower" -> R(a)
       [] mode = "higher" -> R(c)
       [] mode = "midpoint" -> <<a + c, 2>>
       [] mode = "nearest" -> IF fr < 2 THEN R(a) ELSE IF fr > 2 THEN R(c)
                              ELSE IF lo % 2 = 0 THEN R(a) ELSE R(c)       \* torch rounds the index half to even
\* results of the mechanism for a finished scan of a non-empty bag
MSum(a) == IF a.nan THEN NaNR ELSE R(a.sum)
MNanSum(a) == R(a.nsum)
MMin(a) == IF a.nan THEN NaNR ELSE R(a.mn)
MMax(a) == IF a.nan THEN NaNR ELSE R(a.mx)
MAbsMin(a) == IF a.nan THEN NaNR ELSE R(a.amn)
MAbsMax(a) == IF a.nan THEN NaNR ELSE R(a.amx)
MMean(a) == IF a.nan THEN NaNR ELSE <<a.sum, a.i>>
MNanMean(a) == IF a.cnt = 0 THEN NaNR ELSE <<a.nsum, a.cnt>>
MQuantile(a, q4, mode) == IF a.nan THEN NaNR ELSE MQuantOf(a.nsrt, q4, mode)
MNanQuantile(a, q4, mode) == IF a.cnt = 0 THEN NaNR ELSE MQuantOf(a.nsrt, q4, mode)

\* equality of rationals (results are not reduced)
REq(x, y) == IF x[2] = 0 \/ y[2] = 0 THEN x[2] = y[2] ELSE x[1] * y[2] = y[1] * x[2]
RIn(x, S) == \E y \in S : REq(x, y)

(***************************************************************************)
(* rescale: out = resmin + (x - srcmin)(resmax - resmin)/(srcmax - srcmin) *)
(* a missing source bound is the slice's minimum / maximum, a missing      *)
(* result bound is the source bound; NONE = -99.  Undefined (0/0) when the *)
(* source range is empty.                                                  *)
(***************************************************************************)
NONE == -99
BMin(b) == CHOOSE v \in {b[i] : i \in Idx(b)} : \A k \in Idx(b) : v <= b[k]
BMax(b) == CHOOSE v \in {b[i] : i \in Idx(b)} : \A k \in Idx(b) : v >= b[k]
Rescale(b, rmin, rmax, smin, smax) ==
  LET s0 == IF smin = NONE THEN BMin(b) ELSE smin
      s1 == IF smax = NONE THEN BMax(b) ELSE smax
      r0 == IF rmin = NONE THEN s0 ELSE rmin
      r1 == IF rmax = NONE THEN s1 ELSE rmax
  IN IF s1 = s0 THEN [i \in Idx(b) |-> NaNR]
     ELSE [i \in Idx(b) |-> IF s1 > s0 THEN <<r0 * (s1 - s0) + (b[i] - s0) * (r1 - r0), s1 - s0>>
                            ELSE <<r0 * (s0 - s1) + (b[i] - s0) * (r0 - r1), s0 - s1>>]

\* normalize: out = scale * x / max(norm, eps) with the 1-norm or the maximum norm of the slice
Norm(b, order) == IF order = 1 THEN SumOver([i \in Idx(b) |-> AbsV(b[i])], Idx(b))
                  ELSE AbsV(b[CHOOSE i \in Idx(b) : \A k \in Idx(b) : AbsV(b[i]) >= AbsV(b[k])])
Normalize(b, order, scale) ==
  [i \in Idx(b) |-> IF Norm(b, order) = 0 THEN R(0) ELSE <<scale * b[i], Norm(b, order)>>]

(***************************************************************************)
(* Smoothing.  alpha = a4/4, beta = b4/4.  After t observations the level  *)
(* and the trend are integers over the common denominator 16^t.            *)
(***************************************************************************)
RECURSIVE Pow(_, _)
Pow(x, k) == IF k = 0 THEN 1 ELSE x * Pow(x, k - 1)
\* Mech: one call of the code.  st = [t, has (level set), hasb (trend set), L, B] over 16^t
SmoothStep(st, x, a4) ==                   \* exponential_smoothing(obs, level, alpha)
  IF ~st.has THEN [t |-> st.t + 1, has |-> TRUE, hasb |-> FALSE, L |-> 16 * x * Pow(16, st.t), B |-> 0]
  ELSE [t |-> st.t + 1, has |-> TRUE, hasb |-> FALSE,
        L |-> 4 * (a4 * x * Pow(16, st.t) + (4 - a4) * st.L), B |-> 0]
HoltStep(st, x, a4, b4) ==                 \* holt_linear_smoothing(obs, level, trend, alpha, beta)
  IF ~st.has THEN [t |-> st.t + 1, has |-> TRUE, hasb |-> FALSE, L |-> 16 * x * Pow(16, st.t), B |-> 0]
  ELSE LET D == Pow(16, st.t)
           B0 == IF st.hasb THEN st.B ELSE x * D - st.L          \* t = 1: trend starts as x1 - x0
           S4 == a4 * x * D + (4 - a4) * (st.L + B0)              \* level over 4 D
       IN [t |-> st.t + 1, has |-> TRUE, hasb |-> TRUE,
           L |-> 4 * S4, B |-> b4 * (S4 - 4 * st.L) + (4 - b4) * 4 * B0]
\* Abs: closed form of simple exponential smoothing over x_1 .. x_t (x a sequence), as a numerator
\* over 4^(t-1):  s_t = SUM_{k<t-1} alpha (1-alpha)^k x_{t-k} + (1-alpha)^(t-1) x_1
RECURSIVE SmoothClosed(_, _, _)
SmoothClosed(x, t, a4) ==
  IF t = 1 THEN x[1] ELSE a4 * x[t] * Pow(4, t - 2) + (4 - a4) * SmoothClosed(x, t - 1, a4)

\* spike-time kernels: value = lr * exp(-|d| / tau) * gate
KernelPost(d) == [gate |-> IF d >= 0 THEN 1 ELSE 0, x |-> AbsV(d)]
KernelPre(d) == [gate |-> IF d < 0 THEN 1 ELSE 0, x |-> AbsV(d)]
=============================================================================
