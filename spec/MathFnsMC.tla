------------------------------ MODULE MathFnsMC ------------------------------
(***************************************************************************)
(* Exhaustive exploration of the MathFns family.  Machines (st.m):         *)
(*  "bag"   scan of a bag, one element per transition; at the end every    *)
(*          reduction's mechanism result must be an admissible Abs result  *)
(*  "geo"   geometric means of bags of 0 / powers of two / NaN             *)
(*  "grid"  which elements are reduced together for every choice of axes   *)
(*  "resc"  rescale and normalize per bag                                  *)
(*  "sm"    exponential and Holt smoothing, one observation per transition *)
(*  "kern"  gates of the two spike-time kernels                            *)
(* Emit prints the final states: the tables evaluated on the real code.    *)
(***************************************************************************)
EXTENDS MathFnsCore, TLC, Json

CONSTANTS
  Machines,     \* subset of {"bag", "geo", "grid", "resc", "sm", "kern"}
  Vals,         \* non-negative integers used as data; their negatives are added (Signed)
  LMax,         \* longest bag
  GLen,         \* longest bag of the geometric means
  SmLen,        \* longest observation sequence
  RBounds       \* result bounds offered to rescale (non-negative; negatives added)

VARIABLE st
vars == <<st>>

SVals == Vals \cup {0 - v : v \in Vals}
Data == SVals \cup {NAN}
Bags(alphabet, n) == UNION {[1..k -> alphabet] : k \in 1..n}
Q4s == 0..4
Modes == {"linear", "lower", "higher", "midpoint", "nearest"}

(***************************************************************************)
(* bag                                                                     *)
(***************************************************************************)
BagInit == {[m |-> "bag", b |-> b, acc |-> Acc0] : b \in Bags(Data, LMax)}
BagFinal(s) == s.acc.i = Len(s.b)
BagNext(s) == [s EXCEPT !.acc = Scan(s.acc, s.b[s.acc.i + 1])]

BagDone == st.m = "bag" /\ BagFinal(st)
MechInAbs == BagDone =>
  LET b == st.b
      a == st.acc
  IN /\ RIn(MSum(a), ASum(b)) /\ RIn(MNanSum(a), ANanSum(b))
     /\ RIn(MMin(a), AMin(b)) /\ RIn(MMax(a), AMax(b))
     /\ RIn(MAbsMin(a), AAbsMin(b)) /\ RIn(MAbsMax(a), AAbsMax(b))
     /\ RIn(MMean(a), AMean(b)) /\ RIn(MNanMean(a), ANanMean(b))
     /\ \A q \in Q4s, md \in Modes :
          /\ RIn(MQuantile(a, q, md), AQuantile(b, q, md))
          /\ RIn(MNanQuantile(a, q, md), ANanQuantile(b, q, md))
SetREq(S, T) == (\A x \in S : RIn(x, T)) /\ (\A y \in T : RIn(y, S))
\* laws relating the reductions to each other
BagLaws == BagDone =>
  LET b == st.b IN
  /\ (~HasNaN(b) => /\ ANanSum(b) = ASum(b) /\ ANanMean(b) = AMean(b)
                    /\ \A q \in Q4s, md \in Modes : ANanQuantile(b, q, md) = AQuantile(b, q, md))
  /\ \A md \in Modes : SetREq(AQuantile(b, 0, md), AMin(b)) /\ SetREq(AQuantile(b, 4, md), AMax(b))
  /\ (~HasNaN(b) => \A x \in AAbsMin(b) : \A y \in AAbsMax(b) : AbsV(x[1]) <= AbsV(y[1]))
  /\ (~HasNaN(b) => \A x \in AAbsMin(b) : \E i \in Idx(b) : b[i] = x[1])       \* an element, sign included
  /\ (~HasNaN(b) => \A md \in Modes : \A x \in AQuantile(b, 2, md) : \A lo \in AMin(b) : \A hi \in AMax(b) :
                       lo[1] * x[2] <= x[1] /\ x[1] <= hi[1] * x[2])

(***************************************************************************)
(* geo                                                                     *)
(***************************************************************************)
GData == {0, 1, 2, 4, 8, NAN}
GeoInit == {[m |-> "geo", b |-> b] : b \in Bags(GData, GLen)}
GeoLaws == st.m = "geo" =>
  LET b == st.b
      clean == SelectSeq(b, LAMBDA v : ~IsNaN(v))
  IN /\ (~HasNaN(b) => ANanGeoMean(b) = AGeoMean(b))
     /\ (Len(clean) > 0 => ANanGeoMean(b) = AGeoMean(clean))
     /\ ((~HasNaN(b) /\ \A i \in Idx(b) : b[i] = b[1] /\ b[1] # 0) =>
            AGeoMean(b).e[1] = Log2(b[1]) * AGeoMean(b).e[2])                   \* mean of equal values

(***************************************************************************)
(* grid: reduction axes.  A grid is a sequence of rows; axes is a subset   *)
(* of {0, 1}; Slices lists the bags in the order of the output elements.   *)
(***************************************************************************)
Rows(g) == Len(g)
Cols(g) == Len(g[1])
Column(g, c) == [r \in 1..Rows(g) |-> g[r][c]]
RECURSIVE FlatRows(_, _)
FlatRows(g, r) == IF r > Rows(g) THEN <<>> ELSE g[r] \o FlatRows(g, r + 1)
Slices(g, axes) ==
  CASE axes = {0} -> [c \in 1..Cols(g) |-> Column(g, c)]
    [] axes = {1} -> [r \in 1..Rows(g) |-> g[r]]
    [] axes = {0, 1} -> <<FlatRows(g, 1)>>
OutShape(g, axes, keep) ==
  CASE axes = {0} -> IF keep THEN <<1, Cols(g)>> ELSE <<Cols(g)>>
    [] axes = {1} -> IF keep THEN <<Rows(g), 1>> ELSE <<Rows(g)>>
    [] axes = {0, 1} -> IF keep THEN <<1, 1>> ELSE <<>>
GVals == {NAN, 1, 3} \cup {0 - 2}
Grids == [1..2 -> [1..2 -> GVals]]
         \cup {[r \in 1..2 |-> g[r] \o <<col[r]>>] : g \in {h \in [1..2 -> [1..2 -> GVals]] : h[1][1] = 1 /\ h[2][2] = 3},
                                                     col \in {<<3, NAN>>, <<0 - 1, 2>>}}
         \cup {<<<<1, 0 - 2, 3>>>>, <<<<NAN, 1, 1>>>>, <<<<2>>, <<0 - 2>>, <<1>>>>}
GridInit == {[m |-> "grid", g |-> g, axes |-> a] : g \in Grids, a \in {{0}, {1}, {0, 1}}}
GridLaws == st.m = "grid" =>
  LET sl == Slices(st.g, st.axes) IN
  /\ \A k \in BOOLEAN : Len(sl) = (IF OutShape(st.g, st.axes, k) = <<>> THEN 1
                                   ELSE LET os == OutShape(st.g, st.axes, k) IN IF Len(os) = 1 THEN os[1] ELSE os[1] * os[2])
  /\ LET total == [i \in 1..Len(sl) |-> Len(sl[i])] IN \A i \in 1..Len(sl) : total[i] * Len(sl) = Rows(st.g) * Cols(st.g)

(***************************************************************************)
(* resc: rescale and normalize                                             *)
(***************************************************************************)
RB == RBounds \cup {0 - v : v \in RBounds} \cup {NONE}
RescInit == {[m |-> "resc", b |-> b, rmin |-> r0, rmax |-> r1, smin |-> s0, smax |-> s1] :
               b \in {x \in Bags(SVals, 3) : Len(x) >= 2}, r0 \in RB, r1 \in RB, s0 \in {NONE, 0 - 4}, s1 \in {NONE, 4}}
RescLaws == st.m = "resc" =>
  LET out == Rescale(st.b, st.rmin, st.rmax, st.smin, st.smax)
      s0 == IF st.smin = NONE THEN BMin(st.b) ELSE st.smin
      s1 == IF st.smax = NONE THEN BMax(st.b) ELSE st.smax
      r0 == IF st.rmin = NONE THEN s0 ELSE st.rmin
      r1 == IF st.rmax = NONE THEN s1 ELSE st.rmax
  IN s1 # s0 =>
       \* the source bounds map onto the result bounds, and the map is affine (monotone when r0 <= r1)
       /\ \A i \in Idx(st.b) : (st.b[i] = s0 => REq(out[i], R(r0))) /\ (st.b[i] = s1 => REq(out[i], R(r1)))
       /\ (r0 <= r1 => \A i, j \in Idx(st.b) : st.b[i] <= st.b[j] => out[i][1] * out[j][2] <= out[j][1] * out[i][2])
       /\ (st.rmin = NONE /\ st.rmax = NONE => \A i \in Idx(st.b) : REq(out[i], R(st.b[i])))
NormLaws == st.m = "resc" =>
  \A order \in {0, 1} : \A scale \in {1, 2} :
     LET out == Normalize(st.b, order, scale) IN
     Norm(st.b, order) # 0 =>
        \* the result has norm `scale`
        IF order = 1 THEN SumOver([i \in Idx(st.b) |-> AbsV(out[i][1])], Idx(st.b)) = scale * Norm(st.b, 1)
        ELSE \E i \in Idx(st.b) : AbsV(out[i][1]) = scale * out[i][2]

(***************************************************************************)
(* sm: smoothing                                                           *)
(***************************************************************************)
Fresh == [t |-> 0, has |-> FALSE, hasb |-> FALSE, L |-> 0, B |-> 0]
SmInit == {[m |-> "sm", x |-> x, a4 |-> a, b4 |-> b, k |-> 0, es |-> Fresh, ho |-> Fresh] :
             x \in Bags(SVals, SmLen), a \in {1, 2, 4}, b \in {1, 2}}
SmFinal(s) == s.k = Len(s.x)
SmNext(s) == [s EXCEPT !.k = @ + 1, !.es = SmoothStep(s.es, s.x[s.k + 1], s.a4),
                       !.ho = HoltStep(s.ho, s.x[s.k + 1], s.a4, s.b4)]
\* the recurrence equals the closed form at every step
SmoothIsClosedForm == (st.m = "sm" /\ st.k >= 1) =>
   st.es.L * Pow(4, st.k - 1) = SmoothClosed(st.x, st.k, st.a4) * Pow(16, st.k)
\* Holt: s_0 = x_0 without a trend; s_1 = x_1, b_1 = x_1 - x_0; a straight line is reproduced exactly
Linear(x) == \A i \in 1..(Len(x) - 2) : x[i + 2] - x[i + 1] = x[i + 1] - x[i]
HoltLaws == st.m = "sm" =>
   /\ (st.k = 1 => st.ho.L = 16 * st.x[1] /\ ~st.ho.hasb)
   /\ (st.k = 2 => st.ho.L = 256 * st.x[2] /\ st.ho.hasb /\ st.ho.B = 256 * (st.x[2] - st.x[1]))
   /\ ((st.k >= 2 /\ Linear(SubSeq(st.x, 1, st.k))) =>
          st.ho.L = Pow(16, st.k) * st.x[st.k] /\ st.ho.B = Pow(16, st.k) * (st.x[2] - st.x[1]))

(***************************************************************************)
(* kern                                                                    *)
(***************************************************************************)
KernInit == {[m |-> "kern", d |-> d] : d \in (0 - 3)..3}
\* exactly one of the two kernels is active for every time difference; together they are
\* lr * exp(-|d| / tau)
KernLaws == st.m = "kern" => KernelPost(st.d).gate + KernelPre(st.d).gate = 1 /\ KernelPost(st.d).x = KernelPre(st.d).x

(***************************************************************************)
Init == st \in (IF "bag" \in Machines THEN BagInit ELSE {}) \cup (IF "geo" \in Machines THEN GeoInit ELSE {})
              \cup (IF "grid" \in Machines THEN GridInit ELSE {}) \cup (IF "resc" \in Machines THEN RescInit ELSE {})
              \cup (IF "sm" \in Machines THEN SmInit ELSE {}) \cup (IF "kern" \in Machines THEN KernInit ELSE {})
Final == CASE st.m = "bag" -> BagFinal(st) [] st.m = "sm" -> SmFinal(st) [] OTHER -> TRUE
Next == /\ ~Final
        /\ st' = IF st.m = "bag" THEN BagNext(st) ELSE SmNext(st)
Spec == Init /\ [][Next]_vars

QTable(b) == {<<q, md, AQuantile(b, q, md), ANanQuantile(b, q, md)>> : q \in Q4s, md \in Modes}
BagTable(b) == [sum |-> ASum(b), nansum |-> ANanSum(b), divsum |-> ADivSum(b, 4), nandivsum |-> ANanDivSum(b, 4),
                min |-> AMin(b), max |-> AMax(b), absmin |-> AAbsMin(b), absmax |-> AAbsMax(b), mean |-> AMean(b),
                nanmean |-> ANanMean(b), median |-> AMedian(b), nanmedian |-> ANanMedian(b)]
Emit ==
  Final =>
    CASE st.m = "bag" -> PrintT(ToJson([bag |-> [b |-> st.b, res |-> BagTable(st.b), q |-> QTable(st.b)]]))
      [] st.m = "geo" -> PrintT(ToJson([geo |-> [b |-> st.b, geomean |-> AGeoMean(st.b), nangeomean |-> ANanGeoMean(st.b)]]))
      [] st.m = "grid" -> PrintT(ToJson([grid |-> [g |-> st.g, axes |-> st.axes,
                                                   shape0 |-> OutShape(st.g, st.axes, FALSE), shape1 |-> OutShape(st.g, st.axes, TRUE),
                                                   slices |-> [i \in 1..Len(Slices(st.g, st.axes)) |->
                                                                 [b |-> Slices(st.g, st.axes)[i], res |-> BagTable(Slices(st.g, st.axes)[i])]]]]))
      [] st.m = "resc" -> PrintT(ToJson([resc |-> [b |-> st.b, rmin |-> st.rmin, rmax |-> st.rmax, smin |-> st.smin, smax |-> st.smax,
                                                   out |-> Rescale(st.b, st.rmin, st.rmax, st.smin, st.smax),
                                                   n1 |-> Normalize(st.b, 1, 2), ninf |-> Normalize(st.b, 0, 1)]]))
      [] st.m = "sm" -> PrintT(ToJson([sm |-> [x |-> st.x, a4 |-> st.a4, b4 |-> st.b4, den |-> Pow(16, st.k),
                                               level |-> st.es.L, hlevel |-> st.ho.L, htrend |-> st.ho.B, hasb |-> st.ho.hasb]]))
      [] st.m = "kern" -> PrintT(ToJson([kern |-> [d |-> st.d, post |-> KernelPost(st.d), pre |-> KernelPre(st.d)]]))
=============================================================================
