-------------------------- MODULE ModuleExtrasCore --------------------------
(***************************************************************************)
(* Extension of the C12 specification: attribute storage of                *)
(* inferno.core.infrastructure.Module (extras next to torch's parameters,  *)
(* buffers, submodules and plain attributes), and its state-dict / pickle  *)
(* round trips.                                                            *)
(*                                                                         *)
(* Values are tagged tokens [k, v]:  k = "i" plain Python integer v,       *)
(* "t" tensor holding v, "p" Parameter holding v, "m" a module (v = 1: an  *)
(* inferno Module that owns the extra b = 9, v = 2: a torch-only module),  *)
(* "-" nothing.                                                            *)
(*                                                                         *)
(* Abs  - ONE map  name -> [kind, val]: a name is bound at most once, to a *)
(*        kind in {plain, extra, param, buffer, module}; the documented    *)
(*        precedence decides what a registration or assignment does.       *)
(* Mech - the code's five dictionaries (instance __dict__, _extras,        *)
(*        _parameters, _buffers, _modules) and the ORDER of the checks in  *)
(*        Module.register_extra / __getattr__ / __setattr__ / __delattr__  *)
(*        / __dir__ / get_extra / get_extra_state / set_extra_state and in *)
(*        torch.nn.Module.register_buffer / register_parameter /           *)
(*        add_module / __setattr__ (remove_from) / __delattr__.            *)
(* Named deviation of the code from the documented rule "extras are not    *)
(* tensors or modules":  AssignToExtraKeepsExtra - assigning ANY value to  *)
(* a name that is an extra stores it in _extras.                           *)
(***************************************************************************)
EXTENDS Integers, Sequences, FiniteSets, TLC

CONSTANT Names

Nil == [k |-> "-", v |-> 0]
IsNil(x) == x.k = "-"
Empty == [n \in Names |-> Nil]

Out(st, r) == [st |-> st, ret |-> r]
Err(st, e) == {Out(st, [t |-> "err", e |-> e])}
Ok(st) == {Out(st, [t |-> "ok"])}
Val(st, x) == {Out(st, [t |-> "val", val |-> x])}

(***************************************************************************)
(* Mech.  st = [d, x, p, b, m, saved]                                      *)
(*   saved = [has, x, t, c]: extras, tensor entries (parameters and        *)
(*   buffers share the key space of a state dict) and the names of child   *)
(*   modules that contributed an "_extra_state" entry                      *)
(***************************************************************************)
NoSave == [has |-> FALSE, x |-> Empty, t |-> Empty, c |-> {}]
InitState == [d |-> Empty, x |-> Empty, p |-> Empty, b |-> Empty, m |-> Empty, saved |-> NoSave]

In(f, n) == ~IsNil(f[n])

\* attribute lookup: instance dictionary first, then Module.__getattr__ (extras), then
\* torch's __getattr__ (parameters, buffers, modules)
Lookup(st, n) ==
  IF In(st.d, n) THEN st.d[n] ELSE IF In(st.x, n) THEN st.x[n] ELSE IF In(st.p, n) THEN st.p[n]
  ELSE IF In(st.b, n) THEN st.b[n] ELSE IF In(st.m, n) THEN st.m[n] ELSE Nil
HasAttr(st, n) == ~IsNil(Lookup(st, n))

\* Module.register_extra: ... elif hasattr(self, name) and name not in self._extras: KeyError
\*                        elif isinstance(value, Tensor | Module): TypeError  else _extras[name] = value
MRegExtra(st, n, val) ==
  IF HasAttr(st, n) /\ ~In(st.x, n) THEN Err(st, "KeyError")
  ELSE IF val.k \in {"t", "p", "m"} THEN Err(st, "TypeError")
  ELSE Ok([st EXCEPT !.x[n] = val])

\* torch register_buffer / register_parameter / add_module:
\*   elif hasattr(self, name) and name not in self._<own>: KeyError ... self._<own>[name] = value
MRegBuffer(st, n, val) ==
  IF HasAttr(st, n) /\ ~In(st.b, n) THEN Err(st, "KeyError") ELSE Ok([st EXCEPT !.b[n] = val])
MRegParam(st, n, val) ==
  IF HasAttr(st, n) /\ ~In(st.p, n) THEN Err(st, "KeyError") ELSE Ok([st EXCEPT !.p[n] = val])
MAddModule(st, n, val) ==
  IF HasAttr(st, n) /\ ~In(st.m, n) THEN Err(st, "KeyError") ELSE Ok([st EXCEPT !.m[n] = val])

\* Module.__setattr__ (no descriptor of that name): if name in _extras: _extras[name] = value
\* else torch.nn.Module.__setattr__
MAssign(st, n, val) ==
  IF In(st.x, n) THEN Ok([st EXCEPT !.x[n] = val])                      \* AssignToExtraKeepsExtra
  ELSE IF val.k = "p"                                                    \* remove_from(__dict__, _buffers, _modules)
       THEN Ok([st EXCEPT !.d[n] = Nil, !.b[n] = Nil, !.m[n] = Nil, !.p[n] = val])
  ELSE IF In(st.p, n) THEN Err(st, "TypeError")
  ELSE IF val.k = "m"                                                    \* remove_from(__dict__, _parameters, _buffers)
       THEN Ok([st EXCEPT !.d[n] = Nil, !.p[n] = Nil, !.b[n] = Nil, !.m[n] = val])
  ELSE IF In(st.m, n) THEN Err(st, "TypeError")
  ELSE IF In(st.b, n) THEN (IF val.k = "t" THEN Ok([st EXCEPT !.b[n] = val]) ELSE Err(st, "TypeError"))
  ELSE Ok([st EXCEPT !.d[n] = val])

\* Module.__delattr__: if name in _extras: del; else torch: parameters, buffers, modules, object
MDelete(st, n) ==
  IF In(st.x, n) THEN Ok([st EXCEPT !.x[n] = Nil])
  ELSE IF In(st.p, n) THEN Ok([st EXCEPT !.p[n] = Nil])
  ELSE IF In(st.b, n) THEN Ok([st EXCEPT !.b[n] = Nil])
  ELSE IF In(st.m, n) THEN Ok([st EXCEPT !.m[n] = Nil])
  ELSE IF In(st.d, n) THEN Ok([st EXCEPT !.d[n] = Nil])
  ELSE Err(st, "AttributeError")

MGet(st, n) == IF HasAttr(st, n) THEN Val(st, Lookup(st, n)) ELSE Err(st, "AttributeError")

\* get_extra(name):  hasattr?  extra = getattr(module, name);  name in module._extras?
MGetExtra(st, n) ==
  IF ~HasAttr(st, n) THEN Err(st, "AttributeError")
  ELSE IF ~In(st.x, n) THEN Err(st, "AttributeError")
  ELSE Val(st, Lookup(st, n))

\* get_extra("<name>.b"): torch's get_submodule resolves <name> with getattr (so a module that
\* sits in _extras is found too); it must be an inferno Module that has the extra b
MGetExtraNested(st, n) ==
  LET v == Lookup(st, n) IN
  IF v.k = "m" /\ v.v = 1 THEN Val(st, [k |-> "i", v |-> 9]) ELSE Err(st, "AttributeError")

\* name in dir(module)
MInDir(st, n) == {Out(st, [t |-> "bool", b |-> HasAttr(st, n)])}

\* state_dict(): tensors of parameters and buffers, "_extra_state" = the extras,
\* "<child>._extra_state" for children that are inferno Modules; serialised at once
MSave(st) ==
  Ok([st EXCEPT !.saved = [has |-> TRUE, x |-> st.x,
                           t |-> [n \in Names |-> IF In(st.p, n) THEN [k |-> "t", v |-> st.p[n].v] ELSE st.b[n]],
                           c |-> {n \in Names : In(st.m, n) /\ st.m[n].v = 1}]])

\* load_state_dict(saved, strict=False): tensors are copied INTO the existing parameters /
\* buffers of the same name; set_extra_state: _extras.update(saved extras)
MLoad(st) ==
  LET s == st.saved
      tens == {n \in Names : In(st.p, n) \/ In(st.b, n)}
      kids == {n \in Names : In(st.m, n) /\ st.m[n].v = 1}
      missing == {n \in tens : IsNil(s.t[n])} \cup (kids \ s.c)
      unexpected == {n \in Names \ tens : ~IsNil(s.t[n])} \cup (s.c \ kids)
      st2 == [st EXCEPT
                !.p = [n \in Names |-> IF In(st.p, n) /\ ~IsNil(s.t[n]) THEN [k |-> "p", v |-> s.t[n].v] ELSE st.p[n]],
                !.b = [n \in Names |-> IF In(st.b, n) /\ ~IsNil(s.t[n]) THEN [k |-> "t", v |-> s.t[n].v] ELSE st.b[n]],
                !.x = [n \in Names |-> IF ~IsNil(s.x[n]) THEN s.x[n] ELSE st.x[n]]]
  IN {Out(st2, [t |-> "load", missing |-> Cardinality(missing), unexpected |-> Cardinality(unexpected)])}

\* pickle.loads(pickle.dumps(module)) / copy.deepcopy: __setstate__ restores everything
MPickle(st) == Ok(st)

\* a checkpoint fits when none of its extras collides with another kind in the target
Compatible(st) == st.saved.has /\ \A n \in Names : ~IsNil(st.saved.x[n]) => (In(st.x, n) \/ ~HasAttr(st, n))

MApply(st, o) ==
  CASE o.a = "reg_extra" -> MRegExtra(st, o.n, o.val)
    [] o.a = "reg_buffer" -> MRegBuffer(st, o.n, o.val)
    [] o.a = "reg_param" -> MRegParam(st, o.n, o.val)
    [] o.a = "add_module" -> MAddModule(st, o.n, o.val)
    [] o.a = "assign" -> MAssign(st, o.n, o.val)
    [] o.a = "delete" -> MDelete(st, o.n)
    [] o.a = "get" -> MGet(st, o.n)
    [] o.a = "get_extra" -> MGetExtra(st, o.n)
    [] o.a = "get_nested" -> MGetExtraNested(st, o.n)
    [] o.a = "in_dir" -> MInDir(st, o.n)
    [] o.a = "save" -> MSave(st)
    [] o.a = "load" -> MLoad(st)
    [] o.a = "pickle" -> MPickle(st)

(***************************************************************************)
(* Abs: one binding per name                                               *)
(***************************************************************************)
Unbound == [kind |-> "none", val |-> Nil]
Exclusive(st) ==
  \A n \in Names : Cardinality({f \in {"d", "x", "p", "b", "m"} :
     In(CASE f = "d" -> st.d [] f = "x" -> st.x [] f = "p" -> st.p [] f = "b" -> st.b [] OTHER -> st.m, n)}) <= 1

AbsOf(st) ==
  [n \in Names |->
     IF In(st.d, n) THEN [kind |-> "plain", val |-> st.d[n]]
     ELSE IF In(st.x, n) THEN [kind |-> "extra", val |-> st.x[n]]
     ELSE IF In(st.p, n) THEN [kind |-> "param", val |-> st.p[n]]
     ELSE IF In(st.b, n) THEN [kind |-> "buffer", val |-> st.b[n]]
     ELSE IF In(st.m, n) THEN [kind |-> "module", val |-> st.m[n]]
     ELSE Unbound]

AOut(a, r) == [abs |-> a, ret |-> r]
AErr(a, e) == AOut(a, [t |-> "err", e |-> e])
AOk(a) == AOut(a, [t |-> "ok"])
Bind(a, n, kind, val) == [a EXCEPT ![n] = [kind |-> kind, val |-> val]]

\* registration of kind K: refused while the name is bound to another kind
AReg(a, n, kind, val) ==
  IF a[n].kind \notin {"none", kind} THEN AErr(a, "KeyError")
  ELSE IF kind = "extra" /\ val.k \in {"t", "p", "m"} THEN AErr(a, "TypeError")
  ELSE AOk(Bind(a, n, kind, val))

\* assignment: an extra stays an extra; a Parameter makes the name a parameter, a Module a
\* submodule (unless it is a parameter); otherwise the value must fit the kind the name has
AAssign(a, n, val) ==
  LET k == a[n].kind IN
  IF k = "extra" THEN AOk(Bind(a, n, "extra", val))
  ELSE IF val.k = "p" THEN AOk(Bind(a, n, "param", val))
  ELSE IF k = "param" THEN AErr(a, "TypeError")
  ELSE IF val.k = "m" THEN AOk(Bind(a, n, "module", val))
  ELSE IF k = "module" THEN AErr(a, "TypeError")
  ELSE IF k = "buffer" THEN (IF val.k = "t" THEN AOk(Bind(a, n, "buffer", val)) ELSE AErr(a, "TypeError"))
  ELSE AOk(Bind(a, n, "plain", val))

AApply(a, o) ==
  CASE o.a = "reg_extra" -> AReg(a, o.n, "extra", o.val)
    [] o.a = "reg_buffer" -> AReg(a, o.n, "buffer", o.val)
    [] o.a = "reg_param" -> AReg(a, o.n, "param", o.val)
    [] o.a = "add_module" -> AReg(a, o.n, "module", o.val)
    [] o.a = "assign" -> AAssign(a, o.n, o.val)
    [] o.a = "delete" -> IF a[o.n].kind = "none" THEN AErr(a, "AttributeError") ELSE AOk(Bind(a, o.n, "none", Nil))
    [] o.a = "get" -> IF a[o.n].kind = "none" THEN AErr(a, "AttributeError") ELSE AOut(a, [t |-> "val", val |-> a[o.n].val])
    [] o.a = "get_extra" -> IF a[o.n].kind = "extra" THEN AOut(a, [t |-> "val", val |-> a[o.n].val])
                            ELSE AErr(a, "AttributeError")
    [] o.a = "get_nested" -> IF a[o.n].val.k = "m" /\ a[o.n].val.v = 1
                             THEN AOut(a, [t |-> "val", val |-> [k |-> "i", v |-> 9]]) ELSE AErr(a, "AttributeError")
    [] o.a = "in_dir" -> AOut(a, [t |-> "bool", b |-> a[o.n].kind # "none"])
    [] OTHER -> AOk(a)

\* one operation at one state: the dictionaries stay exclusive and implement the single map
RefinesAt(st, o) ==
  \A mo \in MApply(st, o) :
    /\ Exclusive(mo.st)
    /\ IF o.a \in {"save", "load", "pickle"} THEN TRUE
       ELSE LET ao == AApply(AbsOf(st), o) IN ao.ret = mo.ret /\ ao.abs = AbsOf(mo.st)

\* round trips.  save ; load restores the saved extras and tensor values and nothing else;
\* load after save without anything in between is the identity
LoadRestores(st) ==
  (st.saved.has /\ Compatible(st)) =>
    \A mo \in MLoad(st) :
      /\ \A n \in Names : ~IsNil(st.saved.x[n]) => mo.st.x[n] = st.saved.x[n]
      /\ \A n \in Names : (In(st.p, n) /\ ~IsNil(st.saved.t[n])) => mo.st.p[n].v = st.saved.t[n].v
      /\ \A n \in Names : (In(st.b, n) /\ ~IsNil(st.saved.t[n])) => mo.st.b[n].v = st.saved.t[n].v
      /\ mo.st.d = st.d /\ mo.st.m = st.m
SaveLoadIdentity(st) ==
  \A so \in MSave(st) : \A lo \in MLoad(so.st) :
     lo.st = so.st /\ lo.ret.missing = 0 /\ lo.ret.unexpected = 0
=============================================================================
