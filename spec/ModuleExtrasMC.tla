--------------------------- MODULE ModuleExtrasMC ---------------------------
(***************************************************************************)
(* Exhaustive exploration of the Module attribute model: every sequence of *)
(* register / assign / delete / get / save / load / pickle on names that    *)
(* collide across the kinds.                                               *)
(***************************************************************************)
EXTENDS ModuleExtrasCore, Json

CONSTANTS
  OpKinds,        \* subset of {"reg", "assign", "delete", "read", "persist"}
  AllowMismatch,  \* also load checkpoints whose extras collide with another kind in the target
  MaxDepth

VARIABLE st
vars == <<st>>

I(v) == [k |-> "i", v |-> v]
T(v) == [k |-> "t", v |-> v]
P(v) == [k |-> "p", v |-> v]
M(v) == [k |-> "m", v |-> v]

Ops(s) ==
  (IF "reg" \in OpKinds THEN
     {[a |-> "reg_extra", n |-> n, val |-> v] : n \in Names, v \in {I(1), I(2), T(1)}}
     \cup {[a |-> "reg_buffer", n |-> n, val |-> v] : n \in Names, v \in {T(1), T(2)}}
     \cup {[a |-> "reg_param", n |-> n, val |-> v] : n \in Names, v \in {P(1), P(2)}}
     \cup {[a |-> "add_module", n |-> n, val |-> v] : n \in Names, v \in {M(1), M(2)}}
   ELSE {})
  \cup (IF "assign" \in OpKinds THEN
          {[a |-> "assign", n |-> n, val |-> v] : n \in Names, v \in {I(1), I(2), T(2), P(1), M(1)}} ELSE {})
  \cup (IF "delete" \in OpKinds THEN {[a |-> "delete", n |-> n] : n \in Names} ELSE {})
  \cup (IF "read" \in OpKinds THEN
          {[a |-> x, n |-> n] : x \in {"get", "get_extra", "get_nested", "in_dir"}, n \in Names} ELSE {})
  \cup (IF "persist" \in OpKinds THEN
          {[a |-> "save"], [a |-> "pickle"]}
          \cup (IF s.saved.has /\ (AllowMismatch \/ Compatible(s)) THEN {[a |-> "load"]} ELSE {})
        ELSE {})

Init == st = InitState
Next == \E o \in Ops(st) : \E mo \in MApply(st, o) : st' = mo.st
Spec == Init /\ [][Next]_vars
Bounded == TLCGet("level") <= MaxDepth

TypeOK == /\ \A n \in Names : st.p[n].k \in {"-", "p"} /\ st.b[n].k \in {"-", "t"} /\ st.m[n].k \in {"-", "m"}
          /\ \A n \in Names : st.d[n].k \in {"-", "i", "t"}
ExclusiveInv == Exclusive(st)
Refinement == \A o \in Ops(st) : RefinesAt(st, o)
RoundTrip == LoadRestores(st) /\ SaveLoadIdentity(st)
\* lookup, get_extra and dir agree on what exists
Consistent == \A n \in Names :
   /\ \A mo \in MInDir(st, n) : mo.ret.b = (\E g \in MGet(st, n) : g.ret.t = "val")
   /\ \A mo \in MGetExtra(st, n) : mo.ret.t = "val" => mo.ret.val = st.x[n]

\* must FAIL (reachability of the named deviation AssignToExtraKeepsExtra)
ExtrasTyped == \A n \in Names : st.x[n].k \in {"-", "i"}

Emit == PrintT(ToJson([s |-> st, out |-> {[op |-> o, res |-> MApply(st, o)] : o \in Ops(st)}]))
=============================================================================
