-------------------------- MODULE MonitorKindsCore --------------------------
(***************************************************************************)
(* Extension of the C15 specification: WHAT each kind of monitor           *)
(* (inferno/observe/monitors.py) hands to its reducer at each call of the  *)
(* observed module, and WHEN.                                              *)
(*                                                                         *)
(* The observed module P is a probe:  attribute x (None before the first   *)
(* call), nested attribute sub.y;  forward(v): x := v, sub.y := 2v,        *)
(* returns v + 100.  Two "mutator" hooks (stand-ins for state hooks such   *)
(* as Clamping / Normalization, or any user hook) can be installed on P so *)
(* that the ORDER of hooks is observable:                                  *)
(*   pre-mutator : x := x + 1000 (when x is not None), replaces the input  *)
(*                 v by v + 10                                             *)
(*   post-mutator: x := x + 2000, replaces the output o by o + 5000        *)
(* None is the integer -1.                                                 *)
(*                                                                         *)
(* A monitor configuration c:                                              *)
(*   kind    "input" | "output" | "state" | "multi" | "diff"               *)
(*   pre     as_prehook (state / multi only)                               *)
(*   tu, eu  train_update / eval_update                                    *)
(*   prepend registered before the hooks already on the module             *)
(*   filt    "default" | "odd"  (custom filter_: accept odd first value)   *)
(*   map     "default" | "double" (custom map_: doubles every value)       *)
(*   op      "sub" | "add"  (diff only: op_ = post + pre)                  *)
(*   via     "ctor" | "partial" (built by cls(...) or by                   *)
(*           cls.partialconstructor(...)(attr, module))                    *)
(*   attach  constructed with the module (registered at once) or without   *)
(*                                                                         *)
(* Abs  - the documented meaning: per call of P while the monitor is       *)
(*        registered and P's mode is one it is enabled for, ONE            *)
(*        observation: the inputs / the output / the attribute before or   *)
(*        after forward / post-minus-pre, as seen at the monitor's         *)
(*        position among the module's hooks, filtered and mapped.          *)
(* Mech - torch's hook lists (ordered dictionaries of forward pre-hooks    *)
(*        and forward hooks, `prepend` moves to the front), the mode-gated *)
(*        wrappers of Hook, the pre-call storing and post-call reading of  *)
(*        DifferenceMonitor.                                               *)
(* Named deviation of the code from its documentation:                     *)
(*   MultiFilterNeverRejects - MultiStateMonitor's default filter tests    *)
(*   the TUPLE of attributes against None, which is never None, so a       *)
(*   tuple of None values is handed to the reducer.                        *)
(***************************************************************************)
EXTENDS Integers, Sequences, FiniteSets, TLC

None == -1
Clear == <<-9>>          \* marker left in the reducer log by Monitor.clear()

Out(st, r) == [st |-> st, ret |-> r]
Ok(st) == {Out(st, [t |-> "ok"])}
Err(st, e) == {Out(st, [t |-> "err", e |-> e])}

HasPre(c)  == c.kind = "input" \/ c.kind = "diff" \/ (c.kind \in {"state", "multi"} /\ c.pre)
HasPost(c) == c.kind = "output" \/ c.kind = "diff" \/ (c.kind \in {"state", "multi"} /\ ~c.pre)

InitState(c) ==
  [c |-> c, tr |-> TRUE, x |-> None, preh |-> IF c.attach /\ HasPre(c) THEN <<"mon">> ELSE <<>>,
   posth |-> IF c.attach /\ HasPost(c) THEN <<"mon">> ELSE <<>>, reg |-> c.attach, known |-> c.attach,
   rec |-> <<>>, calls |-> 0]

Enabled(st) == (st.c.tu /\ st.tr) \/ (st.c.eu /\ ~st.tr)
Y(x) == IF x = None THEN None ELSE 2 * (x % 1000)       \* sub.y is set by forward only (mutators leave it)

(***************************************************************************)
(* filter_ / map_ as configured                                            *)
(***************************************************************************)
Odd(v) == v # None /\ v % 2 = 1
\* vals: the tuple the default map would hand over;  first: what the default filter looks at
Accept(c, first, isNoneObj) ==
  IF c.filt = "odd" THEN Odd(first)
  ELSE ~isNoneObj
Mapped(c, vals) == IF c.map = "double" THEN [i \in DOMAIN vals |-> IF vals[i] = None THEN None ELSE 2 * vals[i]]
                   ELSE vals
DiffOp(c, f, i) ==
  LET ff == IF f = None THEN 0 ELSE f
      ii == IF i = None THEN 0 ELSE i      \* documented: a None side counts as all-zeros
  IN IF c.op = "add" THEN ff + ii ELSE ff - ii

(***************************************************************************)
(* Mech: one module call = pre-hooks in order, forward, post-hooks in      *)
(* order.  A running record r = [x, v, o, d, rec, y]; d is the value       *)
(* DifferenceMonitor stores in its pre-call hook (private; it is always    *)
(* rewritten before it is read, so it is not part of the state).           *)
(***************************************************************************)
MonPre(c, en, r) ==
  IF ~en THEN r
  ELSE CASE c.kind = "input" ->
              IF Accept(c, r.v, FALSE) THEN [r EXCEPT !.rec = Append(@, Mapped(c, <<r.v>>))] ELSE r
         [] c.kind = "state" ->
              IF Accept(c, r.x, r.x = None) THEN [r EXCEPT !.rec = Append(@, Mapped(c, <<r.x>>))] ELSE r
         [] c.kind = "multi" ->                                   \* MultiFilterNeverRejects
              IF Accept(c, r.x, FALSE) THEN [r EXCEPT !.rec = Append(@, Mapped(c, <<r.x, r.y>>))] ELSE r
         [] c.kind = "diff" -> [r EXCEPT !.d = r.x]
         [] OTHER -> r

MonPost(c, en, r) ==
  IF ~en THEN r
  ELSE CASE c.kind = "output" ->
              IF Accept(c, r.o, FALSE) THEN [r EXCEPT !.rec = Append(@, Mapped(c, <<r.o>>))] ELSE r
         [] c.kind = "state" ->
              IF Accept(c, r.x, r.x = None) THEN [r EXCEPT !.rec = Append(@, Mapped(c, <<r.x>>))] ELSE r
         [] c.kind = "multi" ->
              IF Accept(c, r.x, FALSE) THEN [r EXCEPT !.rec = Append(@, Mapped(c, <<r.x, r.y>>))] ELSE r
         [] c.kind = "diff" ->
              IF (IF c.filt = "odd" THEN Odd(r.x) ELSE ~(r.x = None /\ r.d = None))
              THEN [r EXCEPT !.rec = Append(@, IF c.map = "double" THEN <<2 * r.x, IF r.d = None THEN None ELSE 2 * r.d>>
                                                ELSE <<DiffOp(c, r.x, r.d)>>)]
              ELSE r
         [] OTHER -> r

MutPre(r)  == [r EXCEPT !.x = IF @ = None THEN None ELSE @ + 1000, !.v = @ + 10]
MutPost(r) == [r EXCEPT !.x = @ + 2000, !.o = @ + 5000]

RECURSIVE RunPre(_, _, _, _), RunPost(_, _, _, _)
RunPre(c, en, hs, r) ==
  IF hs = <<>> THEN r
  ELSE RunPre(c, en, Tail(hs), IF Head(hs) = "mon" THEN MonPre(c, en, r) ELSE MutPre(r))
RunPost(c, en, hs, r) ==
  IF hs = <<>> THEN r
  ELSE RunPost(c, en, Tail(hs), IF Head(hs) = "mon" THEN MonPost(c, en, r) ELSE MutPost(r))

MCall(st, v) ==
  LET en == Enabled(st)
      r0 == [x |-> st.x, v |-> v, o |-> None, d |-> None, rec |-> st.rec, y |-> Y(st.x)]
      r1 == RunPre(st.c, en, st.preh, r0)
      r2 == [r1 EXCEPT !.x = r1.v, !.y = 2 * r1.v, !.o = r1.v + 100]        \* forward
      r3 == RunPost(st.c, en, st.posth, r2)
  IN {Out([st EXCEPT !.x = r3.x, !.rec = r3.rec, !.calls = @ + 1], [t |-> "out", v |-> r3.o])}

Without(hs, h) == SelectSeq(hs, LAMBDA e : e # h)
Place(c, hs) == IF c.prepend THEN <<"mon">> \o hs ELSE Append(hs, "mon")

DoRegister(st) ==
  [st EXCEPT !.reg = TRUE, !.known = TRUE,
             !.preh = IF HasPre(st.c) THEN Place(st.c, @) ELSE @,
             !.posth = IF HasPost(st.c) THEN Place(st.c, @) ELSE @]

\* Monitor.register(): re-register with the module last registered; a no-op when registered;
\* RuntimeError when there never was one
MRegister(st) ==
  IF st.reg THEN Ok(st) ELSE IF ~st.known THEN Err(st, "RuntimeError") ELSE Ok(DoRegister(st))
\* Monitor.register(module): RuntimeError when already registered
MRegisterMod(st) == IF st.reg THEN Err(st, "RuntimeError") ELSE Ok(DoRegister(st))
\* Hook.deregister: safe to call when not registered
MDeregister(st) == Ok([st EXCEPT !.reg = FALSE, !.preh = Without(@, "mon"), !.posth = Without(@, "mon")])
MAddMut(st, where) ==
  IF where = "pre" THEN Ok([st EXCEPT !.preh = Append(@, "mut")]) ELSE Ok([st EXCEPT !.posth = Append(@, "mut")])
MTrain(st, mode) == Ok([st EXCEPT !.tr = mode])
\* Monitor.clear: the reducer is cleared (DifferenceMonitor also forgets the stored pre-call value)
MClear(st) == Ok([st EXCEPT !.rec = Append(@, Clear)])

MApply(st, o) ==
  CASE o.a = "call" -> MCall(st, o.v)
    [] o.a = "register" -> MRegister(st)
    [] o.a = "register_mod" -> MRegisterMod(st)
    [] o.a = "deregister" -> MDeregister(st)
    [] o.a = "add_mut" -> MAddMut(st, o.w)
    [] o.a = "train" -> MTrain(st, o.m)
    [] o.a = "clear" -> MClear(st)

(***************************************************************************)
(* Abs: the observation of one call, computed from the positions only.     *)
(***************************************************************************)
Index(hs, h) == IF \E i \in DOMAIN hs : hs[i] = h THEN CHOOSE i \in DOMAIN hs : hs[i] = h ELSE 0
Before(hs, a, b) == Index(hs, a) # 0 /\ Index(hs, b) # 0 /\ Index(hs, a) < Index(hs, b)   \* a runs before b

\* the observation list a registered, enabled monitor adds for a call with input v in state st
AbsObs(st, v) ==
  LET c == st.c
      mutPre == Index(st.preh, "mut") # 0
      mutPost == Index(st.posth, "mut") # 0
      vin == IF mutPre THEN v + 10 ELSE v                                     \* what forward receives
      xPre == IF mutPre /\ Before(st.preh, "mut", "mon") /\ st.x # None THEN st.x + 1000 ELSE st.x
      seenIn == IF mutPre /\ Before(st.preh, "mut", "mon") THEN v + 10 ELSE v
      xPost == IF mutPost /\ Before(st.posth, "mut", "mon") THEN vin + 2000 ELSE vin
      oPost == IF mutPost /\ Before(st.posth, "mut", "mon") THEN vin + 100 + 5000 ELSE vin + 100
      one(first, isNone, vals) == IF Accept(c, first, isNone) THEN <<Mapped(c, vals)>> ELSE <<>>
  IN CASE c.kind = "input" -> one(seenIn, FALSE, <<seenIn>>)
       [] c.kind = "output" -> one(oPost, FALSE, <<oPost>>)
       [] c.kind = "state" /\ c.pre -> one(xPre, xPre = None, <<xPre>>)
       [] c.kind = "state" /\ ~c.pre -> one(xPost, FALSE, <<xPost>>)
       [] c.kind = "multi" /\ c.pre -> one(xPre, FALSE, <<xPre, Y(st.x)>>)
       [] c.kind = "multi" /\ ~c.pre -> one(xPost, FALSE, <<xPost, 2 * vin>>)
       [] c.kind = "diff" ->
            IF (IF c.filt = "odd" THEN Odd(xPost) ELSE TRUE)
            THEN <<IF c.map = "double" THEN <<2 * xPost, IF xPre = None THEN None ELSE 2 * xPre>>
                   ELSE <<DiffOp(c, xPost, xPre)>>>>
            ELSE <<>>

\* Refinement of a call: the Mech outcome appends exactly AbsObs when registered and enabled, nothing otherwise
CallRefines(st, v) ==
  \A mo \in MCall(st, v) :
     mo.st.rec = st.rec \o (IF st.reg /\ Enabled(st) THEN AbsObs(st, v) ELSE <<>>)

\* the hook lists hold the monitor exactly when registered, at most once, in the positions its kind uses
WellFormed(st) ==
  /\ (Index(st.preh, "mon") # 0) = (st.reg /\ HasPre(st.c))
  /\ (Index(st.posth, "mon") # 0) = (st.reg /\ HasPost(st.c))
  /\ Cardinality({i \in DOMAIN st.preh : st.preh[i] = "mon"}) <= 1
  /\ Cardinality({i \in DOMAIN st.posth : st.posth[i] = "mon"}) <= 1
=============================================================================
