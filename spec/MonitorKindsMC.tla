--------------------------- MODULE MonitorKindsMC ---------------------------
(***************************************************************************)
(* Exhaustive exploration of the monitor-kind model: every configuration   *)
(* of the chosen kinds and every sequence of module calls, mode switches,  *)
(* (de)registrations, mutator-hook installations and clears, up to         *)
(* MaxCalls calls and MaxClears clears (the rest of the state is finite).  *)
(***************************************************************************)
EXTENDS MonitorKindsCore, Json

CONSTANTS
  Kinds,       \* subset of {"input", "output", "state", "multi", "diff"}
  Custom,      \* TRUE: also custom filter_ / map_ / op_
  MaxCalls, MaxClears

VARIABLE st
vars == <<st>>

B == BOOLEAN
Configs ==
  {c \in [kind : Kinds, pre : B, tu : B, eu : B, prepend : B, filt : {"default", "odd"}, map : {"default", "double"},
          op : {"sub", "add"}, via : {"ctor", "partial"}, attach : B] :
     /\ (c.kind \notin {"state", "multi"} => ~c.pre)
     /\ (c.kind # "diff" => c.op = "sub")
     /\ (~Custom => c.filt = "default" /\ c.map = "default" /\ c.op = "sub")
     /\ (c.via = "partial" => c.attach)           \* the partial constructor always passes the module
     /\ (c.tu \/ c.eu)}

NClears(s) == Cardinality({i \in DOMAIN s.rec : s.rec[i] = Clear})

Ops(s) ==
  (IF s.calls < MaxCalls THEN {[a |-> "call", v |-> v] : v \in {1, 2}} ELSE {})
  \cup {[a |-> "register"], [a |-> "register_mod"], [a |-> "deregister"]}
  \cup {[a |-> "train", m |-> m] : m \in B}
  \cup {[a |-> "add_mut", w |-> w] : w \in {x \in {"pre", "post"} :
            IF x = "pre" THEN Index(s.preh, "mut") = 0 ELSE Index(s.posth, "mut") = 0}}
  \cup (IF NClears(s) < MaxClears /\ s.rec # <<>> /\ s.rec[Len(s.rec)] # Clear THEN {[a |-> "clear"]} ELSE {})

Init == \E c \in Configs : st = InitState(c)
Next == \E o \in Ops(st) : \E mo \in MApply(st, o) : st' = mo.st
Spec == Init /\ [][Next]_vars

TypeOK == /\ st.tr \in B /\ st.reg \in B /\ st.known \in B
          /\ st.calls \in 0..MaxCalls
          /\ st.x = None \/ st.x \in 1..4000
WellFormedInv == WellFormed(st)
\* the property-level statement: one observation per enabled call, none otherwise, with the documented content
Refinement == \A v \in {1, 2} : CallRefines(st, v)
OnePerCall ==
  \A v \in {1, 2} : \A mo \in MCall(st, v) :
     LET added == Len(mo.st.rec) - Len(st.rec)
     IN /\ added \in {0, 1}
        /\ (~(st.reg /\ Enabled(st)) => added = 0)
        /\ (st.reg /\ Enabled(st) /\ st.c.filt = "default" /\ ~(st.c.kind = "state" /\ st.c.pre /\ st.x = None) => added = 1)
\* operations other than call and clear never touch the recorded data; clear only appends its marker
Frame == \A o \in Ops(st) : o.a \notin {"call", "clear"} => \A mo \in MApply(st, o) : mo.st.rec = st.rec /\ mo.st.x = st.x
Deterministic == \A o \in Ops(st) : Cardinality(MApply(st, o)) = 1

Emit == PrintT(ToJson([s |-> st, out |-> {[op |-> o, res |-> MApply(st, o)] : o \in Ops(st)}]))
=============================================================================
