----------------------------- MODULE NetworkCore -----------------------------
(***************************************************************************)
(* End-to-end composition (DESIGN section 7, item 7): a two-layer network  *)
(*                                                                         *)
(*   x (N0 input spikes) -> Serial(LinearDense + DeltaCurrent, LIF) : s1   *)
(*                       -> Serial(LinearDense + DeltaCurrent, LIF) : s2   *)
(*                                                                         *)
(* trained by ONE pair-based STDP trainer registered on both cells, whose  *)
(* accumulated parts are applied by the connections' updaters.  Every      *)
(* component is the one specified for its own property (C03 neuron step in *)
(* the dyadic recipe - NeuronCore is instantiated, C04 delta synapse, C05  *)
(* dense map, C08 trace-based STDP, C10 updater, C15 monitor gating); this *)
(* module specifies how they are COMPOSED in time:                         *)
(*   - layer 2 consumes the spikes layer 1 emitted in the SAME step;       *)
(*   - the trainer's monitors observe each layer step as it happens, so    *)
(*     trainer() after the forward pass works on this step's spikes and    *)
(*     traces that include this step;                                      *)
(*   - while the trainer is in evaluation mode its monitors are detached:  *)
(*     nothing is recorded, traces neither grow nor decay, trainer() is a  *)
(*     no-op;                                                              *)
(*   - weights change only when the updater is applied, by the sum of the  *)
(*     parts accumulated since the last application, and the next forward  *)
(*     pass uses the new weights;                                          *)
(*   - clear() returns neurons, synapses, traces and pending parts to the  *)
(*     state of a freshly built network and keeps the learned weights.     *)
(*                                                                         *)
(* Values are integers: voltages, currents, weights and parts scaled by S  *)
(* (a power of two), raw traces scaled by T (a power of two); membrane and *)
(* trace decays are exactly 1/2 (time constants dt / ln 2), the synapse    *)
(* charge equals dt (one spike = unit current).                            *)
(*                                                                         *)
(* Abs - the documented meaning over the HISTORY of recorded steps (those  *)
(*       taken while the trainer was training, since the last clear): the  *)
(*       accumulated change of every weight is the pair sum of C08.        *)
(* Mech - the recurrences the code runs: per-step traces, outer products,  *)
(*       accumulator lists, updater application.                           *)
(***************************************************************************)
EXTENDS Integers, Sequences, FiniteSets, TLC

CONSTANTS
  Recipe,            \* which parameter recipe (cfg files take no tuples and no negative numbers)
  S, T,              \* scales (powers of two)
  RefSteps,          \* absolute refractory period in steps
  LrPost, LrPre,     \* learning-rate magnitudes in weight units: eta_post = LrPost > 0 (LTP), eta_pre = -LrPre < 0 (LTD)
  Clamp              \* "none" | "box": a Clamping hook on each connection's updater keeps the weights in [0, WBoxMax]
                     \* (the quickstart's weight bounding: neural.Clamping(updater, "parent.weight", min, max))

\* sizes of the input, of layer 1 and of layer 2
N0 == 2
N1 == 2
N2 == 1
\* neuron parameters in units (the recipe of the C03 binding: a current of 16 fires at once, 8 reaches the
\* threshold EXACTLY at the second step)
Rest == -2
Reset == -4
Theta == 4
\* initial weights W1Init[j][i], W2Init[k][j]: "a" excitatory only, "b" with an inhibitory synapse
W1Init == IF Recipe = "a" THEN <<(<<16, 0>>), (<<8, 8>>)>> ELSE <<(<<8, 8>>), (<<16, -8>>)>>
W2Init == IF Recipe = "a" THEN <<(<<8, 8>>)>> ELSE <<(<<16, 8>>)>>

NC == INSTANCE NeuronCore

I0 == 1..N0
I1 == 1..N1
I2 == 1..N2

\* configuration of one neuron element for NeuronCore's dyadic step
NCfg == [D |-> 1, R |-> RefSteps, lock |-> TRUE, lax |-> FALSE, attrmode |-> "derived", dy |-> TRUE,
         rest |-> Rest * S, reset |-> Reset * S, theta |-> Theta * S, glif |-> FALSE, mul2 |-> 0, add |-> 0,
         adapt |-> FALSE, inc |-> 0]

Zero(A, B) == [a \in A |-> [b \in B |-> 0]]
InitState ==
  [w1 |-> [j \in I1 |-> [i \in I0 |-> W1Init[j][i] * S]], w2 |-> [k \in I2 |-> [j \in I1 |-> W2Init[k][j] * S]],
   n1 |-> [j \in I1 |-> NC!InitSt(NCfg)], n2 |-> [k \in I2 |-> NC!InitSt(NCfg)],
   t0 |-> [i \in I0 |-> 0], t1 |-> [j \in I1 |-> 0], t2 |-> [k \in I2 |-> 0],     \* raw traces (scaled by T)
   p1 |-> Zero(I1, I0), q1 |-> Zero(I1, I0), p2 |-> Zero(I2, I1), q2 |-> Zero(I2, I1), \* accumulated pos / neg parts
   training |-> TRUE, hist |-> <<>>, old |-> [p1 |-> Zero(I1, I0), q1 |-> Zero(I1, I0), p2 |-> Zero(I2, I1), q2 |-> Zero(I2, I1)],
   steps |-> 0]

Out(st, r) == [st |-> st, ret |-> r]
B2I(b) == IF b THEN 1 ELSE 0

RECURSIVE SumOver(_, _)
SumOver(f, D) == IF D = {} THEN 0 ELSE LET d == CHOOSE e \in D : TRUE IN f[d] + SumOver(f, D \ {d})

(***************************************************************************)
(* Mech: one network step                                                  *)
(***************************************************************************)
\* dense map of unit currents: out[j] = sum_i w[j][i] * x[i]
Dense(w, x, J, I) == [j \in J |-> SumOver([i \in I |-> w[j][i] * B2I(x[i])], I)]

\* one layer of neurons stepped by NeuronCore (deterministic in the dyadic recipe)
StepNeurons(ns, cur, J) ==
  [j \in J |-> CHOOSE o \in NC!MStep(NCfg, ns[j], [cur |-> cur[j]]) : TRUE]

Spk(outs, J) == [j \in J |-> outs[j].ret.spk]
\* trace recurrence of the trainers' cumulative trace reducers (amplitude applied when the trace is used)
Tr(t, s, J) == [j \in J |-> t[j] \div 2 + T * B2I(s[j])]

\* parts of one cell at one step: pos = eta_post * pre-trace (x) post-spike, neg = |eta_pre| * post-trace (x) pre-spike
PosPart(tpre, spost, J, I) == [j \in J |-> [i \in I |-> (LrPost * S * tpre[i] * B2I(spost[j])) \div T]]
NegPart(tpost, spre, J, I) == [j \in J |-> [i \in I |-> (LrPre * S * tpost[j] * B2I(spre[i])) \div T]]
AddM(a, b, J, I) == [j \in J |-> [i \in I |-> a[j][i] + b[j][i]]]

MStepNet(st, x) ==
  LET c1 == Dense(st.w1, x, I1, I0)
      o1 == StepNeurons(st.n1, c1, I1)
      s1 == Spk(o1, I1)
      c2 == Dense(st.w2, s1, I2, I1)                   \* the SAME step's layer-1 spikes
      o2 == StepNeurons(st.n2, c2, I2)
      s2 == Spk(o2, I2)
      t0n == Tr(st.t0, x, I0)
      t1n == Tr(st.t1, s1, I1)
      t2n == Tr(st.t2, s2, I2)
      base == [st EXCEPT !.n1 = [j \in I1 |-> o1[j].st], !.n2 = [k \in I2 |-> o2[k].st], !.steps = @ + 1]
      trained == [base EXCEPT !.t0 = t0n, !.t1 = t1n, !.t2 = t2n,
                              !.p1 = AddM(@, PosPart(t0n, s1, I1, I0), I1, I0),
                              !.q1 = AddM(@, NegPart(t1n, x, I1, I0), I1, I0),
                              !.p2 = AddM(@, PosPart(t1n, s2, I2, I1), I2, I1),
                              !.q2 = AddM(@, NegPart(t2n, s1, I2, I1), I2, I1),
                              !.hist = Append(@, [x |-> x, s1 |-> s1, s2 |-> s2, fresh |-> TRUE])]
  IN {Out(IF st.training THEN trained ELSE base, [t |-> "spikes", s1 |-> s1, s2 |-> s2])}

\* the updater's post-hook: runs after every call of the updater (connection.update() and trainer.update() alike)
WBoxMax == 16
Box(w) == IF Clamp = "box" THEN (IF w < 0 THEN 0 ELSE IF w > WBoxMax * S THEN WBoxMax * S ELSE w) ELSE w

\* connection.update() on both connections: w := w + pos - neg (then the hook), parts cleared
MUpdate(st) ==
  {Out([st EXCEPT !.w1 = [j \in I1 |-> [i \in I0 |-> Box(@[j][i] + st.p1[j][i] - st.q1[j][i])]],
                  !.w2 = [k \in I2 |-> [j \in I1 |-> Box(@[k][j] + st.p2[k][j] - st.q2[k][j])]],
                  !.p1 = Zero(I1, I0), !.q1 = Zero(I1, I0), !.p2 = Zero(I2, I1), !.q2 = Zero(I2, I1),
                  \* history variables of the Abs layer: nothing recorded so far is pending any more
                  !.hist = [m \in DOMAIN @ |-> [@[m] EXCEPT !.fresh = FALSE]],
                  !.old = [p1 |-> Zero(I1, I0), q1 |-> Zero(I1, I0), p2 |-> Zero(I2, I1), q2 |-> Zero(I2, I1)]],
       [t |-> "ok"])}


(***************************************************************************)
(* Abs: closed forms over the history of recorded steps (hist: the steps   *)
(* recorded since the last clear, `fresh` = not yet applied by an update;  *)
(* old: pending parts recorded before the last clear)                      *)
(***************************************************************************)
RECURSIVE Pow2(_)
Pow2(n) == IF n <= 0 THEN 1 ELSE 2 * Pow2(n - 1)
\* raw trace after the recorded steps 1..n: sum over events of T * 2^-(n - m)  (exact while n <= log2 T + 1)
ClosedTrace(h, n, sel(_)) == SumOver([m \in 1..n |-> (T * B2I(sel(h[m]))) \div Pow2(n - m)], 1..n)

\* documented pair sums (C08): every post spike pairs with the earlier-or-simultaneous pre spikes, weighted
\* eta_post * 2^-(age); every pre spike pairs with the earlier-or-simultaneous post spikes, weighted |eta_pre| * 2^-(age)
ClosedPos(h, post(_, _), pre(_, _), J, I) ==
  [j \in J |-> [i \in I |->
     SumOver([m \in 1..Len(h) |-> IF h[m].fresh /\ post(h[m], j)
                                    THEN (LrPost * S * ClosedTrace(h, m, LAMBDA e : pre(e, i))) \div T ELSE 0],
             1..Len(h))]]
ClosedNeg(h, post(_, _), pre(_, _), J, I) ==
  [j \in J |-> [i \in I |->
     SumOver([m \in 1..Len(h) |-> IF h[m].fresh /\ pre(h[m], i)
                                    THEN (LrPre * S * ClosedTrace(h, m, LAMBDA e : post(e, j))) \div T ELSE 0],
             1..Len(h))]]
X(e, i) == e.x[i]
S1(e, j) == e.s1[j]
S2(e, k) == e.s2[k]
ClosedParts(h) == [p1 |-> ClosedPos(h, S1, X, I1, I0), q1 |-> ClosedNeg(h, S1, X, I1, I0),
                   p2 |-> ClosedPos(h, S2, S1, I2, I1), q2 |-> ClosedNeg(h, S2, S1, I2, I1)]
AddParts(a, b) == [p1 |-> AddM(a.p1, b.p1, I1, I0), q1 |-> AddM(a.q1, b.q1, I1, I0),
                   p2 |-> AddM(a.p2, b.p2, I2, I1), q2 |-> AddM(a.q2, b.q2, I2, I1)]

MTrain(st, b) == {Out([st EXCEPT !.training = b], [t |-> "ok"])}

\* layer.clear() on both layers + trainer.clear(): all dynamic state back to that of a freshly built network -
\* neurons, synapses, traces AND the parts pending in the connections' updaters (Connection.clear clears its
\* updater); the learned weights are kept
MClear(st) ==
  {Out([st EXCEPT !.n1 = [j \in I1 |-> NC!InitSt(NCfg)], !.n2 = [k \in I2 |-> NC!InitSt(NCfg)],
                  !.t0 = [i \in I0 |-> 0], !.t1 = [j \in I1 |-> 0], !.t2 = [k \in I2 |-> 0], !.hist = <<>>,
                  !.p1 = Zero(I1, I0), !.q1 = Zero(I1, I0), !.p2 = Zero(I2, I1), !.q2 = Zero(I2, I1),
                  !.old = [p1 |-> Zero(I1, I0), q1 |-> Zero(I1, I0), p2 |-> Zero(I2, I1), q2 |-> Zero(I2, I1)]],
       [t |-> "ok"])}

\* Named deviation TrainerUpdateKeepsParts: CellTrainer.update() calls every updater once but - unlike
\* connection.update() - does not clear it, so the same parts stay pending (and would be applied again)
MTrainerUpdate(st) ==
  {Out([st EXCEPT !.w1 = [j \in I1 |-> [i \in I0 |-> Box(@[j][i] + st.p1[j][i] - st.q1[j][i])]],
                  !.w2 = [k \in I2 |-> [j \in I1 |-> Box(@[k][j] + st.p2[k][j] - st.q2[k][j])]]],
       [t |-> "ok"])}

MApply(st, o) ==
  CASE o.a = "step" -> MStepNet(st, o.x)
    [] o.a = "tupdate" -> MTrainerUpdate(st)
    [] o.a = "update" -> MUpdate(st)
    [] o.a = "ttrain" -> MTrain(st, o.b)
    [] o.a = "clear" -> MClear(st)

\* the traces held by the monitors are the closed-form traces of the recorded history
TracesClosed(st) ==
  LET n == Len(st.hist)
  IN /\ \A i \in I0 : st.t0[i] = ClosedTrace(st.hist, n, LAMBDA e : e.x[i])
     /\ \A j \in I1 : st.t1[j] = ClosedTrace(st.hist, n, LAMBDA e : e.s1[j])
     /\ \A k \in I2 : st.t2[k] = ClosedTrace(st.hist, n, LAMBDA e : e.s2[k])

\* the parts the updaters hold are the documented pair sums over everything recorded since the last application
PartsArePairSums(st) ==
  LET c == AddParts(st.old, ClosedParts(st.hist))
  IN st.p1 = c.p1 /\ st.q1 = c.q1 /\ st.p2 = c.p2 /\ st.q2 = c.q2
=============================================================================
