------------------------------ MODULE NetworkMC ------------------------------
(***************************************************************************)
(* Exhaustive exploration of the two-layer network model to MaxSteps       *)
(* network steps: every input sequence, update / trainer-mode / clear at   *)
(* every position.                                                         *)
(***************************************************************************)
EXTENDS NetworkCore, Json

CONSTANTS MaxSteps, MaxOther      \* bounds on network steps and on the other operations

VARIABLES st, others
vars == <<st, others>>

Inputs == [I0 -> BOOLEAN]
Ops(s) ==
  (IF s.steps < MaxSteps THEN {[a |-> "step", x |-> x] : x \in Inputs} ELSE {})
  \cup (IF others < MaxOther THEN {[a |-> "update"], [a |-> "tupdate"], [a |-> "clear"], [a |-> "ttrain", b |-> ~s.training]} ELSE {})

Init == st = InitState /\ others = 0
Next == \E o \in Ops(st) : \E mo \in MApply(st, o) :
           /\ st' = mo.st
           /\ others' = IF o.a = "step" THEN others ELSE others + 1
Spec == Init /\ [][Next]_vars

\* ---- composition-level properties
\* every halving in the run is exact, so the implementation's float32 arithmetic is exact too: weights, parts and
\* currents are multiples of S / T (= 2^10 for S = 2^14, T = 2^4), a voltage loses one factor of two per step and a
\* raw trace one per recorded step
Exact ==
  LET unit == S \div T
      vok(n) == (n.v - Rest * S) % (IF st.steps >= 10 THEN 1 ELSE Pow2(10 - st.steps)) = 0
  IN /\ st.steps <= 10 /\ Len(st.hist) <= 5
     /\ \A j \in I1 : vok(st.n1[j])
     /\ \A k \in I2 : vok(st.n2[k])
     /\ \A j \in I1 : \A i \in I0 : st.w1[j][i] % unit = 0 /\ st.p1[j][i] % unit = 0 /\ st.q1[j][i] % unit = 0
     /\ \A i \in I0 : st.t0[i] % (T \div Pow2(IF Len(st.hist) = 0 THEN 0 ELSE Len(st.hist) - 1)) = 0
TracesClosedInv == TracesClosed(st)
PairSums == PartsArePairSums(st)
\* only update() changes weights; only step() changes neurons; a step in evaluation mode leaves traces and parts alone
Frame ==
  \A o \in Ops(st) : \A mo \in MApply(st, o) :
     /\ (o.a \notin {"update", "tupdate"} => mo.st.w1 = st.w1 /\ mo.st.w2 = st.w2)
     /\ (o.a \in {"update", "tupdate", "ttrain"} => mo.st.n1 = st.n1 /\ mo.st.n2 = st.n2 /\ mo.st.t0 = st.t0 /\ mo.st.t1 = st.t1)
     /\ (o.a = "step" /\ ~st.training =>
            mo.st.t0 = st.t0 /\ mo.st.t1 = st.t1 /\ mo.st.t2 = st.t2 /\ mo.st.p1 = st.p1 /\ mo.st.q1 = st.q1
            /\ mo.st.p2 = st.p2 /\ mo.st.q2 = st.q2)
     \* after a clear the network behaves as a freshly built one with the learned weights
     /\ (o.a = "clear" => mo.st = [InitState EXCEPT !.w1 = st.w1, !.w2 = st.w2, !.training = st.training, !.steps = st.steps])
\* a second update right after an update is the identity
UpdateIdempotent ==
  \A mo \in MUpdate(st) : \A mo2 \in MUpdate(mo.st) : mo2.st.w1 = mo.st.w1 /\ mo2.st.w2 = mo.st.w2
\* weight bounding (C16 + C10 at network level): whatever was learned, every application of the updaters leaves the
\* weights inside the box, and inside the box the hook changes nothing
InBox(w, J, I) == \A j \in J : \A i \in I : w[j][i] >= 0 /\ w[j][i] <= WBoxMax * S
BoxInv ==
  Clamp = "box" =>
    \A o \in {[a |-> "update"], [a |-> "tupdate"]} : \A mo \in MApply(st, o) :
       /\ InBox(mo.st.w1, I1, I0) /\ InBox(mo.st.w2, I2, I1)
       /\ \A j \in I1 : \A i \in I0 :
            LET raw == st.w1[j][i] + st.p1[j][i] - st.q1[j][i]
            IN (raw >= 0 /\ raw <= WBoxMax * S) => mo.st.w1[j][i] = raw
\* parts are non-negative (C09 at network level)
NonNegative == \A j \in I1 : \A i \in I0 : st.p1[j][i] >= 0 /\ st.q1[j][i] >= 0
\* layer 2 is driven by THIS step's layer-1 spikes: with all-zero layer-2 weights it never spikes, and a layer-1 spike
\* changes a layer-2 voltage in the same step when the weight is non-zero
SameStepDrive ==
  \A x \in Inputs : \A mo \in MStepNet(st, x) :
     \A k \in I2 :
        (\A j \in I1 : ~mo.ret.s1[j] \/ st.w2[k][j] = 0) =>
           \* no current arrives: the element evolves as under zero input
           mo.st.n2[k] = (CHOOSE o \in NC!MStep(NCfg, st.n2[k], [cur |-> 0]) : TRUE).st
Deterministic == \A o \in Ops(st) : Cardinality(MApply(st, o)) = 1

View == [s |-> [st EXCEPT !.hist = <<>>, !.old = 0], o |-> others]
Emit == PrintT(ToJson([s |-> [st EXCEPT !.hist = <<>>, !.old = 0], out |-> {[op |-> o, res |-> {[st |-> [mo.st EXCEPT !.hist = <<>>, !.old = 0], ret |-> mo.ret] : mo \in MApply(st, o)}] : o \in Ops(st)}]))
=============================================================================
