----------------------------- MODULE NeuronCore -----------------------------
(***************************************************************************)
(* C03 - the neuron step contract (threshold, reset, absolute refractory   *)
(* period, spike flag), one ELEMENT (one neuron of one batch sample).      *)
(*                                                                         *)
(* Times are integer ticks; a simulation step is c.D ticks, the absolute   *)
(* refractory period c.R ticks.                                            *)
(*                                                                         *)
(* Mech layer: the algorithm of neural/functional/neuron_dynamics.py       *)
(*   refracs = (refracs - step_time).clamp(min=0); mask = refracs == 0     *)
(*   voltages = dynamics(inputs * mask)           (kept if locked & ~mask) *)
(*   spikes = mask & (voltages >= thresh)                                  *)
(*   refracs = where(spikes, refrac_t); voltages = where(spikes, reset)    *)
(* and of neurons/mixins.py: spike attribute DERIVED as refrac == refrac_t.*)
(*                                                                         *)
(* Abs layer: the property's vocabulary - the trajectory (one record per   *)
(* step: drive category, spike, what happened to the voltage) and the      *)
(* statements "spikes exactly when out of the refractory window and the    *)
(* integrated voltage reaches threshold", "no spike / no voltage change    *)
(* before step t + max(1, ceil(R/D))", "reset on spike".                   *)
(*                                                                         *)
(* The per-step drive is either                                            *)
(*   [cat |-> "lt" | "ge" | "near"]  the category of the integrated        *)
(*        voltage against the current threshold (oracle-fed by the harness *)
(*        from the documented update equation; "near" = undecidable within *)
(*        float32 error: outcome left nondeterministic), or                *)
(*   [cur |-> i]  (c.dy = TRUE) an input current; voltages are integers    *)
(*        scaled by a power of two and the membrane decay is exactly 1/2   *)
(*        (linear family, time_constant = dt/ln 2, resistance 1).          *)
(***************************************************************************)
EXTENDS Integers, Sequences, FiniteSets

Max(a, b) == IF a >= b THEN a ELSE b
Min(a, b) == IF a <= b THEN a ELSE b
CeilDiv(a, b) == (a + b - 1) \div b

\* c: [D, R, lock, lax, attrmode, dy, rest, reset, theta, glif, mul2, add, adapt, inc]
Window(c) == Max(1, CeilDiv(c.R, c.D))

Half(x) == x \div 2          \* exact on even numbers; exactness is an invariant of the dyadic runs

\* voltage_integration_linear with decay 1/2, resistance 1
Integrate(c, v, cur) == c.rest + Half(v - c.rest - cur) + cur
\* voltage_thresholding_constant / voltage_thresholding_linear (GLIF2: rest + m (v - rest) - b, m = mul2/2)
ResetV(c, v) == IF c.glif THEN c.rest + Half(c.mul2 * (v - c.rest)) - c.add ELSE c.reset

InitSt(c) == [r |-> 0, lag |-> FALSE, spk |-> FALSE,
              attr |-> IF c.attrmode = "derived" THEN c.R = 0 ELSE FALSE,
              v |-> IF c.dy THEN c.rest ELSE 0, ad |-> 0]

(***************************************************************************)
(* One step, given the value r1 of the decremented refractory time, the    *)
(* mask (refracs == 0) and whether a positive float residue is left (lax). *)
(***************************************************************************)
MOutcome(c, s, in, r1, mask, lagnow) ==
  LET cur   == IF c.dy /\ mask THEN in.cur ELSE 0                        \* inputs * mask
      vdyn  == IF c.dy THEN Integrate(c, s.v, cur) ELSE 0                \* dynamics(inputs * mask)
      vnew  == IF c.dy THEN (IF c.lock /\ ~mask THEN s.v ELSE vdyn) ELSE 0
      theta == c.theta + s.ad                                            \* equilibrium + adaptations
      cats  == IF c.dy THEN {IF vnew >= theta THEN "ge" ELSE "lt"}
               ELSE IF in.cat = "near" THEN {"lt", "ge"} ELSE {in.cat}
  IN { LET spk  == mask /\ cat = "ge"                                    \* mask & (voltages >= thresh)
           r2   == IF spk THEN c.R ELSE r1                               \* where(spikes, refrac_t)
           lag2 == ~spk /\ lagnow
           v2   == IF c.dy THEN (IF spk THEN ResetV(c, vnew) ELSE vnew) ELSE 0
           vlab == IF spk THEN "reset" ELSE IF mask THEN "int" ELSE IF c.lock THEN "keep" ELSE "int0"
           \* adaptive_thresholds_linear_spike, decay 1/2, frozen while (post-step) refrac > 0 if locked
           ad2  == IF c.dy /\ c.adapt
                   THEN (IF c.lock /\ (r2 > 0 \/ lag2) THEN s.ad ELSE Half(s.ad)) + (IF spk THEN c.inc ELSE 0)
                   ELSE s.ad
           attr == IF c.attrmode = "derived" THEN (r2 = c.R /\ ~lag2)    \* refrac == refrac_t
                   ELSE spk                                              \* the property: last returned spikes
       IN [st  |-> [r |-> r2, lag |-> lag2, spk |-> spk, attr |-> attr, v |-> v2, ad |-> ad2],
           ret |-> [spk |-> spk, vlab |-> vlab, cat |-> cat, free |-> mask]] : cat \in cats }

(***************************************************************************)
(* MStep: the set of specified outcomes of one forward() call.             *)
(* RefracRoundingLag (only when c.lax, i.e. dt / refrac_t are not dyadic): *)
(* the subtraction that should give exactly 0 leaves a positive float      *)
(* residue, so the element stays refractory for one more step.  It can     *)
(* only happen when the ideal result is exactly zero (s.r = c.D); if the   *)
(* ideal result is negative the clamp gives an exact 0.                    *)
(***************************************************************************)
MStep(c, s, in) ==
  LET r1     == Max(s.r - c.D, 0)                                        \* (refracs - dt).clamp(min=0)
      normal == MOutcome(c, s, in, r1, r1 = 0, FALSE)
      lagged == IF c.lax /\ s.r = c.D /\ ~s.lag
                THEN MOutcome(c, s, in, 0, FALSE, TRUE)                  \* RefracRoundingLag
                ELSE {}
  IN normal \cup lagged

(***************************************************************************)
(* Abs layer: statements over the trajectory h (sequence of step records   *)
(* [cat, spk, vlab, lag]).                                                 *)
(***************************************************************************)
\* step j lies strictly inside the refractory window opened by an earlier spike
InWindow(c, h, j) == \E i \in 1..(j - 1) : h[i].spk /\ j - i < Window(c)

\* "a neuron that spikes at step t [does not spike] before step t + max(1, ceil(R/D))"
AbsWindow(c, h) == \A j \in 1..Len(h) : h[j].spk => ~InWindow(c, h, j)

\* "emits a spike for exactly those neurons that are out of their refractory period and
\*  whose integrated voltage reaches the current threshold"
AbsExact(c, h) ==
  \A j \in 1..Len(h) :
     /\ h[j].spk => (h[j].cat = "ge" /\ ~InWindow(c, h, j))
     /\ (h[j].cat = "ge" /\ ~InWindow(c, h, j) /\ ~h[j].spk) =>
           \* only the rounding lag may postpone a spike, and only by the one step at the window's end
           /\ c.lax
           /\ h[j].lag
           /\ \E i \in 1..(j - 1) : h[i].spk /\ j - i = Window(c) /\ c.R = Window(c) * c.D

\* "is reset in the same step to its documented reset voltage"
AbsReset(c, h) == \A j \in 1..Len(h) : h[j].spk <=> h[j].vlab = "reset"

\* "(with voltage locking) [does not] change voltage before step t + max(1, ceil(R/D))";
\* outside the window a non-spiking neuron carries the integrated voltage
AbsVoltage(c, h) ==
  \A j \in 1..Len(h) : ~h[j].spk =>
     IF InWindow(c, h, j) THEN h[j].vlab = (IF c.lock THEN "keep" ELSE "int0")
     ELSE IF h[j].lag THEN h[j].vlab = (IF c.lock THEN "keep" ELSE "int0")
     ELSE h[j].vlab = "int"

=============================================================================
