------------------------------ MODULE NeuronMC ------------------------------
(***************************************************************************)
(* Exhaustive exploration of the neuron step model.                        *)
(*                                                                         *)
(* Category mode (Dy = FALSE): every configuration (D in Ds, R in          *)
(* 0..2D+1 filtered by RSel, lock, lax) and EVERY drive sequence over      *)
(* {lt, ge} up to MaxDepth steps; the trajectory is kept (hist) and the    *)
(* property's statements are checked on it: the decrement-and-clamp        *)
(* mechanism implements the refractory window of the property.             *)
(*                                                                         *)
(* Dyadic mode (Dy = TRUE): the linear family with integer-scaled voltages *)
(* and currents in Curs; used to generate outcome tables (Emit) that are   *)
(* replayed on the real neuron classes, voltages compared exactly.         *)
(***************************************************************************)
EXTENDS NeuronCore, Json, TLC

CONSTANTS
  Ds,        \* ticks per step offered
  Locks,     \* subset of BOOLEAN: refrac_lock values
  Laxs,      \* subset of BOOLEAN: lax (float-rounding lag allowed) variants
  RSel,      \* "all" | "zero" | "pos": which refractory periods
  AttrMode,  \* "derived": spike attribute as the code derives it (refrac == refrac_t); "stored": the property
  KeepHist,  \* keep the trajectory (category mode)
  Dy,        \* dyadic mode
  Off,       \* cfg files take no negative numbers: the *O constants are shifted by Off
  CursO,     \* input currents (scaled integers, + Off) offered in dyadic mode
  RestO, ResetO, ThetaO,   \* scaled integers (+ Off)
  Glif, Mul2, AddO,     \* GLIF2 linear reset: rest + (Mul2/2)(v - rest) - Add
  Adapt, Inc,           \* spike-dependent threshold adaptation (decay 1/2, increment Inc)
  MaxDepth

Curs == {x - Off : x \in CursO}
Rest == RestO - Off
Reset == ResetO - Off
Theta == ThetaO - Off
Add == AddO - Off

VARIABLES c, st, hist
vars == <<c, st, hist>>

RsOf(d) == {r \in 0..(2 * d + 1) : CASE RSel = "all" -> TRUE [] RSel = "zero" -> r = 0 [] OTHER -> r > 0}

Configs ==
  UNION {{[D |-> d, R |-> r, lock |-> k, lax |-> x, attrmode |-> AttrMode, dy |-> Dy,
           rest |-> Rest, reset |-> Reset, theta |-> Theta, glif |-> Glif, mul2 |-> Mul2, add |-> Add,
           adapt |-> Adapt, inc |-> Inc] : r \in RsOf(d), k \in Locks, x \in Laxs} : d \in Ds}

Ops == IF Dy THEN {[cur |-> i] : i \in Curs} ELSE {[cat |-> "lt"], [cat |-> "ge"]}

Init == /\ c \in Configs
        /\ st = InitSt(c)
        /\ hist = <<>>

Next == \E o \in Ops : \E out \in MStep(c, st, o) :
          /\ st' = out.st
          /\ hist' = IF KeepHist
                     THEN Append(hist, [cat |-> out.ret.cat, spk |-> out.ret.spk, vlab |-> out.ret.vlab,
                                        lag |-> out.st.lag])
                     ELSE hist
          /\ UNCHANGED c
Spec == Init /\ [][Next]_vars

Bounded == TLCGet("level") <= MaxDepth

(***************************************************************************)
(* Properties                                                              *)
(***************************************************************************)
TypeOK ==
  /\ st.r \in 0..c.R                 \* in particular: remaining refractory time is never negative
  /\ st.lag \in BOOLEAN /\ st.spk \in BOOLEAN /\ st.attr \in BOOLEAN
  /\ st.lag => (c.lax /\ st.r = 0)
  /\ st.spk => st.r = c.R

RefracNonNeg == st.r >= 0

\* the property's statements over the whole trajectory (category mode)
Window_    == AbsWindow(c, hist)
Exact      == AbsExact(c, hist)
ResetOK    == AbsReset(c, hist)
VoltageOK  == AbsVoltage(c, hist)

\* the mechanism's notion of "free" (refracs == 0 after the decrement) is the property's
\* "out of the refractory window", for every operation at every reachable state
FreeIsOutOfWindow ==
  KeepHist =>
    \A o \in Ops : \A out \in MStep(c, st, o) :
       LET j == Len(hist) + 1
           h == Append(hist, [cat |-> out.ret.cat, spk |-> out.ret.spk, vlab |-> out.ret.vlab, lag |-> out.st.lag])
       IN out.ret.free <=> (~InWindow(c, h, j) /\ ~out.st.lag)

\* "the neuron's spike attribute always equals the spikes returned by the most recent step"
SpikeAttr == (KeepHist /\ Len(hist) > 0) => st.attr = hist[Len(hist)].spk
\* same, also usable when no trajectory is kept
SpikeAttrSt == TLCGet("level") > 1 => st.attr = st.spk

\* dyadic mode: every halving is exact (so float32 arithmetic of the implementation is exact too)
DyadicExact ==
  Dy => /\ \A o \in Ops : (st.v - c.rest - o.cur) % 2 = 0
        /\ (st.v - c.rest) % 2 = 0
        /\ (c.glif => \A o \in Ops : \A out \in MStep(c, st, o) :
                         out.ret.spk => (c.mul2 * (Integrate(c, st.v, o.cur) - c.rest)) % 2 = 0)
        /\ (c.adapt => st.ad % 2 = 0)

\* every configuration is deterministic unless lax
Deterministic == ~c.lax => \A o \in Ops : Cardinality(MStep(c, st, o)) = 1

(***************************************************************************)
(* Behaviour generation: one JSON line per distinct state with the         *)
(* complete outcome table of that state.                                   *)
(***************************************************************************)
Emit == PrintT(ToJson([s |-> [c |-> c, m |-> st],
                       out |-> {[op |-> o, res |-> {[st |-> [c |-> c, m |-> x.st], ret |-> [spk |-> x.ret.spk]] : x \in MStep(c, st, o)}]
                                : o \in Ops}]))
=============================================================================
