---------------------------- MODULE NeuronTrace ----------------------------
(***************************************************************************)
(* Trace specification for neuron executions recorded from the real        *)
(* implementation (C03 binding B; C11 clause (ii): the per-sample          *)
(* projection of a BATCHED run must be a behaviour of the single-element   *)
(* machine given only that sample's inputs).                               *)
(*                                                                         *)
(* One trace = the event stream of ONE element (one neuron of one batch    *)
(* sample):                                                                *)
(*   hdr: c (configuration record of NeuronCore), init (state), waive      *)
(*        (lines whose logged state is adopted), wc (waived clauses)       *)
(*   ev : << [op |-> [cat |-> ..] or [cur |-> ..], ret |-> [spk |-> ..],   *)
(*            st |-> [r, lag, rneg, attr, vm | v, ad]] >>                  *)
(* Named clauses:                                                          *)
(*   Spike        the returned spike is the specified one (threshold,      *)
(*                refractory window)                                       *)
(*   Refrac       remaining refractory time (ticks) as specified           *)
(*   RefracNonNeg remaining refractory time is never negative              *)
(*   Voltage      the voltage is the reset / kept / integrated one         *)
(*                (category mode: the harness says which of the candidate  *)
(*                values the observed voltage equals; dyadic mode: exact)  *)
(*   SpikeAttr    neuron.spike == spikes returned by this step             *)
(***************************************************************************)
EXTENDS NeuronCore, Json, IOUtils, TLCExt, TLC

Traces == JsonDeserialize(IOEnv.TRACE_FILE)

VARIABLES tid, l, st
vars == <<tid, l, st>>

NT == Len(Traces)
Evs(t) == Traces[t].ev
Cfg(t) == Traces[t].hdr.c
MaxI(a, b) == IF a >= b THEN a ELSE b
ToSet(s) == {s[i] : i \in DOMAIN s}
Waived(t) == ToSet(Traces[t].hdr.waive)
WC(t) == ToSet(Traces[t].hdr.wc)

ASSUME \A i \in 1..NT : TLCSet(100 + i, 0)

SpikeOK(mo, e)   == mo.ret.spk = e.ret.spk
RefracOK(mo, e)  == mo.st.r = e.st.r /\ mo.st.lag = e.st.lag
VoltOK(c, mo, e) == IF c.dy THEN mo.st.v = e.st.v /\ mo.st.ad = e.st.ad
                    ELSE e.st.vm[mo.ret.vlab]
AttrOK(e)        == e.st.attr = e.ret.spk
NonNegOK(e)      == ~e.st.rneg

Matches(t, s, e) ==
  {mo \in MStep(Cfg(t), s, e.op) :
      /\ SpikeOK(mo, e)
      /\ RefracOK(mo, e)
      /\ ("Voltage" \in WC(t) \/ VoltOK(Cfg(t), mo, e))}

EventOK(t, s, e) ==
  /\ Matches(t, s, e) # {}
  /\ ("SpikeAttr" \in WC(t) \/ AttrOK(e))
  /\ ("RefracNonNeg" \in WC(t) \/ NonNegOK(e))

\* the implementation's state after the event, in the model's vocabulary
Adopt(c, e) == [r |-> e.st.r, lag |-> e.st.lag, spk |-> e.ret.spk, attr |-> e.st.attr,
                v |-> IF c.dy THEN e.st.v ELSE 0, ad |-> IF c.dy THEN e.st.ad ELSE 0]

Init == /\ tid \in 1..NT
        /\ l = 1
        /\ st = Traces[tid].hdr.init

Step ==
  /\ l <= Len(Evs(tid))
  /\ LET e == Evs(tid)[l] IN
       /\ (l \in Waived(tid) \/ EventOK(tid, st, e))
       /\ st' = Adopt(Cfg(tid), e)
  /\ l' = l + 1
  /\ UNCHANGED tid

TraceSpec == Init /\ [][Step]_vars

Track ==
  /\ TLCSet(100 + tid, MaxI(TLCGet(100 + tid), l))
  /\ IF l <= Len(Evs(tid)) /\ ~(l \in Waived(tid)) /\ ~EventOK(tid, st, Evs(tid)[l])
     THEN LET e == Evs(tid)[l]
              c == Cfg(tid)
              outs == MStep(c, st, e.op)
          IN PrintT(ToJson([diag |-> tid, l |-> l,
                            spike  |-> \E mo \in outs : SpikeOK(mo, e),
                            refrac |-> \E mo \in outs : SpikeOK(mo, e) /\ RefracOK(mo, e),
                            volt   |-> \E mo \in outs : SpikeOK(mo, e) /\ RefracOK(mo, e) /\ VoltOK(c, mo, e),
                            attr   |-> AttrOK(e),
                            nonneg |-> NonNegOK(e),
                            expected |-> outs, state |-> st]))
     ELSE TRUE

Post ==
  PrintT(ToJson([rejected |-> {<<i, TLCGet(100 + i)>> : i \in {j \in 1..NT : TLCGet(100 + j) <= Len(Evs(j))}},
                 total |-> NT]))
=============================================================================
