---------------------------- MODULE NumericsCore ----------------------------
(***************************************************************************)
(* Numerical helpers of inferno (C20), exact arithmetic only:              *)
(*   VPDist      Victor-Purpura spike-train distance                       *)
(*   ISI         inter-spike intervals of a raster                         *)
(*   InterpPairs the shipped interpolation / extrapolation kernels         *)
(* (the distributions are handled by DistTrace: TLA+ has no reals).        *)
(*                                                                         *)
(* Scaling: spike times are grid integers; Victor-Purpura costs and        *)
(* distances are doubled (q2 = 2q, d2 = 2d) so that the cost 1/2 is an     *)
(* integer; interpolation values are integers (the harness maps a value v  *)
(* to v / VScale) and times are ticks with DT ticks per step.              *)
(***************************************************************************)
EXTENDS Integers, Sequences, FiniteSets

Min(a, b) == IF a <= b THEN a ELSE b
Max(a, b) == IF a >= b THEN a ELSE b
AbsV(x) == IF x >= 0 THEN x ELSE -x

(***************************************************************************)
(* Victor-Purpura.  A train is a strictly increasing sequence of times.    *)
(* q2 = INFQ stands for an infinite cost.                                  *)
(***************************************************************************)
INFQ == -1
BIG == 100000
\* cost (doubled) of moving a spike from x to y.  With an infinite cost the code turns the
\* product inf * 0 = nan of coincident spikes into inf (documented: "using inf as the cost will
\* only return the total number of spikes, not accounting for spikes occurring at the same time")
Shift2(q2, x, y) == IF q2 = INFQ THEN BIG ELSE q2 * AbsV(x - y)

\* Mech: the Needleman-Wunsch recurrence of the code, cell (r, c) of the grid
RECURSIVE Cell2(_, _, _, _, _)
Cell2(a, b, q2, r, c) ==
  IF r = 0 THEN 2 * c
  ELSE IF c = 0 THEN 2 * r
  ELSE Min(Min(Cell2(a, b, q2, r - 1, c) + 2, Cell2(a, b, q2, r, c - 1) + 2),
           Cell2(a, b, q2, r - 1, c - 1) + Shift2(q2, a[r], b[c]))
VPGrid2(a, b, q2) == Cell2(a, b, q2, Len(a), Len(b))
\* the code short-cuts a scalar cost of 0 or inf
VPScalar2(a, b, q2) ==
  IF q2 = 0 THEN 2 * AbsV(Len(a) - Len(b))
  ELSE IF q2 = INFQ THEN 2 * (Len(a) + Len(b))
  ELSE VPGrid2(a, b, q2)

\* Abs: the definition - cheapest way to turn a into b by deleting / inserting spikes (cost 1
\* each) and moving spikes (cost q per unit of time): the minimum over ALL partial one-to-one
\* assignments of spikes of a to spikes of b (crossing assignments included)
OneToOne(M) == \A p \in M : \A r \in M : (p[1] = r[1]) <=> (p[2] = r[2])
Assignments(n, m) == {M \in SUBSET ((1..n) \X (1..m)) : OneToOne(M)}
RECURSIVE SumShift2(_, _, _, _)
SumShift2(a, b, q2, M) ==
  IF M = {} THEN 0
  ELSE LET p == CHOOSE x \in M : TRUE IN Shift2(q2, a[p[1]], b[p[2]]) + SumShift2(a, b, q2, M \ {p})
AssignCost2(a, b, q2, M) == 2 * (Len(a) + Len(b) - 2 * Cardinality(M)) + SumShift2(a, b, q2, M)
VPAbs2(a, b, q2) ==
  LET costs == {AssignCost2(a, b, q2, M) : M \in Assignments(Len(a), Len(b))}
  IN CHOOSE x \in costs : \A y \in costs : x <= y

(***************************************************************************)
(* ISI.  A raster is a sequence (one entry per element / train) of         *)
(* sequences of 0/1 over time.  NAN marks padding.                         *)
(***************************************************************************)
NAN == -1
RECURSIVE TimesFrom(_, _)
\* spike times (0-based step indices) of a train, in increasing order
TimesFrom(tr, t) ==
  IF t > Len(tr) THEN <<>>
  ELSE IF tr[t] = 1 THEN <<t - 1>> \o TimesFrom(tr, t + 1) ELSE TimesFrom(tr, t + 1)
Times(tr) == TimesFrom(tr, 1)
Diffs(ts) == [k \in 1..Max(Len(ts) - 1, 0) |-> ts[k + 1] - ts[k]]
PadTo(s, n) == s \o [k \in 1..(n - Len(s)) |-> NAN]
MaxCount(ras) == LET cs == {Len(Times(ras[e])) : e \in 1..Len(ras)} IN CHOOSE x \in cs : \A y \in cs : x >= y
\* Abs: per train the differences of consecutive spike times (in steps), padded with NAN to the
\* longest train's number of intervals; width 0 when no train has two spikes
IsiWidth(ras) == Max(MaxCount(ras) - 1, 0)
IsiAbs(ras) == [e \in 1..Len(ras) |-> PadTo(Diffs(Times(ras[e])), IsiWidth(ras))]

\* Mech: what the code does - prepend a sentinel spike to every train, list the nonzero
\* positions of all trains in one sequence, split it at the sentinels, shift back by one,
\* pad the pieces to equal length with NAN, drop the sentinel column, take differences
\* (NAN-propagating)
Chunk(tr) == <<-1>> \o Times(tr)
ChunkLen(ras) == MaxCount(ras) + 1
NanDiff(x, y) == IF x = NAN \/ y = NAN THEN NAN ELSE y - x
IsiMech(ras) ==
  [e \in 1..Len(ras) |->
     LET padded == Chunk(ras[e]) \o [k \in 1..(ChunkLen(ras) - Len(Chunk(ras[e]))) |-> NAN]
         body == SubSeq(padded, 2, Len(padded))       \* sentinel column dropped
     IN [k \in 1..Max(Len(body) - 1, 0) |-> NanDiff(body[k], body[k + 1])]]
\* NB: a genuine time equal to NAN = -1 cannot occur: times are >= 0 after the shift

\* re-integration: the first spike time plus the running sum of the intervals gives back every
\* spike time of the train
RECURSIVE RunSum(_, _, _)
RunSum(first, ivs, k) == IF k = 0 THEN first ELSE RunSum(first, ivs, k - 1) + ivs[k]
Reintegrates(tr, row) ==
  LET ts == Times(tr) IN
  /\ \A k \in 1..Len(row) : (row[k] = NAN) <=> (k > Len(ts) - 1)
  /\ Len(ts) >= 1 => \A k \in 0..(Len(ts) - 1) : RunSum(ts[1], row, k) = ts[k + 1]

(***************************************************************************)
(* Interpolation / extrapolation kernels on integers.                      *)
(* Interp(kind, prev, next, t) -> value;  Extrap(kind, sample, t, prev,    *)
(* next) -> <<prev', next'>>;  t in 0..DT ticks.  Division must be exact   *)
(* (the MC constants are chosen so); Defined says where the documented     *)
(* formula has a value.  The exponential kernels are symbolic: a value is  *)
(* [c |-> coefficient, x |-> exponent in ticks] meaning c * exp(x / tau).  *)
(***************************************************************************)
InterpKinds == {"previous", "next", "nearest", "linear"}
ExtrapKinds == {"previous", "next", "neighbors", "nearest", "linear_forward", "linear_backward"}
\* the matching pairs <<interpolation, extrapolation>>
Pairs == {<<"previous", "previous">>, <<"next", "next">>, <<"nearest", "nearest">>,
          <<"linear", "linear_forward">>, <<"linear", "linear_backward">>,
          <<"previous", "neighbors">>, <<"next", "neighbors">>, <<"nearest", "neighbors">>,
          <<"linear", "neighbors">>}

Interp(kind, prev, next, t, DT) ==
  CASE kind = "previous" -> prev
    [] kind = "next" -> next
    [] kind = "nearest" -> IF 2 * t > DT THEN next ELSE prev
    [] kind = "linear" -> prev + ((next - prev) * t) \div DT

ExtrapDefined(kind, t, DT) ==
  CASE kind = "linear_forward" -> t # 0
    [] kind = "linear_backward" -> t # DT
    [] OTHER -> TRUE

\* optional keyword arguments of the shipped kernels (read from their signatures):
\*   extrap_linear_forward / extrap_linear_backward: adjust = f, "function to apply to the previous
\*   [next] state before extrapolating" - the bracket value the line is anchored on is f(D), and
\*   the slope is taken from f(D) as well.  (time_constant / rate_constant: the symbolic kernels.)
Adjusts == {"id", "plus12", "double", "neg"}
Adj(f, v) == CASE f = "id" -> v [] f = "plus12" -> v + 12 [] f = "double" -> 2 * v [] f = "neg" -> 0 - v
TakesAdjust(kind) == kind \in {"linear_forward", "linear_backward"}

Extrap(kind, sample, t, prev, next, DT, adj) ==
  CASE kind = "previous" -> <<sample, next>>
    [] kind = "next" -> <<prev, sample>>
    [] kind = "neighbors" -> <<sample, sample>>
    [] kind = "nearest" -> IF 2 * t > DT THEN <<prev, sample>> ELSE <<sample, next>>
    [] kind = "linear_forward" -> LET p == Adj(adj, prev) IN <<p, p + ((sample - p) * DT) \div t>>
    [] kind = "linear_backward" -> LET n == Adj(adj, next) IN <<n - ((n - sample) * DT) \div (DT - t), n>>

\* every division above is exact for these arguments
ExactArgs(kind, sample, t, prev, next, DT, adj) ==
  CASE kind = "linear_forward" -> ((sample - Adj(adj, prev)) * DT) % t = 0
    [] kind = "linear_backward" -> ((Adj(adj, next) - sample) * DT) % (DT - t) = 0
    [] OTHER -> TRUE
ExactInterp(prev, next, t, DT) == ((next - prev) * t) % DT = 0

\* symbolic exponential kernels (decay with time constant tau, or rate constant 1/tau)
SInterpExp(prev, t) == [c |-> prev.c, x |-> prev.x - t]
SExtrapExp(sample, t, DT) == <<[c |-> sample.c, x |-> sample.x + t], [c |-> sample.c, x |-> sample.x + t - DT]>>
=============================================================================
