----------------------------- MODULE NumericsMC -----------------------------
(***************************************************************************)
(* Exhaustive exploration of the numerical helpers (C20).  Four small      *)
(* machines share the variable st (st.m names the machine):                *)
(*  "vp"   the Needleman-Wunsch loop of victor_purpura_pair_dist, one grid *)
(*         cell per transition, for every pair of trains and every cost    *)
(*  "isi"  a scan over a raster, one time step per transition, collecting  *)
(*         the intervals train by train                                    *)
(*  "ip"   extrapolate a sample to its bracket, then interpolate at the    *)
(*         same time (one kernel per transition), for every matching pair  *)
(*  "ipx"  the same for the exponential kernels, symbolically              *)
(* The laws of the property are invariants of the final states; Emit       *)
(* prints the final states (the tables the harness evaluates the real      *)
(* functions against).                                                     *)
(***************************************************************************)
EXTENDS NumericsCore, TLC, Json

CONSTANTS
  Machines,      \* subset of {"vp", "isi", "ip", "ipx"}
  TMax,          \* spike times range over 0..TMax
  NMax,          \* at most NMax spikes per train
  Costs2,        \* doubled finite costs, e.g. {0, 1, 2, 4}
  WithInf,       \* also the infinite cost
  Triples,       \* check the triangle inequality (over all third trains)
  IsiT1, IsiT2,  \* rasters: T <= IsiT1 with one train, T <= IsiT2 with two trains
  Vals,          \* interpolation values (integers >= 0; multiples of 12 keep every division exact)
  Signed,        \* TRUE: also the negated values
  DT             \* ticks per step for the interpolation kernels

VARIABLE st
vars == <<st>>

(***************************************************************************)
(* vp                                                                      *)
(***************************************************************************)
Grid == 0..TMax
Increasing(s) == \A i \in 1..(Len(s) - 1) : s[i] < s[i + 1]
Trains == UNION {{s \in [1..n -> Grid] : Increasing(s)} : n \in 0..NMax}
AllCosts == Costs2 \cup (IF WithInf THEN {INFQ} ELSE {})

Border(n, m) == [r \in 0..n |-> [c \in 0..m |-> IF r = 0 THEN 2 * c ELSE IF c = 0 THEN 2 * r ELSE 0]]
VpInit == {[m |-> "vp", a |-> a, b |-> b, q2 |-> q, r |-> 1, c |-> 1, g |-> Border(Len(a), Len(b))] :
              a \in Trains, b \in Trains, q \in AllCosts}
VpFinal(s) == s.r > Len(s.a) \/ Len(s.b) = 0
VpNext(s) ==
  LET v == Min(Min(s.g[s.r - 1][s.c] + 2, s.g[s.r][s.c - 1] + 2),
               s.g[s.r - 1][s.c - 1] + Shift2(s.q2, s.a[s.r], s.b[s.c]))
      g2 == [s.g EXCEPT ![s.r][s.c] = v]
  IN IF s.c < Len(s.b) THEN [s EXCEPT !.g = g2, !.c = s.c + 1]
     ELSE [s EXCEPT !.g = g2, !.c = 1, !.r = s.r + 1]
VpDist2(s) == s.g[Len(s.a)][Len(s.b)]

(***************************************************************************)
(* isi                                                                     *)
(***************************************************************************)
Rasters == UNION {[1..1 -> [1..T -> {0, 1}]] : T \in 1..IsiT1} \cup UNION {[1..2 -> [1..T -> {0, 1}]] : T \in 1..IsiT2}
IsiInit == {[m |-> "isi", ras |-> ras, e |-> 1, t |-> 1, last |-> -1, row |-> <<>>, out |-> <<>>] : ras \in Rasters}
IsiFinal(s) == s.e > Len(s.ras)
IsiNext(s) ==
  LET tr == s.ras[s.e]
      spk == tr[s.t] = 1
      row2 == IF spk /\ s.last >= 0 THEN Append(s.row, (s.t - 1) - s.last) ELSE s.row
      last2 == IF spk THEN s.t - 1 ELSE s.last
  IN IF s.t < Len(tr) THEN [s EXCEPT !.t = s.t + 1, !.row = row2, !.last = last2]
     ELSE [s EXCEPT !.e = s.e + 1, !.t = 1, !.last = -1, !.row = <<>>, !.out = Append(s.out, row2)]
IsiPadded(s) == [e \in 1..Len(s.out) |-> PadTo(s.out[e], IsiWidth(s.ras))]

(***************************************************************************)
(* ip / ipx                                                                *)
(***************************************************************************)
SVals == IF Signed THEN Vals \cup {0 - v : v \in Vals} ELSE Vals
\* every matching pair, and for the kernels with an optional `adjust` argument every non-identity
\* adjustment as well
IpInit == UNION {{[m |-> "ip", i |-> p[1], x |-> p[2], adj |-> f, sample |-> sv, prev |-> pv, next |-> nv, t |-> t, stage |-> 0,
                   b0 |-> 0, b1 |-> 0, val |-> 0] :
                     sv \in SVals, pv \in SVals, nv \in SVals, t \in 0..DT,
                     f \in (IF TakesAdjust(p[2]) THEN Adjusts ELSE {"id"})} : p \in Pairs}
IpFinal(s) == s.stage = 2 \/ ~ExtrapDefined(s.x, s.t, DT)
IpNext(s) ==
  IF s.stage = 0
  THEN LET b == Extrap(s.x, s.sample, s.t, s.prev, s.next, DT, s.adj) IN [s EXCEPT !.stage = 1, !.b0 = b[1], !.b1 = b[2]]
  ELSE [s EXCEPT !.stage = 2, !.val = Interp(s.i, s.b0, s.b1, s.t, DT)]

IpxInit == {[m |-> "ipx", t |-> t, stage |-> 0, sample |-> [c |-> 1, x |-> 0],
             b0 |-> [c |-> 0, x |-> 0], b1 |-> [c |-> 0, x |-> 0], val |-> [c |-> 0, x |-> 0]] : t \in 0..DT}
IpxFinal(s) == s.stage = 2
IpxNext(s) ==
  IF s.stage = 0
  THEN LET b == SExtrapExp(s.sample, s.t, DT) IN [s EXCEPT !.stage = 1, !.b0 = b[1], !.b1 = b[2]]
  ELSE [s EXCEPT !.stage = 2, !.val = SInterpExp(s.b0, s.t)]

(***************************************************************************)
(* the combined machine                                                    *)
(***************************************************************************)
Init == st \in (IF "vp" \in Machines THEN VpInit ELSE {}) \cup (IF "isi" \in Machines THEN IsiInit ELSE {})
              \cup (IF "ip" \in Machines THEN IpInit ELSE {}) \cup (IF "ipx" \in Machines THEN IpxInit ELSE {})
Final == CASE st.m = "vp" -> VpFinal(st) [] st.m = "isi" -> IsiFinal(st) [] st.m = "ip" -> IpFinal(st)
           [] st.m = "ipx" -> IpxFinal(st)
Next == /\ ~Final
        /\ st' = CASE st.m = "vp" -> VpNext(st) [] st.m = "isi" -> IsiNext(st) [] st.m = "ip" -> IpNext(st)
                   [] st.m = "ipx" -> IpxNext(st)
Spec == Init /\ [][Next]_vars

(***************************************************************************)
(* Victor-Purpura laws                                                     *)
(***************************************************************************)
VpDone == st.m = "vp" /\ Final
D2(a, b, q) == VPGrid2(a, b, q)
\* the loop computes the recurrence; the recurrence computes the definition
VpLoopIsRecurrence == VpDone => VpDist2(st) = VPGrid2(st.a, st.b, st.q2)
VpMechIsAbs == VpDone => VpDist2(st) = VPAbs2(st.a, st.b, st.q2)
\* the scalar short-cuts for the costs 0 and inf agree with the grid
VpShortcuts == VpDone => VPScalar2(st.a, st.b, st.q2) = VpDist2(st)
VpNonNegative == VpDone => VpDist2(st) >= 0
VpIdentity == (VpDone /\ st.q2 # INFQ /\ st.a = st.b) => VpDist2(st) = 0
\* the same clause without the guard: refuted at the infinite cost (documented warning)
VpIdentityUnguarded == (VpDone /\ st.a = st.b) => VpDist2(st) = 0
VpSymmetry == VpDone => VpDist2(st) = D2(st.b, st.a, st.q2)
\* documented cost limits: |n - m| (reached at cost 0) <= d <= n + m (reached at cost inf)
VpBounds == VpDone =>
   /\ 2 * AbsV(Len(st.a) - Len(st.b)) <= VpDist2(st) /\ VpDist2(st) <= 2 * (Len(st.a) + Len(st.b))
   /\ (st.q2 = 0 => VpDist2(st) = 2 * AbsV(Len(st.a) - Len(st.b)))
   /\ (st.q2 = INFQ => VpDist2(st) = 2 * (Len(st.a) + Len(st.b)))
VpMonotoneInCost == VpDone =>
   \A q \in Costs2 : (st.q2 # INFQ /\ q >= st.q2) => D2(st.a, st.b, q) >= VpDist2(st)
VpTriangle == (VpDone /\ Triples) =>
   \A x \in Trains : VpDist2(st) <= D2(st.a, x, st.q2) + D2(x, st.b, st.q2)

(***************************************************************************)
(* ISI laws                                                                *)
(***************************************************************************)
IsiDone == st.m = "isi" /\ Final
IsiScanIsAbs == IsiDone => IsiPadded(st) = IsiAbs(st.ras)
IsiMechIsAbs == IsiDone => IsiMech(st.ras) = IsiAbs(st.ras)
IsiShape == IsiDone => /\ Len(IsiAbs(st.ras)) = Len(st.ras)
                       /\ \A e \in 1..Len(st.ras) : Len(IsiAbs(st.ras)[e]) = IsiWidth(st.ras)
IsiReintegrates == IsiDone => \A e \in 1..Len(st.ras) : Reintegrates(st.ras[e], IsiAbs(st.ras)[e])

(***************************************************************************)
(* Interpolation laws                                                      *)
(***************************************************************************)
IpDone == st.m = "ip" /\ st.stage = 2
\* the constants keep all arithmetic exact (otherwise \div would hide a remainder)
IpExact == (st.m = "ip" /\ ExtrapDefined(st.x, st.t, DT)) =>
   /\ ExactArgs(st.x, st.sample, st.t, st.prev, st.next, DT, st.adj)
   /\ (st.stage >= 1 /\ st.i = "linear" => ExactInterp(st.b0, st.b1, st.t, DT))
\* interpolating at the time a sample was extrapolated from returns the sample
IpRoundTrip == IpDone => st.val = st.sample
\* the adjusted observation is the bracket value the extrapolated line is anchored on
IpAdjustAnchors == (st.m = "ip" /\ st.stage >= 1) =>
   /\ (st.x = "linear_forward" => st.b0 = Adj(st.adj, st.prev))
   /\ (st.x = "linear_backward" => st.b1 = Adj(st.adj, st.next))
\* the same clause including the end points where the documented formula divides by zero
IpDefinedEverywhere == st.m = "ip" => ExtrapDefined(st.x, st.t, DT)
\* linear interpolation stays between the bracket values and meets them at the ends
LinBetween == st.m = "ip" =>
   LET v == Interp("linear", st.prev, st.next, st.t, DT) IN
   /\ ExactInterp(st.prev, st.next, st.t, DT)
   /\ Min(st.prev, st.next) <= v /\ v <= Max(st.prev, st.next)
   /\ (st.t = 0 => v = st.prev) /\ (st.t = DT => v = st.next)
   /\ Interp("previous", st.prev, st.next, st.t, DT) = st.prev /\ Interp("next", st.prev, st.next, st.t, DT) = st.next
   /\ Interp("nearest", st.prev, st.next, st.t, DT) \in {st.prev, st.next}
IpxRoundTrip == (st.m = "ipx" /\ st.stage = 2) =>
   /\ st.val = st.sample                                   \* exponent 0 again
   /\ SInterpExp(st.b0, DT) = st.b1                        \* the bracket lies on one decay curve
   /\ SInterpExp(st.b0, 0) = st.b0

(***************************************************************************)
(* Emission of the final states                                            *)
(***************************************************************************)
Emit ==
  Final =>
    CASE st.m = "vp" -> PrintT(ToJson([vp |-> [a |-> st.a, b |-> st.b, q2 |-> st.q2, d2 |-> VpDist2(st)]]))
      [] st.m = "isi" -> PrintT(ToJson([isi |-> [ras |-> st.ras, width |-> IsiWidth(st.ras), rows |-> IsiAbs(st.ras)]]))
      [] st.m = "ip" -> IF st.stage = 2
                        THEN PrintT(ToJson([ip |-> [i |-> st.i, x |-> st.x, adj |-> st.adj, sample |-> st.sample, prev |-> st.prev,
                                                    next |-> st.next, t |-> st.t, b0 |-> st.b0, b1 |-> st.b1, val |-> st.val]]))
                        ELSE TRUE
      [] st.m = "ipx" -> PrintT(ToJson([ipx |-> [t |-> st.t, x0 |-> st.b0.x, x1 |-> st.b1.x, xv |-> st.val.x]]))
=============================================================================
