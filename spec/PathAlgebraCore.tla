--------------------------- MODULE PathAlgebraCore ---------------------------
(***************************************************************************)
(* Extension (DESIGN section 7, item 6): how a monitor attribute path      *)
(* given relative to a Cell is rewritten relative to its Layer             *)
(* (Observable.realign_attribute = Cell.local_remap + Layer.               *)
(* _realign_attribute), and what the rewritten path resolves to.           *)
(*                                                                         *)
(* A path is a sequence of segments (the dot-separated string); <<>> is    *)
(* the empty string (the cell itself).                                     *)
(*  Abs : an object graph (layer, connections, neurons, cells, their       *)
(*        synapses / updaters / leaf attributes) with attribute edges;     *)
(*        Resolve walks a path from a node (rgetattr).  The property:      *)
(*        the rewritten path resolved FROM THE LAYER is the object the     *)
(*        original path resolves to FROM THE CELL.                         *)
(*  Mech: the code's string manipulations (identifier test, hasattr on     *)
(*        the first segment, private-name and alias substitution, split    *)
(*        into target + rest, prefix by the registry container).           *)
(***************************************************************************)
EXTENDS Integers, Sequences, FiniteSets

NONE == [k |-> "none"]
Cell(c, n) == [k |-> "cell", c |-> c, n |-> n]
Conn(c) == [k |-> "conn", c |-> c]
Neur(n) == [k |-> "neur", n |-> n]
Syn(c) == [k |-> "syn", c |-> c]
Upd(c) == [k |-> "upd", c |-> c]
Leaf(o, a) == [k |-> "leaf", o |-> o, a |-> a]

\* attribute edges of the object graph (what getattr returns); NONE = AttributeError
RECURSIVE Attr(_, _)
Attr(o, s) ==
  CASE o.k = "cell" ->
         CASE s \in {"connection", "connection_"} -> Conn(o.c)
           [] s \in {"neuron", "neuron_"} -> Neur(o.n)
           [] s = "synapse" -> Syn(o.c)                              \* documented aliases of the cell
           [] s = "updater" -> Upd(o.c)
           [] s = "precurrent" -> Attr(Conn(o.c), "syncurrent")
           [] s = "prespike" -> Attr(Conn(o.c), "synspike")
           [] s = "postvoltage" -> Attr(Neur(o.n), "voltage")
           [] s = "postspike" -> Attr(Neur(o.n), "spike")
           [] s = "training" -> Leaf(o, s)
           [] OTHER -> NONE
    [] o.k = "conn" ->
         CASE s = "synapse" -> Syn(o.c)
           [] s = "updater" -> Upd(o.c)
           [] s \in {"syncurrent", "synspike", "weight", "training"} -> Leaf(o, s)
           [] OTHER -> NONE
    [] o.k = "syn" -> IF s \in {"current", "spike", "training"} THEN Leaf(o, s) ELSE NONE
    [] o.k = "upd" -> IF s \in {"weight", "training"} THEN Leaf(o, s) ELSE NONE
    [] o.k = "neur" -> IF s \in {"voltage", "spike", "training"} THEN Leaf(o, s) ELSE NONE
    \* the accumulator of an updater is itself a module (has `training`); every other leaf is a
    \* tensor / flag without any of the modelled attributes
    [] o.k = "leaf" -> IF o.o.k = "upd" /\ o.a = "weight" /\ s = "training" THEN Leaf(o, s) ELSE NONE
    [] OTHER -> NONE

RECURSIVE Resolve(_, _)
Resolve(o, p) == IF o = NONE THEN NONE ELSE IF p = <<>> THEN o ELSE Resolve(Attr(o, Head(p)), Tail(p))

\* from the layer: reg = [conns, neurons, cells] (registered names / pairs)
LayerResolve(reg, p) ==
  IF Len(p) >= 2 /\ p[1] = "connections_" /\ p[2] \in reg.conns THEN Resolve(Conn(p[2]), SubSeq(p, 3, Len(p)))
  ELSE IF Len(p) >= 2 /\ p[1] = "neurons_" /\ p[2] \in reg.neurons THEN Resolve(Neur(p[2]), SubSeq(p, 3, Len(p)))
  ELSE IF Len(p) >= 3 /\ p[1] = "cells_" /\ <<p[2], p[3]>> \in reg.cells THEN Resolve(Cell(p[2], p[3]), SubSeq(p, 4, Len(p)))
  ELSE NONE

(***************************************************************************)
(* Mech                                                                    *)
(***************************************************************************)
ValidIdent(s) == s # "" /\ s # "9bad"
Private(s) == CASE s = "connection_" -> "connection" [] s = "neuron_" -> "neuron" [] OTHER -> s
Alias(s) ==
  CASE s = "updater" -> <<"connection", "updater">>
    [] s = "synapse" -> <<"connection", "synapse">>
    [] s = "precurrent" -> <<"connection", "syncurrent">>
    [] s = "prespike" -> <<"connection", "synspike">>
    [] s = "postvoltage" -> <<"neuron", "voltage">>
    [] s = "postspike" -> <<"neuron", "spike">>
    [] OTHER -> <<s>>
Ok(x) == [t |-> "ok", v |-> x]
Err(e) == [t |-> "err", e |-> e]

\* Cell.local_remap: -> Ok([target, rest]) or Err
LocalRemap(c, n, p) ==
  IF p # <<>> /\ \E i \in 1..Len(p) : ~ValidIdent(p[i]) THEN Err("ValueError")
  ELSE IF p # <<>> /\ Attr(Cell(c, n), p[1]) = NONE THEN Err("RuntimeError")
  ELSE IF p = <<>> THEN Ok([target |-> "cell", rest |-> <<>>])
  ELSE LET chain == Alias(Private(p[1])) \o Tail(p) IN
       CASE chain[1] = "connection" -> Ok([target |-> "connection", rest |-> Tail(chain)])
         [] chain[1] = "neuron" -> Ok([target |-> "neuron", rest |-> Tail(chain)])
         [] OTHER -> Ok([target |-> "cell", rest |-> chain])

\* Layer._realign_attribute
LayerRealign(reg, c, n, target, rest) ==
  CASE target = "connection" -> IF c \in reg.conns THEN Ok(<<"connections_", c>> \o rest) ELSE Err("AttributeError")
    [] target = "neuron" -> IF n \in reg.neurons THEN Ok(<<"neurons_", n>> \o rest) ELSE Err("AttributeError")
    [] target = "cell" -> IF <<c, n>> \in reg.cells THEN Ok(<<"cells_", c, n>> \o rest) ELSE Err("AttributeError")

\* Observable.realign_attribute
Realign(reg, c, n, p) ==
  LET lr == LocalRemap(c, n, p) IN
  IF lr.t = "err" THEN lr ELSE LayerRealign(reg, c, n, lr.v.target, lr.v.rest)

\* registry operations of Layer (deletions)
DelCell(reg, c, n) ==
  IF c \notin reg.conns \/ n \notin reg.neurons THEN [st |-> reg, ret |-> Err("AttributeError")]
  ELSE [st |-> [reg EXCEPT !.cells = @ \ {<<c, n>>}], ret |-> [t |-> "ok"]]
DelConn(reg, c) ==
  IF c \notin reg.conns THEN [st |-> reg, ret |-> Err("AttributeError")]
  ELSE [st |-> [reg EXCEPT !.conns = @ \ {c}, !.cells = {x \in @ : x[1] # c}], ret |-> [t |-> "ok"]]
DelNeur(reg, n) ==
  IF n \notin reg.neurons THEN [st |-> reg, ret |-> Err("ValueError")]
  ELSE [st |-> [reg EXCEPT !.neurons = @ \ {n}, !.cells = {x \in @ : x[2] # n}], ret |-> [t |-> "ok"]]
=============================================================================
