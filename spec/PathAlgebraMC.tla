---------------------------- MODULE PathAlgebraMC ----------------------------
(***************************************************************************)
(* All registries reachable by deleting cells / connections / neurons from *)
(* a two-by-two layer; at every registry, all short paths for every cell   *)
(* object created at the start (a deleted cell's object still exists and   *)
(* can still be asked to realign).                                         *)
(***************************************************************************)
EXTENDS PathAlgebraCore, TLC, Json

CONSTANTS PLen,      \* longest path explored at the initial registry
          PLenLater  \* longest path explored at the other registries

VARIABLE st
vars == <<st>>

Conns == {"c1", "c2"}
Neurons == {"n1", "n2"}
Held == {<<"c1", "n1">>, <<"c1", "n2">>, <<"c2", "n1">>}        \* cells created at the start
Init0 == [conns |-> Conns, neurons |-> Neurons, cells |-> Held]

Segs == {"connection", "connection_", "neuron", "neuron_", "updater", "synapse", "precurrent", "prespike",
         "postvoltage", "postspike", "training", "weight", "current", "spike", "voltage", "syncurrent", "bogus",
         "9bad", ""}
\* every dotted string with at most n segments, once: <<"">> is the same string as <<>>
Paths(n) == ({<<>>} \cup UNION {[1..k -> Segs] : k \in 1..n}) \ {<<"">>}
PathsAt(s) == IF s = Init0 THEN Paths(PLen) ELSE Paths(PLenLater)

Ops(s) == {[a |-> "del_cell", c |-> c, n |-> n] : c \in Conns, n \in Neurons}
          \cup {[a |-> "del_connection", c |-> c] : c \in Conns} \cup {[a |-> "del_neuron", n |-> n] : n \in Neurons}
Apply(s, o) == CASE o.a = "del_cell" -> DelCell(s, o.c, o.n) [] o.a = "del_connection" -> DelConn(s, o.c)
                 [] o.a = "del_neuron" -> DelNeur(s, o.n)
Init == st = Init0
Next == \E o \in Ops(st) : st' = Apply(st, o).st
Spec == Init /\ [][Next]_vars

TypeOK == st.cells \subseteq st.conns \X st.neurons

\* the rewritten path, resolved from the layer, is the object the path means from the cell
RealignResolves ==
  \A h \in Held : \A p \in PathsAt(st) :
     LET r == Realign(st, h[1], h[2], p) IN
     r.t = "ok" => LayerResolve(st, r.v) = Resolve(Cell(h[1], h[2]), p)
\* refused exactly when the string is no dotted identifier or its first segment is no attribute of
\* the cell (given that the objects it would name are still registered)
RefusedExactlyWhen ==
  \A h \in Held : \A p \in PathsAt(st) :
     LET r == Realign(st, h[1], h[2], p)
         bad == p # <<>> /\ ((\E i \in 1..Len(p) : ~ValidIdent(p[i])) \/ Attr(Cell(h[1], h[2]), p[1]) = NONE)
     IN /\ (bad => r.t = "err" /\ r.e \in {"ValueError", "RuntimeError"})
        /\ ((~bad /\ h \in st.cells) => r.t = "ok")
        /\ ((~bad /\ r.t = "err") => r.e = "AttributeError")
\* a path through a private name or an alias is rewritten like its public / expanded spelling
AliasesAgree ==
  \A h \in Held : \A p \in PathsAt(st) : Len(p) >= 1 =>
     /\ (p[1] = "connection_" => Realign(st, h[1], h[2], p) = Realign(st, h[1], h[2], <<"connection">> \o Tail(p)))
     /\ (p[1] = "neuron_" => Realign(st, h[1], h[2], p) = Realign(st, h[1], h[2], <<"neuron">> \o Tail(p)))
     /\ (p[1] \in {"updater", "synapse", "precurrent", "prespike", "postvoltage", "postspike"} =>
           Realign(st, h[1], h[2], p) = Realign(st, h[1], h[2], Alias(p[1]) \o Tail(p)))

Emit ==
  PrintT(ToJson([s |-> st,
                 ops |-> {[op |-> o, res |-> Apply(st, o)] : o \in Ops(st)},
                 table |-> {[c |-> h[1], n |-> h[2], p |-> p, res |-> Realign(st, h[1], h[2], p),
                             def |-> Resolve(Cell(h[1], h[2]), p) # NONE] : h \in Held, p \in PathsAt(st)}]))
=============================================================================
