---------------------------- MODULE PoolTagsCore ----------------------------
(***************************************************************************)
(* Extension (C15 / C08): WHICH monitor object a cell of a trainer gets.   *)
(*                                                                         *)
(* A trainer asks its monitor pool for a monitor with                      *)
(*     rq = [cell, basis, name, tags, cfg, unique]                         *)
(* cell   the name the cell was registered under                           *)
(* basis  the layer that owns the cell (monitors hang on the layer)        *)
(* name   the monitor's name ("trace_pre", "spike_post", ...)              *)
(* tags   what the trainer declares about the monitor: the realigned       *)
(*        attribute path plus the keyword tags of add_monitor              *)
(* cfg    what the monitor would DO if it were built for this request:     *)
(*        monitor class, hook placement, reducer class and every number    *)
(*        the reducer computes with (time constant, amplitude, duration,   *)
(*        step time, ...)                                                  *)
(* unique the trainer asked for a private object                           *)
(*                                                                         *)
(* Mech (MAdd): the rule coded in MonitorPool.add_monitor and              *)
(* Observable.add_monitor: an existing binding of (cell, name) wins unless *)
(* unique; a private object is never tagged and never found again; else    *)
(* any tagged object of the same basis that some cell of the pool holds    *)
(* under the same name with EQUAL TAGS is aliased; else a new tagged       *)
(* object is built from the request.                                       *)
(*                                                                         *)
(* Abs (what a user of a trainer relies on, C08 "each cell follows the     *)
(* rule with its own hyperparameters", C15 "cells isolated"):              *)
(*   Sound        the object bound to (cell, name) behaves as requested    *)
(*                for that cell: its cfg is the request's cfg              *)
(*   SameBasis    cells of different layers never share an object          *)
(*   Private      an object asked for as unique is bound exactly once      *)
(*   Thrifty      two non-unique bindings of one basis with the same name  *)
(*                and equal tags are ONE object (documented: duplicate     *)
(*                monitors are not created where possible)                 *)
(* Sound is a property of the TAG SCHEME of each trainer: it holds iff     *)
(* equal tags imply equal cfg.  Defect D48 was MSTDPET declaring           *)
(* {dt, amp, tc} for a monitor whose cfg also depends on the trace mode.   *)
(*                                                                         *)
(* state  st = [objs, bind, req]                                           *)
(*   objs  sequence of [basis, name, tags, cfg, tagged]   (never shrinks:  *)
(*         an object nobody binds any more is unreachable)                 *)
(*   bind  set of [cell, name, obj]                                        *)
(*   req   set of [cell, name, cfg]: the cfg each live binding was asked   *)
(*         with (Abs bookkeeping)                                          *)
(***************************************************************************)
EXTENDS Naturals, Sequences, FiniteSets

EmptyPool == [objs |-> <<>>, bind |-> {}, req |-> {}]

Bound(st, c, n) == {b \in st.bind : b.cell = c /\ b.name = n}

\* objects the pool can find for a request: tagged, of the request's basis, held by some cell under this
\* name, with equal tags
Cands(st, rq) ==
  {i \in 1..Len(st.objs) :
     /\ st.objs[i].tagged
     /\ st.objs[i].basis = rq.basis
     /\ st.objs[i].tags = rq.tags
     /\ \E b \in st.bind : b.obj = i /\ b.name = rq.name}

NewObj(rq, tagged) == [basis |-> rq.basis, name |-> rq.name, tags |-> rq.tags, cfg |-> rq.cfg, tagged |-> tagged]

Unbind(st, c, n) == [st EXCEPT !.bind = {b \in @ : ~(b.cell = c /\ b.name = n)},
                               !.req = {r \in @ : ~(r.cell = c /\ r.name = n)}]

WithNew(st, rq, tagged) ==
  LET i == Len(st.objs) + 1 IN
  [st |-> [objs |-> Append(st.objs, NewObj(rq, tagged)),
           bind |-> st.bind \cup {[cell |-> rq.cell, name |-> rq.name, obj |-> i]},
           req |-> st.req \cup {[cell |-> rq.cell, name |-> rq.name, cfg |-> rq.cfg]}],
   obj |-> i, how |-> "new"]

WithAlias(st, rq, i) ==
  [st |-> [st EXCEPT !.bind = @ \cup {[cell |-> rq.cell, name |-> rq.name, obj |-> i]},
                     !.req = @ \cup {[cell |-> rq.cell, name |-> rq.name, cfg |-> rq.cfg]}],
   obj |-> i, how |-> "alias"]

\* MonitorPool.add_monitor + Observable.add_monitor -> set of [st, obj, how]
MAdd(st, rq) ==
  LET had == Bound(st, rq.cell, rq.name) IN
  IF had # {} /\ ~rq.unique
  THEN {[st |-> st, obj |-> b.obj, how |-> "kept"] : b \in had}        \* the existing monitor is returned as it is
  ELSE LET s0 == IF had # {} THEN Unbind(st, rq.cell, rq.name) ELSE st IN
       IF rq.unique THEN {WithNew(s0, rq, FALSE)}
       ELSE IF Cands(s0, rq) # {} THEN {WithAlias(s0, rq, i) : i \in Cands(s0, rq)}
       ELSE {WithNew(s0, rq, TRUE)}

\* del_monitor / del_observed: the bindings go, the objects stay with whoever still binds them
MDelCell(st, c) == [st EXCEPT !.bind = {b \in @ : b.cell # c}, !.req = {r \in @ : r.cell # c}]

-----------------------------------------------------------------------------
ReqCfg(st, c, n) == {r.cfg : r \in {q \in st.req : q.cell = c /\ q.name = n}}

Sound(st) == \A b \in st.bind : ReqCfg(st, b.cell, b.name) = {st.objs[b.obj].cfg}

SameBasis(st, basisOf(_)) ==
  \A b1, b2 \in st.bind : b1.obj = b2.obj => basisOf(b1.cell) = basisOf(b2.cell)

Private(st) ==
  \A i \in 1..Len(st.objs) : ~st.objs[i].tagged => Cardinality({b \in st.bind : b.obj = i}) <= 1

Thrifty(st) ==
  \A b1, b2 \in st.bind :
     LET o1 == st.objs[b1.obj]  o2 == st.objs[b2.obj] IN
     (b1.name = b2.name /\ o1.tagged /\ o2.tagged /\ o1.basis = o2.basis /\ o1.tags = o2.tags) => b1.obj = b2.obj

WellFormed(st) ==
  /\ \A b \in st.bind : b.obj \in 1..Len(st.objs) /\ st.objs[b.obj].name = b.name
  /\ \A b1, b2 \in st.bind : (b1.cell = b2.cell /\ b1.name = b2.name) => b1 = b2
  /\ {[cell |-> r.cell, name |-> r.name] : r \in st.req} = {[cell |-> b.cell, name |-> b.name] : b \in st.bind}
=============================================================================
