----------------------------- MODULE PoolTagsMC -----------------------------
(***************************************************************************)
(* Exhaustive exploration of the monitor pool's aliasing rule under a      *)
(* trainer's TAG SCHEME.  Four cells: 1 and 2 are two connections into ONE *)
(* neuron group of layer 1 (their neuron-side monitors have the same       *)
(* attribute path), 4 pairs a connection of layer 1 with ANOTHER neuron    *)
(* group, 3 is the cell of layer 2 that has the same names as cell 1 (the  *)
(* same attribute path on a different basis, defect D42).                  *)
(* A trainer installs three monitors per cell from the cell's hyper-       *)
(* parameters hp = [amp, mode]:                                            *)
(*   "tr"  a trace: cfg depends on amp AND mode; declared tags per Scheme  *)
(*   "sp"  a spike passthrough: cfg and tags independent of hp             *)
(*   "el"  an eligibility trace: unique                                    *)
(* Scheme = "full"    tags of "tr" = <<attr, amp, mode>>   (STDP, MSTDP,   *)
(*                    TripletSTDP, and MSTDPET since e630eee)              *)
(*          "nomode"  tags of "tr" = <<attr, amp>>          (MSTDPET as    *)
(*                    found: must violate Sound - hazard run)              *)
(* Operations: reg(c, hp), del(c), readd(c, hp, unique) = add_monitor      *)
(* called again for "tr" (ExistingNameWins: without unique the existing    *)
(* object is returned whatever is asked).                                  *)
(***************************************************************************)
EXTENDS PoolTagsCore, TLC, Json

CONSTANTS Scheme, MaxOps

VARIABLE st, n
vars == <<st, n>>

Cells == 1..4
BasisOf(c) == IF c = 3 THEN 2 ELSE 1
AttrOf(c) == IF c = 4 THEN 2 ELSE 1
Hps == [amp : 0..1, mode : 0..1]

TrTags(c, hp) == IF Scheme = "full" THEN <<AttrOf(c), hp.amp, hp.mode>> ELSE <<AttrOf(c), hp.amp>>

Rq(c, name, hp, uniq) ==
  [cell |-> c, basis |-> BasisOf(c), name |-> name, unique |-> uniq,
   tags |-> CASE name = "tr" -> TrTags(c, hp) [] name = "sp" -> <<AttrOf(c)>> [] OTHER -> <<>>,
   cfg |-> CASE name = "tr" -> <<"trace", AttrOf(c), hp.amp, hp.mode>>
             [] name = "sp" -> <<"pass", AttrOf(c)>>
             [] OTHER -> <<"elig", c, hp.amp>>]

Registered(s) == {b.cell : b \in s.bind}

\* register_cell: three add_monitor calls in the trainer's order
RegOutcomes(s, c, hp) ==
  {o3.st : o3 \in UNION {MAdd(o2.st, Rq(c, "el", hp, TRUE)) :
                  o2 \in UNION {MAdd(o1.st, Rq(c, "sp", hp, FALSE)) : o1 \in MAdd(s, Rq(c, "tr", hp, FALSE))}}}

Ops(s) ==
  {[a |-> "reg", c |-> c, hp |-> hp] : c \in Cells \ Registered(s), hp \in Hps}
  \cup {[a |-> "del", c |-> c] : c \in Registered(s)}
  \cup {[a |-> "readd", c |-> c, hp |-> hp, u |-> u] : c \in Registered(s), hp \in Hps, u \in BOOLEAN}

Apply(s, o) ==
  CASE o.a = "reg" -> RegOutcomes(s, o.c, o.hp)
    [] o.a = "del" -> {MDelCell(s, o.c)}
    [] o.a = "readd" -> {r.st : r \in MAdd(s, Rq(o.c, "tr", o.hp, o.u))}

Init == st = EmptyPool /\ n = 0
Next == n < MaxOps /\ \E o \in Ops(st) : \E s2 \in Apply(st, o) : st' = s2 /\ n' = n + 1
Spec == Init /\ [][Next]_vars

SoundInv == Sound(st)
SameBasisInv == SameBasis(st, BasisOf)
PrivateInv == Private(st)
ThriftyInv == Thrifty(st)
WellFormedInv == WellFormed(st)
\* the pool never hands out two different objects for one request (given the tags are complete, the outcome of
\* every operation is unique up to the choice among interchangeable candidates, of which there is at most one)
Deterministic == \A o \in Ops(st) : Cardinality(Apply(st, o)) = 1
\* ExistingNameWins, stated: add_monitor on a bound name without unique changes nothing
KeepsExisting ==
  \A c \in Registered(st), hp \in Hps : \A r \in MAdd(st, Rq(c, "tr", hp, FALSE)) : r.st = st /\ r.how = "kept"

Emit == PrintT(ToJson([s |-> st, out |-> {[op |-> o, res |-> Apply(st, o)] : o \in Ops(st)}]))
=============================================================================
