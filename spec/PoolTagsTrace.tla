---------------------------- MODULE PoolTagsTrace ---------------------------
(***************************************************************************)
(* Direction B for the monitor pool: registration traces recorded from     *)
(* REAL trainers of every shipped class.  Each event is one monitor of a   *)
(* cell just registered (in the order the trainer added them):             *)
(*   [cell, basis, name, tags, cfg, unique, obj, got]                      *)
(* tags / cfg / unique: what the trainer asks for this cell - read off a   *)
(*   SOLO trainer of the same class and hyperparameters on the same cell   *)
(*   (nothing to alias there); obj: identity number of the object the      *)
(*   SHARED trainer bound (numbered by first appearance); got: the cfg of  *)
(*   that object.  Strings are canonical serialisations: equal strings <=> *)
(*   equal tags / configurations.                                          *)
(* Clauses:                                                                *)
(*   AliasRule  the bound object is one MAdd allows (a new object has the  *)
(*              next identity number)                                      *)
(*   Sound      got = cfg : the cell's monitor behaves as configured for   *)
(*              this cell                                                  *)
(*   OverrideEq a "state" event carries two descriptions of what a cell    *)
(*              is trained with (auxiliary state: every hyperparameter as  *)
(*              stored, tensor keyword arguments; every monitor's tags and *)
(*              configuration): one of a trainer CONSTRUCTED with the      *)
(*              hyperparameters, one of a trainer constructed with other   *)
(*              defaults and given them as register_cell overrides; they   *)
(*              must be equal ("constructor arguments are hyperparameters  *)
(*              and can be overridden on a cell-by-cell basis")            *)
(* After every event the state invariants of PoolTagsCore are evaluated    *)
(* (SameBasis, Private, Thrifty, WellFormed).                              *)
(***************************************************************************)
EXTENDS PoolTagsCore, Integers, TLC, Json, IOUtils, TLCExt

Traces == JsonDeserialize(IOEnv.TRACE_FILE)

VARIABLES tid, l, st
vars == <<tid, l, st>>

NT == Len(Traces)
Evs(t) == Traces[t].ev
Hdr(t) == Traces[t].hdr
MaxI(a, b) == IF a >= b THEN a ELSE b
Waived(t) == {Traces[t].hdr.waive[i] : i \in DOMAIN Traces[t].hdr.waive}

ASSUME \A i \in 1..NT : TLCSet(100 + i, 0)

RqOf(e) == [cell |-> e.cell, basis |-> e.basis, name |-> e.name, tags |-> e.tags, cfg |-> e.cfg, unique |-> e.unique]

Allowed(s, e) == {o \in MAdd(s, RqOf(e)) : o.obj = e.obj}

BasisIn(t, c) == Hdr(t).basis[c]

StateOK(t, s) ==
  /\ Private(s) /\ Thrifty(s) /\ WellFormed(s)
  /\ \A b1, b2 \in s.bind : b1.obj = b2.obj => BasisIn(t, b1.cell) = BasisIn(t, b2.cell)

Failed(t, s, e) ==
  IF e.a = "del" THEN {}
  ELSE IF e.a = "state" THEN (IF e.ctor # e.over THEN {"OverrideEq"} ELSE {})
  ELSE (IF Allowed(s, e) = {} THEN {"AliasRule"} ELSE {})
       \cup (IF e.got # e.cfg THEN {"Sound"} ELSE {})
       \cup (IF Allowed(s, e) # {} /\ \E o \in Allowed(s, e) : ~StateOK(t, o.st) THEN {"StateInv"} ELSE {})

\* on a waived line the logged binding is adopted as it is
Adopt(s, e) ==
  IF e.obj = Len(s.objs) + 1 THEN WithNew(s, RqOf(e), ~e.unique).st
  ELSE IF e.obj \in 1..Len(s.objs) THEN WithAlias(s, RqOf(e), e.obj).st ELSE s

After(s, e) ==
  IF e.a = "del" THEN MDelCell(s, e.cell)
  ELSE IF e.a = "state" THEN s
  ELSE IF Allowed(s, e) # {} THEN (CHOOSE o \in Allowed(s, e) : TRUE).st ELSE Adopt(s, e)

Init == /\ tid \in 1..NT
        /\ l = 1
        /\ st = EmptyPool

Step ==
  /\ l <= Len(Evs(tid))
  /\ LET e == Evs(tid)[l] IN
       /\ (l \in Waived(tid) \/ Failed(tid, st, e) = {})
       /\ st' = After(st, e)
  /\ l' = l + 1
  /\ UNCHANGED tid

TraceSpec == Init /\ [][Step]_vars

Track ==
  /\ TLCSet(100 + tid, MaxI(TLCGet(100 + tid), l))
  /\ IF l <= Len(Evs(tid)) /\ ~(l \in Waived(tid)) /\ Failed(tid, st, Evs(tid)[l]) # {}
     THEN PrintT(ToJson([diag |-> tid, l |-> l, clauses |-> Failed(tid, st, Evs(tid)[l]),
                         cands |-> Cands(st, RqOf(Evs(tid)[l]))]))
     ELSE TRUE

Post ==
  PrintT(ToJson([rejected |-> {<<i, TLCGet(100 + i)>> : i \in {j \in 1..NT : TLCGet(100 + j) <= Len(Evs(j))}},
                 total |-> NT]))
=============================================================================
