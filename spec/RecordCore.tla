---------------------------- MODULE RecordCore ----------------------------
(***************************************************************************)
(* Functional core of the RecordTensor specification (inferno/core/         *)
(* infrastructure.py, class RecordTensor).  Two layers:                     *)
(*                                                                          *)
(*   Abs  - the property-level model of C01/C02/C13: a list of observations *)
(*          hist, hist[k+1] = the observation k steps before the write      *)
(*          position (k = 0 is the slot overwritten next, i.e. the oldest;  *)
(*          k = 1 the newest), no pointer at all.                           *)
(*   Mech - the implementation-shaped model: pointer + ring storage, the    *)
(*          index arithmetic, slicing and concatenation the code performs,  *)
(*          one operator per public method.                                 *)
(*                                                                          *)
(* Both are written as   Apply(st, op) == set of [st |-> st', ret |-> r]    *)
(* so the same text serves exhaustive checking (RecordMC), behaviour        *)
(* generation (RecordGen) and trace validation (RecordTrace).               *)
(*                                                                          *)
(* Values are integers in HALF units (1 == 0.5) so that truncation by an    *)
(* integer record is visible.  Times are integers in ticks; a step is       *)
(* st.dtk ticks.  Tolerances are (tol + 1/2) ticks, carried as tol2 = 2tol+1*)
(* half-ticks, so no comparison is ever at equality.                        *)
(***************************************************************************)
EXTENDS Integers, Sequences, FiniteSets, TLC

DTypes == {"b", "i", "f"}

\* conversion of a value (in halves, >= 0) to a storage data type
Conv(d, v) == CASE d = "f" -> v
                [] d = "i" -> 2 * (v \div 2)
                [] d = "b" -> IF v = 0 THEN 0 ELSE 2
                [] OTHER   -> v
ConvObs(d, obs) == [e \in DOMAIN obs |-> Conv(d, obs[e])]
Rank(d) == CASE d = "b" -> 0 [] d = "i" -> 1 [] d = "f" -> 2 [] OTHER -> 3
Promote(a, b) == IF Rank(a) >= Rank(b) THEN a ELSE b

Max(a, b) == IF a >= b THEN a ELSE b
Min(a, b) == IF a <= b THEN a ELSE b
CeilDiv(a, b) == (a + b - 1) \div b           \* a >= 0, b > 0
FloorDiv(a, b) == a \div b                    \* TLC: floor for b > 0
Abs(x) == IF x < 0 THEN -x ELSE x

Ready(st) == st.kind = "ready"
Zeros(E) == [e \in 1..E |-> 0]
Fill(n, E, v) == [i \in 1..n |-> [e \in 1..E |-> v]]
ElemsOf(st) == IF st.n > 0 /\ Len(st.store) > 0 THEN Len(st.store[1]) ELSE 0

RecordSize(dtk, durk, incl) == Max(CeilDiv(durk, dtk) + (IF incl THEN 1 ELSE 0), 1)

Out(st, r) == [st |-> st, ret |-> r]
Err(st, e) == {Out(st, [t |-> "err", e |-> e])}
Ok(st) == {Out(st, [t |-> "ok"])}

(***************************************************************************)
(* Mech layer.  st = [kind, dty, n, ptr, store, dtk, durk, incl, econ]      *)
(*   kind  "none" | "empty" | "uninit" | "ready"                            *)
(*   dty   storage data type ("-" when kind = "none")                       *)
(*   n     record size,   ptr in 0..n-1,   store: Seq(n) of Seq(E) of value *)
(*   dtk, durk ticks per step / duration in ticks, incl inclusive flag      *)
(*   econ  constraint on observation dim 0 (-1: none)                       *)
(***************************************************************************)
Unwind(ptr, k, n) == (ptr - k) % n
Slot(st, k) == st.store[Unwind(st.ptr, k, st.n) + 1]

MRead(st, k) ==
  IF ~Ready(st) THEN Err(st, "RuntimeError")
  ELSE {Out(st, [t |-> "val", v |-> Slot(st, k)])}

\* write: in place = index assignment; otherwise splice  data[:i] ++ obs ++ data[i+1:]
MWriteSt(st, v, k, inpl) ==
  LET i == Unwind(st.ptr, k, st.n)
      c == ConvObs(st.dty, v)
  IN IF inpl THEN [st EXCEPT !.store[i + 1] = c]
     ELSE [st EXCEPT !.store = SubSeq(st.store, 1, i) \o <<c>> \o SubSeq(st.store, i + 2, st.n)]

MWrite(st, v, k, inpl) ==
  IF ~Ready(st) THEN Err(st, "RuntimeError")
  ELSE IF Len(v) # ElemsOf(st) THEN Err(st, "ValueError")
  ELSE Ok(MWriteSt(st, v, k, inpl))

MIncrSt(st, p) == [st EXCEPT !.ptr = Unwind(st.ptr, -p, st.n)]
MIncr(st, p) ==
  IF ~Ready(st) THEN Err(st, "RuntimeError")
  ELSE LET s == MIncrSt(st, p) IN {Out(s, [t |-> "int", i |-> s.ptr])}
MDecr(st, p) ==
  IF ~Ready(st) THEN Err(st, "RuntimeError")
  ELSE LET s == MIncrSt(st, -p) IN {Out(s, [t |-> "int", i |-> s.ptr])}

MPeek(st) == IF ~Ready(st) THEN {Out(st, [t |-> "none"])} ELSE MRead(st, 1)
MPop(st) ==
  IF ~Ready(st) THEN {Out(st, [t |-> "none"])}
  ELSE LET s == MIncrSt(st, -1) IN {Out(s, [t |-> "val", v |-> Slot(s, 0)])}

\* storage created by the first push: zero filled, pointer 0; a record that has no
\* storage at all ("none") adopts the observation's data type, otherwise the
\* data type of the (empty / uninitialised) storage is kept
MAutoInit(st, E, d) ==
  [st EXCEPT !.kind = "ready", !.ptr = 0, !.store = Fill(st.n, E, 0),
             !.dty = IF st.kind = "none" THEN d ELSE st.dty]

MPush(st, v, d, inpl) ==
  LET s0 == IF Ready(st) THEN st ELSE MAutoInit(st, Len(v), d)
  IN IF Len(v) # ElemsOf(s0) THEN Err(s0, "ValueError")
     ELSE Ok(MIncrSt(MWriteSt(s0, v, 0, inpl), 1))

\* roll(store, index - ptr): new[j] = old[(j - (index - ptr)) mod n]
MAlignSt(st, i) ==
  [st EXCEPT !.store = [j \in 1..st.n |-> st.store[((j - 1 - (i - st.ptr)) % st.n) + 1]],
             !.ptr = i]
MAlign(st, idx) ==
  IF idx < -st.n \/ idx >= st.n THEN Err(st, "ValueError")
  ELSE IF ~Ready(st) THEN Err(st, "RuntimeError")
  ELSE Ok(MAlignSt(st, idx))   \* negative indices are stored as given (python index semantics)

\* fill = -1 encodes fill=None
MReset(st, fill) ==
  IF fill = -1 THEN MAlign(st, 0)
  ELSE IF Ready(st)
       THEN Ok([st EXCEPT !.store = Fill(st.n, ElemsOf(st), Conv(st.dty, fill)), !.ptr = 0])
       ELSE Ok([st EXCEPT !.ptr = 0])

\* ---- ranges.  k0 is the offset of the OLDEST element of the range
RangeK0(k, L, fwd) == IF fwd THEN k ELSE k + (L - 1)

MReadRangeScalar(st, L, k, fwd) ==
  IF ~Ready(st) THEN Err(st, "RuntimeError")
  ELSE LET k0 == RangeK0(k, L, fwd)
           start == Unwind(st.ptr, k0, st.n)
           end == Unwind(st.ptr, k0 - L, st.n)
           vs == IF start >= end
                 THEN SubSeq(st.store, start + 1, st.n) \o SubSeq(st.store, 1, end)
                 ELSE SubSeq(st.store, start + 1, end)
       IN {Out(st, [t |-> "range", vs |-> vs])}

\* gather at (ptr - (k0[e] - j)) mod n
MReadRangeTensor(st, L, kv, fwd) ==
  IF ~Ready(st) THEN Err(st, "RuntimeError")
  ELSE IF Len(kv) # ElemsOf(st) THEN Err(st, "ValueError")
  ELSE LET vs == [j \in 1..L |-> [e \in 1..ElemsOf(st) |->
                   st.store[Unwind(st.ptr, RangeK0(kv[e], L, fwd) - (j - 1), st.n) + 1][e]]]
       IN {Out(st, [t |-> "range", vs |-> vs])}

AllPreserved(d, store) == \A i \in DOMAIN store : \A e \in DOMAIN store[i] : Conv(d, store[i][e]) = store[i][e]

\* vs: Seq(L) of observations, oldest first; d: data type of the payload
MWriteRangeScalar(st, vs, d, k, fwd, inpl) ==
  LET L == Len(vs)
      E == ElemsOf(st)
      p == Unwind(st.ptr, RangeK0(k, L, fwd), st.n)
      cvs == [j \in 1..L |-> ConvObs(st.dty, vs[j])]
  IN IF ~Ready(st) THEN Err(st, "RuntimeError")
     ELSE IF \E j \in 1..L : Len(vs[j]) # E THEN Err(st, "ValueError")
     ELSE IF L > st.n THEN Err(st, "ValueError")
     ELSE IF inpl
       THEN Ok([st EXCEPT !.store = [i \in 1..st.n |->
                  IF \E j \in 0..L-1 : (p + j) % st.n = i - 1
                  THEN cvs[(CHOOSE j \in 0..L-1 : (p + j) % st.n = i - 1) + 1]
                  ELSE st.store[i]]])
     ELSE IF p + L > st.n
       THEN \* WriteRangeWrapped: obs[n-p:] ++ data[L-(n-p) : p] ++ obs[:n-p], converted
            Ok([st EXCEPT !.store = SubSeq(cvs, st.n - p + 1, L)
                                    \o SubSeq(st.store, L - (st.n - p) + 1, p)
                                    \o SubSeq(cvs, 1, st.n - p)])
     ELSE \* WriteRangeContiguousPromotesDtype (named deviation): the payload is
          \* spliced in unconverted and torch promotes the record's data type; the
          \* values themselves are preserved.
          LET raw == SubSeq(st.store, 1, p) \o vs \o SubSeq(st.store, p + L + 1, st.n)
          IN { Out([st EXCEPT !.store = raw, !.dty = dd], [t |-> "ok"]) :
                 dd \in {x \in {st.dty, d, Promote(st.dty, d)} : AllPreserved(x, raw)} }

\* scatter, payload converted to the record's data type (as documented)
MWriteRangeTensor(st, vs, d, kv, fwd, inpl) ==
  LET L == Len(vs)
      E == ElemsOf(st)
  IN IF ~Ready(st) THEN Err(st, "RuntimeError")
     ELSE IF \E j \in 1..L : Len(vs[j]) # E THEN Err(st, "ValueError")
     ELSE IF L > st.n THEN Err(st, "ValueError")
     ELSE IF Len(kv) # E THEN Err(st, "ValueError")
     ELSE Ok([st EXCEPT !.store = [i \in 1..st.n |-> [e \in 1..E |->
            LET hit == {j \in 0..L-1 : Unwind(st.ptr, RangeK0(kv[e], L, fwd) - j, st.n) = i - 1}
            IN IF hit = {} THEN st.store[i][e]
               ELSE Conv(st.dty, vs[(CHOOSE j \in hit : TRUE) + 1][e])]]])

\* ---- storage life cycle
\* fill type decides the data type only when there is no storage at all
FillType(fill) == IF fill % 2 = 0 THEN "i" ELSE "f"
MInitialize(st, E, fill) ==
  LET d == IF st.kind = "none" THEN FillType(fill) ELSE st.dty
  IN {Out([st EXCEPT !.kind = "ready", !.ptr = 0, !.dty = d,
                     !.store = Fill(st.n, E, Conv(d, fill))], [t |-> "ok"])}
MDeinit(st, uninit) ==
  Ok([st EXCEPT !.kind = IF uninit THEN "uninit" ELSE "empty", !.ptr = 0, !.store = <<>>,
                !.dty = IF st.kind = "none" THEN "f" ELSE st.dty])
MAssignNone(st) == Ok([st EXCEPT !.kind = "none", !.ptr = 0, !.store = <<>>, !.dty = "-"])

(***************************************************************************)
(* Time indexing (C02), in ticks.                                          *)
(***************************************************************************)
RoundDiv(tau, D) == FloorDiv(2 * tau + D, 2 * D)        \* nearest step (ties never matter, see tol2 < D)
OnGrid(tau, D, tol2) == 2 * Abs(RoundDiv(tau, D) * D - tau) <= tol2
OutOfRange(tau, D, n, tol2) == 2 * tau < -tol2 \/ 2 * tau > 2 * D * (n - 1) + tol2
CeilDivZ(a, b) == -FloorDiv(-a, b)
NewerK(tau, D) == FloorDiv(tau, D)
Elapsed(tau, D) == D - (tau % D)

\* result per element: exact stored value, or the arguments handed to the
\* interpolation function (older sample, newer sample, time since the older one)
SelElem(st, e, tau, off, tol2) ==
  LET D == st.dtk IN
  IF OnGrid(tau, D, tol2)
  THEN [x |-> "ex", v |-> Slot(st, off + RoundDiv(tau, D))[e]]
  ELSE [x |-> "in", od |-> Slot(st, off + CeilDivZ(tau, D))[e],
        nw |-> Slot(st, off + NewerK(tau, D))[e], el |-> Elapsed(tau, D)]

MSelect(st, tauv, off, tol2) ==
  IF ~Ready(st) THEN Err(st, "RuntimeError")
  ELSE IF Len(tauv) # ElemsOf(st) THEN Err(st, "ValueError")
  ELSE IF \E e \in DOMAIN tauv : OutOfRange(tauv[e], st.dtk, st.n, tol2) THEN Err(st, "ValueError")
  ELSE {Out(st, [t |-> "sel", r |-> [e \in 1..ElemsOf(st) |-> SelElem(st, e, tauv[e], off, tol2)]])}

\* insert: v the observation, pv / nv what the extrapolation function returns for
\* the older / newer slot (probe sentinels); off-grid elements write pv, nv to the
\* two bracketing slots, on-grid elements write v to the addressed slot
MInsert(st, v, pv, nv, tauv, off, tol2) ==
  LET D == st.dtk
      E == ElemsOf(st)
      tgt(e) == IF OnGrid(tauv[e], D, tol2)
                THEN << <<Unwind(st.ptr, off + RoundDiv(tauv[e], D), st.n), v[e]>> >>
                ELSE << <<Unwind(st.ptr, off + CeilDivZ(tauv[e], D), st.n), pv[e]>>,
                        <<Unwind(st.ptr, off + NewerK(tauv[e], D), st.n), nv[e]>> >>
      args(e) == IF OnGrid(tauv[e], D, tol2) THEN [x |-> "ex"]
                 ELSE [x |-> "in", od |-> Slot(st, off + CeilDivZ(tauv[e], D))[e],
                       nw |-> Slot(st, off + NewerK(tauv[e], D))[e], el |-> Elapsed(tauv[e], D)]
  IN IF ~Ready(st) THEN Err(st, "RuntimeError")
     ELSE IF Len(v) # E \/ Len(tauv) # E THEN Err(st, "ValueError")
     ELSE IF \E e \in 1..E : OutOfRange(tauv[e], D, st.n, tol2) THEN Err(st, "ValueError")
     ELSE {Out([st EXCEPT !.store = [i \in 1..st.n |-> [e \in 1..E |->
                  LET w == {j \in DOMAIN tgt(e) : tgt(e)[j][1] = i - 1}
                  IN IF w = {} THEN st.store[i][e]
                     ELSE Conv(st.dty, tgt(e)[CHOOSE j \in w : TRUE][2])]]],
               [t |-> "ins", r |-> [e \in 1..E |-> args(e)]])}

(***************************************************************************)
(* Resizing (C13).                                                         *)
(***************************************************************************)
\* ShapedTensor.reconstrain(0, n2) after align(0): keep the tail / zero-prepend
MResizeSt(st, n2) ==
  LET a == MAlignSt(st, 0)
      E == ElemsOf(st)
  IN IF n2 = st.n THEN st
     ELSE IF n2 < st.n
       THEN [a EXCEPT !.n = n2, !.store = SubSeq(a.store, st.n - n2 + 1, st.n)]
       ELSE [a EXCEPT !.n = n2, !.store = Fill(n2 - st.n, E, 0) \o a.store]

\* a setter changes the temporal attribute, recomputes the size and - only if the
\* size changed - aligns and resizes initialised storage; storage that is not
\* initialised only has its size constraint changed
MRetime(st, dtk, durk, incl) ==
  LET s1 == [st EXCEPT !.dtk = dtk, !.durk = durk, !.incl = incl]
      n2 == RecordSize(dtk, durk, incl)
  IN IF n2 = st.n THEN Ok(s1)
     ELSE IF Ready(st) THEN Ok(MResizeSt(s1, n2))
     ELSE Ok([s1 EXCEPT !.n = n2])

\* RecordTensor.reconstrain(0, size) on observation dim 0: size = -1 removes
ResizeObs(obs, E2) ==
  LET E == Len(obs) IN
  IF E2 <= E THEN SubSeq(obs, E - E2 + 1, E) ELSE [e \in 1..(E2 - E) |-> 0] \o obs
MRecon(st, size) ==
  LET a == IF Ready(st) THEN MAlignSt(st, 0) ELSE st     \* aligned first, whatever follows
  IN IF size = -1
     THEN IF st.econ = -1 THEN Err(a, "ValueError") ELSE Ok([a EXCEPT !.econ = -1])
     ELSE IF st.econ = -1
       THEN \* add: refused unless already compatible
            IF Ready(st) /\ ElemsOf(st) # size THEN Err(a, "ValueError")
            ELSE Ok([a EXCEPT !.econ = size])
       ELSE \* edit: keep the tail / zero-prepend along that dimension
            IF Ready(st)
            THEN Ok([a EXCEPT !.econ = size, !.store = [i \in 1..a.n |-> ResizeObs(a.store[i], size)]])
            ELSE Ok([a EXCEPT !.econ = size])

\* reported validity: ignored storage is always valid, otherwise every constraint
\* (the record size on dim 0, econ on observation dim 0) must be met
MValid(st) == ~Ready(st) \/ (Len(st.store) = st.n /\ (st.econ = -1 \/ ElemsOf(st) = st.econ))

(***************************************************************************)
(* Dispatcher.  An operation is a record with field a (the method) and its  *)
(* arguments.                                                               *)
(***************************************************************************)
TauVec(st, o) == IF o.tens THEN o.tauv ELSE [e \in 1..ElemsOf(st) |-> o.tau]

MApply(st, o) ==
  CASE o.a = "push"       -> MPush(st, o.v, o.d, o.inpl)
    [] o.a = "latest_set" -> MPush(st, o.v, o.d, FALSE)
    [] o.a = "pop"        -> MPop(st)
    [] o.a = "peek"       -> MPeek(st)
    [] o.a = "latest_get" -> MPeek(st)
    [] o.a = "latest_del" -> IF ~Ready(st) THEN Err(st, "RuntimeError") ELSE Ok(MIncrSt(st, -1))
    [] o.a = "read"       -> MRead(st, o.k)
    [] o.a = "write"      -> MWrite(st, o.v, o.k, o.inpl)
    [] o.a = "incr"       -> MIncr(st, o.p)
    [] o.a = "decr"       -> MDecr(st, o.p)
    [] o.a = "align"      -> MAlign(st, o.i)
    [] o.a = "reset"      -> MReset(st, o.fill)
    [] o.a = "readrange"  -> IF o.tens THEN MReadRangeTensor(st, o.L, o.kv, o.fwd)
                                        ELSE MReadRangeScalar(st, o.L, o.k, o.fwd)
    [] o.a = "writerange" -> IF o.tens THEN MWriteRangeTensor(st, o.vs, o.d, o.kv, o.fwd, o.inpl)
                                        ELSE MWriteRangeScalar(st, o.vs, o.d, o.k, o.fwd, o.inpl)
    [] o.a = "initialize" -> MInitialize(st, o.E, o.fill)
    [] o.a = "deinit"     -> MDeinit(st, o.uninit)
    [] o.a = "assign_none" -> MAssignNone(st)
    [] o.a = "select"     -> IF Ready(st) THEN MSelect(st, TauVec(st, o), o.off, o.tol2)
                                           ELSE Err(st, "RuntimeError")
    [] o.a = "insert"     -> IF Ready(st) THEN MInsert(st, o.v, o.pv, o.nv, TauVec(st, o), o.off, o.tol2)
                                           ELSE Err(st, "RuntimeError")
    [] o.a = "set_dt"       -> MRetime(st, o.x, st.durk, st.incl)
    [] o.a = "set_duration" -> MRetime(st, st.dtk, o.x, st.incl)
    [] o.a = "set_inclusive" -> MRetime(st, st.dtk, st.durk, o.x)
    [] o.a = "recon"      -> MRecon(st, o.size)
    [] o.a = "valid"      -> {Out(st, [t |-> "bool", b |-> MValid(st)])}

(***************************************************************************)
(* Abs layer.  ab = [kind, dty, n, hist, dtk, durk, incl, econ]; no pointer.*)
(* hist[k+1], k in 0..n-1: observation k steps before the write position.   *)
(***************************************************************************)
HSlot(ab, k) == ab.hist[(k % ab.n) + 1]
AReady(ab) == ab.kind = "ready"
AElems(ab) == IF ab.n > 0 /\ Len(ab.hist) > 0 THEN Len(ab.hist[1]) ELSE 0

AWriteSt(ab, v, k) == [ab EXCEPT !.hist[(k % ab.n) + 1] = ConvObs(ab.dty, v)]
AShiftSt(ab, p) == [ab EXCEPT !.hist = [j \in 1..ab.n |-> ab.hist[((j - 1 - p) % ab.n) + 1]]]

AAutoInit(ab, E, d) ==
  [ab EXCEPT !.kind = "ready", !.hist = Fill(ab.n, E, 0),
             !.dty = IF ab.kind = "none" THEN d ELSE ab.dty]

APush(ab, v, d) ==
  LET a0 == IF AReady(ab) THEN ab ELSE AAutoInit(ab, Len(v), d)
  IN IF Len(v) # AElems(a0) THEN Err(a0, "ValueError")
     ELSE Ok(AShiftSt(AWriteSt(a0, v, 0), 1))

ARangeVals(ab, L, k0v) ==
  [j \in 1..L |-> [e \in 1..AElems(ab) |-> HSlot(ab, k0v[e] - (j - 1))[e]]]

AWriteRange(ab, vs, d, k0v, promote) ==
  LET L == Len(vs)
      E == AElems(ab)
      newhist(dd, conv) == [i \in 1..ab.n |-> [e \in 1..E |->
          LET hit == {j \in 0..L-1 : (k0v[e] - j) % ab.n = i - 1}
          IN IF hit = {} THEN ab.hist[i][e]
             ELSE IF conv THEN Conv(dd, vs[(CHOOSE j \in hit : TRUE) + 1][e])
                  ELSE vs[(CHOOSE j \in hit : TRUE) + 1][e]]]
  IN IF ~AReady(ab) THEN Err(ab, "RuntimeError")
     ELSE IF \E j \in 1..L : Len(vs[j]) # E THEN Err(ab, "ValueError")
     ELSE IF L > ab.n THEN Err(ab, "ValueError")
     ELSE IF Len(k0v) # E THEN Err(ab, "ValueError")
     ELSE \* every written value is kept up to conversion to the record's data
          \* type; the data type may be promoted (then nothing is altered at all)
          {Out([ab EXCEPT !.hist = newhist(ab.dty, TRUE)], [t |-> "ok"])}
          \cup (IF promote
                THEN {Out([ab EXCEPT !.hist = newhist(dd, FALSE), !.dty = dd], [t |-> "ok"]) :
                        dd \in {x \in DTypes : AllPreserved(x, newhist(x, FALSE))}}
                ELSE {})

AAge(k, n) == IF k = 0 THEN n ELSE k
AResizeSt(ab, n2) ==
  [ab EXCEPT !.n = n2,
             !.hist = [j \in 1..n2 |-> LET a == AAge(j - 1, n2) IN
                         IF a <= ab.n THEN ab.hist[(a % ab.n) + 1] ELSE Zeros(AElems(ab))]]
ARetime(ab, dtk, durk, incl) ==
  LET a1 == [ab EXCEPT !.dtk = dtk, !.durk = durk, !.incl = incl]
      n2 == RecordSize(dtk, durk, incl)
  IN IF AReady(ab) THEN Ok(AResizeSt(a1, n2)) ELSE Ok([a1 EXCEPT !.n = n2])

\* the abstract statement of "elapsed since the older sample": the older sample is
\* (NewerK+1) steps back, i.e. at time (NewerK+1)*D before present; elapsed since it
\* is (NewerK+1)*D - tau.
AElapsed(tau, D) == (NewerK(tau, D) + 1) * D - tau

AApply(ab, o) ==
  LET E == AElems(ab)
      kvec(k) == [e \in 1..E |-> k]
  IN
  CASE o.a = "push"       -> APush(ab, o.v, o.d)
    [] o.a = "latest_set" -> APush(ab, o.v, o.d)
    [] o.a = "pop"        -> IF ~AReady(ab) THEN {Out(ab, [t |-> "none"])}
                             ELSE LET s == AShiftSt(ab, -1) IN {Out(s, [t |-> "val", v |-> HSlot(s, 0)])}
    [] o.a \in {"peek", "latest_get"} ->
                             IF ~AReady(ab) THEN {Out(ab, [t |-> "none"])}
                             ELSE {Out(ab, [t |-> "val", v |-> HSlot(ab, 1)])}
    [] o.a = "latest_del" -> IF ~AReady(ab) THEN Err(ab, "RuntimeError") ELSE Ok(AShiftSt(ab, -1))
    [] o.a = "read"       -> IF ~AReady(ab) THEN Err(ab, "RuntimeError")
                             ELSE {Out(ab, [t |-> "val", v |-> HSlot(ab, o.k)])}
    [] o.a = "write"      -> IF ~AReady(ab) THEN Err(ab, "RuntimeError")
                             ELSE IF Len(o.v) # E THEN Err(ab, "ValueError")
                             ELSE Ok(AWriteSt(ab, o.v, o.k))
    [] o.a = "incr"       -> IF ~AReady(ab) THEN Err(ab, "RuntimeError")
                             ELSE {Out(AShiftSt(ab, o.p), [t |-> "int"])}
    [] o.a = "decr"       -> IF ~AReady(ab) THEN Err(ab, "RuntimeError")
                             ELSE {Out(AShiftSt(ab, -o.p), [t |-> "int"])}
    [] o.a = "align"      -> IF o.i < -ab.n \/ o.i >= ab.n THEN Err(ab, "ValueError")
                             ELSE IF ~AReady(ab) THEN Err(ab, "RuntimeError") ELSE Ok(ab)
    [] o.a = "reset"      -> IF o.fill = -1
                             THEN (IF ~AReady(ab) THEN Err(ab, "RuntimeError") ELSE Ok(ab))
                             ELSE IF AReady(ab)
                                  THEN Ok([ab EXCEPT !.hist = Fill(ab.n, E, Conv(ab.dty, o.fill))])
                                  ELSE Ok(ab)
    [] o.a = "readrange"  -> IF ~AReady(ab) THEN Err(ab, "RuntimeError")
                             ELSE IF o.tens /\ Len(o.kv) # E THEN Err(ab, "ValueError")
                             ELSE LET k0v == IF o.tens THEN [e \in 1..E |-> RangeK0(o.kv[e], o.L, o.fwd)]
                                                        ELSE kvec(RangeK0(o.k, o.L, o.fwd))
                                  IN {Out(ab, [t |-> "range", vs |-> ARangeVals(ab, o.L, k0v)])}
    [] o.a = "writerange" -> IF ~AReady(ab) THEN Err(ab, "RuntimeError")
                             ELSE LET L == Len(o.vs)
                                      k0v == IF o.tens THEN [e \in 1..Len(o.kv) |-> RangeK0(o.kv[e], L, o.fwd)]
                                                        ELSE kvec(RangeK0(o.k, L, o.fwd))
                                  IN AWriteRange(ab, o.vs, o.d, k0v, ~o.tens /\ ~o.inpl)
    [] o.a = "initialize" -> LET d == IF ab.kind = "none" THEN FillType(o.fill) ELSE ab.dty
                             IN Ok([ab EXCEPT !.kind = "ready", !.dty = d,
                                              !.hist = Fill(ab.n, o.E, Conv(d, o.fill))])
    [] o.a = "deinit"     -> Ok([ab EXCEPT !.kind = IF o.uninit THEN "uninit" ELSE "empty", !.hist = <<>>,
                                           !.dty = IF ab.kind = "none" THEN "f" ELSE ab.dty])
    [] o.a = "assign_none" -> Ok([ab EXCEPT !.kind = "none", !.hist = <<>>, !.dty = "-"])
    [] o.a = "select"     ->
         IF ~AReady(ab) THEN Err(ab, "RuntimeError")
         ELSE LET tv == IF o.tens THEN o.tauv ELSE kvec(o.tau) IN
              IF Len(tv) # E THEN Err(ab, "ValueError")
              ELSE IF \E e \in 1..E : OutOfRange(tv[e], ab.dtk, ab.n, o.tol2) THEN Err(ab, "ValueError")
              ELSE {Out(ab, [t |-> "sel", r |-> [e \in 1..E |->
                      IF OnGrid(tv[e], ab.dtk, o.tol2)
                      THEN [x |-> "ex", v |-> HSlot(ab, o.off + RoundDiv(tv[e], ab.dtk))[e]]
                      ELSE [x |-> "in", od |-> HSlot(ab, o.off + NewerK(tv[e], ab.dtk) + 1)[e],
                            nw |-> HSlot(ab, o.off + NewerK(tv[e], ab.dtk))[e],
                            el |-> AElapsed(tv[e], ab.dtk)]]])}
    [] o.a = "insert"     ->
         IF ~AReady(ab) THEN Err(ab, "RuntimeError")
         ELSE LET tv == IF o.tens THEN o.tauv ELSE kvec(o.tau) IN
              IF Len(o.v) # E \/ Len(tv) # E THEN Err(ab, "ValueError")
              ELSE IF \E e \in 1..E : OutOfRange(tv[e], ab.dtk, ab.n, o.tol2) THEN Err(ab, "ValueError")
              ELSE LET D == ab.dtk
                       on(e) == OnGrid(tv[e], D, o.tol2)
                       kx(e) == (o.off + RoundDiv(tv[e], D)) % ab.n
                       kn(e) == (o.off + NewerK(tv[e], D)) % ab.n
                       ko(e) == (o.off + NewerK(tv[e], D) + 1) % ab.n
                   IN {Out([ab EXCEPT !.hist = [i \in 1..ab.n |-> [e \in 1..E |->
                              IF on(e) THEN (IF kx(e) = i - 1 THEN Conv(ab.dty, o.v[e]) ELSE ab.hist[i][e])
                              ELSE IF kn(e) = i - 1 THEN Conv(ab.dty, o.nv[e])
                              ELSE IF ko(e) = i - 1 THEN Conv(ab.dty, o.pv[e])
                              ELSE ab.hist[i][e]]]],
                           [t |-> "ins", r |-> [e \in 1..E |->
                              IF on(e) THEN [x |-> "ex"]
                              ELSE [x |-> "in", od |-> HSlot(ab, o.off + NewerK(tv[e], D) + 1)[e],
                                    nw |-> HSlot(ab, o.off + NewerK(tv[e], D))[e],
                                    el |-> AElapsed(tv[e], D)]]])}
    [] o.a = "set_dt"       -> ARetime(ab, o.x, ab.durk, ab.incl)
    [] o.a = "set_duration" -> ARetime(ab, ab.dtk, o.x, ab.incl)
    [] o.a = "set_inclusive" -> ARetime(ab, ab.dtk, ab.durk, o.x)
    [] o.a = "valid"      -> {Out(ab, [t |-> "bool", b |-> ~AReady(ab) \/ ab.econ = -1 \/ E = ab.econ])}
    [] o.a = "recon"      ->
         IF o.size = -1 THEN (IF ab.econ = -1 THEN Err(ab, "ValueError") ELSE Ok([ab EXCEPT !.econ = -1]))
         ELSE IF ab.econ = -1
              THEN (IF AReady(ab) /\ E # o.size THEN Err(ab, "ValueError") ELSE Ok([ab EXCEPT !.econ = o.size]))
              ELSE IF AReady(ab)
                   THEN Ok([ab EXCEPT !.econ = o.size,
                                      !.hist = [i \in 1..ab.n |-> ResizeObs(ab.hist[i], o.size)]])
                   ELSE Ok([ab EXCEPT !.econ = o.size])

(***************************************************************************)
(* Correspondence between the layers.                                      *)
(***************************************************************************)
AbsOf(st) ==
  [kind |-> st.kind, dty |-> st.dty, n |-> st.n, dtk |-> st.dtk, durk |-> st.durk,
   incl |-> st.incl, econ |-> st.econ,
   hist |-> IF Ready(st) THEN [j \in 1..st.n |-> Slot(st, j - 1)] ELSE <<>>]

\* the pointer is a Mech notion: integer results carry no abstract content
RetAbs(r) == IF r.t = "int" THEN [t |-> "int"] ELSE r

\* Mech refines Abs at state st for operation o: every Mech outcome is an Abs outcome
RefinesAt(st, o) ==
  \A mo \in MApply(st, o) :
     \E ao \in AApply(AbsOf(st), o) : ao.st = AbsOf(mo.st) /\ ao.ret = RetAbs(mo.ret)

=============================================================================
