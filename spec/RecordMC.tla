----------------------------- MODULE RecordMC -----------------------------
(***************************************************************************)
(* Exhaustive exploration of the RecordTensor model and behaviour          *)
(* generation.  One variable: the Mech state.  The refinement obligation   *)
(* (Mech refines Abs under the mapping AbsOf) is checked as a one-step     *)
(* look-ahead invariant over ALL operations applicable in every reachable  *)
(* state, so every (state, operation) pair of the bounded model is decided *)
(* by TLC, not only the pairs along some taken transition.                 *)
(***************************************************************************)
EXTENDS RecordCore, Json

CONSTANTS
  E0,       \* elements per observation when storage is created by an operation
  Kind0,    \* initial storage kind
  Dty0,     \* initial storage data type
  Dt0, Dur0, Incl0,   \* ticks per step, duration in ticks, inclusive
  Vals,     \* value alphabet (in halves)
  PDty,     \* payload data types offered
  OpKinds,  \* families of operations offered: "basic","push","range","trange","life","time","resize","recon"
  KMul,     \* offsets range over 0..KMul*n
  Tols,     \* tolerances (in ticks; the model uses tol + 1/2)
  Offs,     \* offsets offered to select / insert
  DtSet, DurSet,      \* values offered to the temporal setters
  ESizes,   \* sizes offered to recon
  TauNear,  \* {} : every tick in range is offered as a time; otherwise only grid points + (these - 2) ticks (fine ticks:
            \* a step of 65536 ticks puts "one tick off the grid" at 1.5e-5 steps, where a relative tolerance bites)
  SentP, SentN,  \* sentinel values returned by the probe extrapolation
  MaxDepth

VARIABLE st
vars == <<st>>

PV(d) == {v \in Vals : Conv(d, v) = v}
ObsOf(d, E) == [1..E -> PV(d)]

Init0 ==
  LET n == RecordSize(Dt0, Dur0, Incl0) IN
  [kind |-> Kind0, dty |-> IF Kind0 = "none" THEN "-" ELSE Dty0, n |-> n, ptr |-> 0,
   store |-> IF Kind0 = "ready" THEN Fill(n, E0, 0) ELSE <<>>,
   dtk |-> Dt0, durk |-> Dur0, incl |-> Incl0, econ |-> -1]

Ops(s) ==
  LET E == IF Ready(s) THEN ElemsOf(s) ELSE E0
      n == s.n
      K == 0..(KMul * n)
      Ls == 1..n
      TauAll == (-2)..(s.dtk * (n - 1) + 2)
      TauS == IF TauNear = {} THEN TauAll
              ELSE {t \in {k * s.dtk + d - 2 : k \in 0..n, d \in TauNear} : t >= -2 /\ t <= s.dtk * (n - 1) + 2}
      basic ==
        UNION {{[a |-> "push", v |-> v, d |-> d, inpl |-> ip] : v \in ObsOf(d, E), ip \in BOOLEAN} : d \in PDty}
        \cup UNION {{[a |-> "write", v |-> v, d |-> d, k |-> k, inpl |-> ip] :
                 v \in ObsOf(d, E), k \in K, ip \in BOOLEAN} : d \in PDty}
        \cup {[a |-> "read", k |-> k] : k \in K}
        \cup {[a |-> "pop"], [a |-> "peek"], [a |-> "latest_get"], [a |-> "latest_del"]}
        \cup UNION {{[a |-> "latest_set", v |-> v, d |-> d] : v \in ObsOf(d, E)} : d \in PDty}
        \cup {[a |-> "incr", p |-> p] : p \in K}
        \cup {[a |-> "decr", p |-> p] : p \in K}
        \cup {[a |-> "align", i |-> i] : i \in 0..n}
        \cup {[a |-> "reset", fill |-> f] : f \in Vals \cup {-1}}
      range ==
        {[a |-> "readrange", L |-> L, k |-> k, fwd |-> f, tens |-> FALSE] :
             L \in Ls, k \in K, f \in BOOLEAN}
        \cup UNION {{[a |-> "writerange", vs |-> vs, d |-> d, k |-> k, fwd |-> f, inpl |-> ip, tens |-> FALSE] :
             vs \in [1..L -> ObsOf(d, E)], k \in K, f \in BOOLEAN, ip \in BOOLEAN} : L \in Ls, d \in PDty}
        \cup {[a |-> "writerange", vs |-> [j \in 1..(n + 1) |-> Zeros(E)], d |-> "f", k |-> 0, fwd |-> f, inpl |-> ip, tens |-> FALSE] :
             f \in BOOLEAN, ip \in BOOLEAN}   \* longer than the record: refused
      trange ==
        {[a |-> "readrange", L |-> L, kv |-> kv, fwd |-> f, tens |-> TRUE] :
             L \in Ls, kv \in [1..E -> K], f \in BOOLEAN}
        \cup UNION {{[a |-> "writerange", vs |-> vs, d |-> d, kv |-> kv, fwd |-> f, inpl |-> ip, tens |-> TRUE] :
             vs \in [1..L -> ObsOf(d, E)], kv \in [1..E -> K], f \in BOOLEAN, ip \in BOOLEAN} : L \in Ls, d \in PDty}
      life ==
        {[a |-> "initialize", E |-> E0, fill |-> f] : f \in Vals}
        \cup {[a |-> "deinit", uninit |-> u] : u \in BOOLEAN}
        \cup {[a |-> "assign_none"]}
      time ==
        {[a |-> "select", tens |-> FALSE, tau |-> t, off |-> o, tol2 |-> 2 * tl + 1] :
             t \in TauS, o \in Offs, tl \in Tols}
        \cup {[a |-> "select", tens |-> TRUE, tauv |-> tv, off |-> o, tol2 |-> 2 * tl + 1] :
             tv \in [1..E -> TauS], o \in Offs, tl \in Tols}
        \cup {[a |-> "insert", tens |-> FALSE, v |-> v, pv |-> [e \in 1..E |-> SentP], nv |-> [e \in 1..E |-> SentN],
               tau |-> t, off |-> o, tol2 |-> 2 * tl + 1, inpl |-> ip] :
             v \in ObsOf("f", E), t \in TauS, o \in Offs, tl \in Tols, ip \in BOOLEAN}
        \cup {[a |-> "insert", tens |-> TRUE, v |-> v, pv |-> [e \in 1..E |-> SentP], nv |-> [e \in 1..E |-> SentN],
               tauv |-> tv, off |-> o, tol2 |-> 2 * tl + 1, inpl |-> ip] :
             v \in ObsOf("f", E), tv \in [1..E -> TauS], o \in Offs, tl \in Tols, ip \in BOOLEAN}
      resize ==
        {[a |-> "set_dt", x |-> x] : x \in DtSet}
        \cup {[a |-> "set_duration", x |-> x] : x \in DurSet}
        \cup {[a |-> "set_inclusive", x |-> x] : x \in BOOLEAN}
      recon == {[a |-> "recon", size |-> z] : z \in ESizes \cup {-1}} \cup {[a |-> "valid"]}
      pushes == UNION {{[a |-> "push", v |-> v, d |-> d, inpl |-> ip] : v \in ObsOf(d, E), ip \in BOOLEAN} : d \in PDty}
                \cup {[a |-> "incr", p |-> 1]}
  IN (IF "basic" \in OpKinds THEN basic ELSE {})
     \cup (IF "push" \in OpKinds THEN pushes ELSE {})
     \cup (IF "range" \in OpKinds THEN range ELSE {})
     \cup (IF "trange" \in OpKinds THEN trange ELSE {})
     \cup (IF "life" \in OpKinds THEN life ELSE {})
     \cup (IF "time" \in OpKinds THEN time ELSE {})
     \cup (IF "resize" \in OpKinds THEN resize ELSE {})
     \cup (IF "recon" \in OpKinds THEN recon ELSE {})

Init == st = Init0
Next == \E o \in Ops(st) : \E mo \in MApply(st, o) : st' = mo.st
Spec == Init /\ [][Next]_vars

Bounded == TLCGet("level") <= MaxDepth

(***************************************************************************)
(* Properties                                                              *)
(***************************************************************************)
TypeOK ==
  /\ st.kind \in {"none", "empty", "uninit", "ready"}
  /\ st.n >= 1
  /\ st.n = RecordSize(st.dtk, st.durk, st.incl)               \* C13 size formula
  /\ Ready(st) => /\ Len(st.store) = st.n
                  /\ st.ptr \in 0..(st.n - 1)
                  /\ st.dty \in DTypes
                  /\ \A i \in 1..st.n : Len(st.store[i]) = Len(st.store[1])
                  /\ AllPreserved(st.dty, st.store)              \* stored values are of the record's type
  /\ ~Ready(st) => st.ptr = 0

\* C01 / C02 / C13: every operation in every reachable state refines the list model
Refinement == \A o \in Ops(st) : RefinesAt(st, o)

\* C13: a temporal setter never fails merely because storage is not initialised
SettersTotal ==
  \A o \in Ops(st) : o.a \in {"set_dt", "set_duration", "set_inclusive"} =>
     \A mo \in MApply(st, o) : mo.ret.t = "ok"

\* C02: insert followed by select at the same time(s) sees exactly what was inserted:
\* on the grid the inserted value, off the grid the two extrapolated samples
InsertThenSelect ==
  \A o \in Ops(st) : (o.a = "insert") =>
     \A mo \in MApply(st, o) : mo.ret.t = "ins" =>
        LET tv == TauVec(st, o)
            so == [a |-> "select", tens |-> TRUE, tauv |-> tv, off |-> o.off, tol2 |-> o.tol2]
        IN \A ro \in MApply(mo.st, so) :
             /\ ro.ret.t = "sel"
             /\ \A e \in 1..ElemsOf(st) :
                  IF OnGrid(tv[e], st.dtk, o.tol2)
                  THEN ro.ret.r[e] = [x |-> "ex", v |-> Conv(st.dty, o.v[e])]
                  ELSE /\ ro.ret.r[e].x = "in"
                       /\ ro.ret.r[e].od = Conv(st.dty, o.pv[e])
                       /\ ro.ret.r[e].nw = Conv(st.dty, o.nv[e])
                       /\ ro.ret.r[e].el = mo.ret.r[e].el

(***************************************************************************)
(* Behaviour generation: one JSON line per distinct state with the         *)
(* complete outcome table of that state.                                   *)
(***************************************************************************)
Emit == PrintT(ToJson([s |-> st, out |-> {[op |-> o, res |-> MApply(st, o)] : o \in Ops(st)}]))

=============================================================================
