SPECIFICATION Spec
CONSTANTS
  N0 = 3
  E0 = 1
  Kind0 = "none"
  Dty0 = "f"
  Dt0 = 4
  Dur0 = 12
  Incl0 = FALSE
  Vals = {0, 1, 2}
  PDty = {"f", "i"}
  OpKinds = {"basic", "range", "trange", "life"}
  KMul = 2
  Tols = {0}
  Offs = {0, 1}
  DtSet = {4}
  DurSet = {12}
  ESizes = {1}
  SentP = 4
  SentN = 6
  MaxDepth = 100
  TauNear = {}
INVARIANT TypeOK
INVARIANT Refinement
CHECK_DEADLOCK FALSE
