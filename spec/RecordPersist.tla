---------------------------- MODULE RecordPersist ----------------------------
(***************************************************************************)
(* Extension of the RecordTensor family (DESIGN section 7 item 2 and the    *)
(* persistence clause of C12).  Three parts, all on top of RecordCore:      *)
(*                                                                          *)
(*  1. state_dict persistence of a RecordTensor owned by a Module: two      *)
(*     owners A and B constructed with the same arguments, a checkpoint     *)
(*     slot, operations  on(who, op)  (any RecordCore operation, so the     *)
(*     owners have independent histories, pointer positions and, through    *)
(*     the temporal setters, sizes),  save(who),  load(who).                *)
(*     Mech: what torch's state_dict / load_state_dict (strict) and         *)
(*     inferno's Module.get/set_extra_state do: the data tensor is a key    *)
(*     iff it is a parameter or a persistent buffer that is not None, the   *)
(*     pointer is always an extra, step time / duration / inclusive are     *)
(*     extras iff persist_temporal, the constraint dictionary iff           *)
(*     persist_constraints; a load copies the tensor (converted to the      *)
(*     target's data type) iff both sides have the key with equal shapes,   *)
(*     ALWAYS updates the extras, and raises RuntimeError on a missing /    *)
(*     unexpected key or a shape mismatch - after the extras were updated   *)
(*     (named deviation RefusedLoadStillLoadsExtras).                       *)
(*     Abs: the property - after an accepted load into a target of the      *)
(*     same current configuration the target IS the source at save time     *)
(*     (every read, the pointer, every future push); what is not persisted  *)
(*     keeps the target's own value.                                        *)
(*  2. finalisers: see the Fin* operators (attribute removal on collection).*)
(*  3. .value = tensor and initialize(dtype=, fill=) over all storage       *)
(*     kinds (XApply), beyond the "life" family of RecordMC.                *)
(***************************************************************************)
EXTENDS RecordCore

(***************************************************************************)
(* Part 3: single-record operations beyond RecordCore.MApply                *)
(* cfg = [pdata, pcons, ptmp, param, live]                                  *)
(***************************************************************************)
ConvStore(d, store) == [i \in DOMAIN store |-> ConvObs(d, store[i])]

\* record.value = <tensor of data type o.d holding o.vs, n' x E'>  (o.kind = "ready")
\* record.value = <ignored value>  (o.kind "empty" / "uninit"; None is RecordCore's assign_none)
\* live: refused with ValueError unless ignored or compatible with {0: n, (1: econ)};
\* the pointer is kept unless the new value is ignored; the data type is the new tensor's
XAssign(st, o, cfg) ==
  IF o.kind = "ready"
  THEN LET np == Len(o.vs)
           Ep == Len(o.vs[1])
           compat == np = st.n /\ (st.econ = -1 \/ Ep = st.econ)
       IN IF cfg.live /\ ~compat THEN Err(st, "ValueError")
          ELSE IF cfg.param /\ st.kind = "uninit"
          THEN \* AssignToUninitParamStaysUninit (named deviation): the tensor goes to .data of the
               \* UninitializedParameter, which stays uninitialised (only its data type changes)
               Ok([st EXCEPT !.dty = o.d, !.ptr = 0])
          ELSE Ok([st EXCEPT !.kind = "ready", !.dty = o.d, !.store = ConvStore(o.d, o.vs)])
  ELSE IF cfg.param /\ st.kind = "uninit" /\ o.kind = "empty"
  THEN Ok([st EXCEPT !.dty = o.d, !.ptr = 0])
  ELSE Ok([st EXCEPT !.kind = o.kind, !.dty = o.d, !.store = <<>>, !.ptr = 0])

\* initialize(shape, dtype = o.dt ("-": None), fill): the data type is the override, else
\* the storage's own, else (no storage at all) the python type of the fill value
XFillType(o) == IF o.fk = "b" THEN "b" ELSE FillType(o.fill)
XInitialize(st, o) ==
  LET d == IF o.dt # "-" THEN o.dt ELSE IF st.kind = "none" THEN XFillType(o) ELSE st.dty
  IN Ok([st EXCEPT !.kind = "ready", !.ptr = 0, !.dty = d, !.store = Fill(st.n, o.E, Conv(d, o.fill))])

XApply(st, o, cfg) ==
  CASE o.a = "assign"       -> XAssign(st, o, cfg)
    [] o.a = "initialize_d" -> XInitialize(st, o)
    [] OTHER                -> MApply(st, o)

\* a record the implementation can be left in after a non-live assignment or a refused
\* load: storage length or pointer disagree with the size constraint.  The model reports
\* such states faithfully but does not explore beyond them.
Broken(r) == Ready(r) /\ (Len(r.store) # r.n \/ r.ptr >= r.n \/ r.ptr < 0)

(***************************************************************************)
(* Part 1: persistence.  s = [A, B, snap, cfg]                              *)
(*   snap = [some, data "no"|"empty"|"ready", store, ptr, tmp, dtk, durk,   *)
(*           incl, con, n, econ, src]    src: GHOST, the whole source record *)
(*           at save time (what the property compares with)                 *)
(***************************************************************************)
NoSnap(r0) == [some |-> FALSE, data |-> "no", store |-> <<>>, ptr |-> 0, tmp |-> FALSE, dtk |-> 0, durk |-> 0,
               incl |-> FALSE, con |-> FALSE, n |-> 0, econ |-> -1, src |-> r0]

\* is the data tensor a key of the state dictionary
KeyOf(r, cfg) == r.kind # "none" /\ (cfg.pdata \/ cfg.param)
\* shape of the tensor as torch sees it: uninitialised and empty storage is (0,)
ShapeOf(kind, store) == IF kind = "ready" THEN <<Len(store), Len(store[1])>> ELSE <<0>>

\* torch.save(owner.state_dict()): an uninitialised buffer / parameter that is a key cannot
\* be exported (torch raises ValueError from detach)
PSave(s, who) ==
  LET r == s[who]
      key == KeyOf(r, s.cfg)
  IN IF key /\ r.kind = "uninit" THEN Err(s, "ValueError")
     ELSE Ok([s EXCEPT !.snap =
            [some |-> TRUE,
             data |-> IF ~key THEN "no" ELSE IF Ready(r) THEN "ready" ELSE "empty",
             store |-> IF key /\ Ready(r) THEN r.store ELSE <<>>,
             ptr |-> r.ptr,
             tmp |-> s.cfg.ptmp,
             dtk |-> IF s.cfg.ptmp THEN r.dtk ELSE 0,
             durk |-> IF s.cfg.ptmp THEN r.durk ELSE 0,
             incl |-> IF s.cfg.ptmp THEN r.incl ELSE FALSE,
             con |-> s.cfg.pcons,
             n |-> IF s.cfg.pcons THEN r.n ELSE 0,
             econ |-> IF s.cfg.pcons THEN r.econ ELSE -1,
             src |-> r]])

\* owner.load_state_dict(torch.load(...)) with the default strict = True
LoadCopies(t, sn, cfg) ==
  KeyOf(t, cfg) /\ sn.data # "no" /\ ShapeOf(t.kind, t.store) = ShapeOf(sn.data, sn.store)
LoadAccepted(t, sn, cfg) ==
  /\ KeyOf(t, cfg) <=> sn.data # "no"                    \* no missing / unexpected key
  /\ KeyOf(t, cfg) => LoadCopies(t, sn, cfg)             \* no shape mismatch
LoadedRec(t, sn, cfg) ==
  LET t1 == [t EXCEPT !.ptr = sn.ptr,
                      !.dtk = IF sn.tmp THEN sn.dtk ELSE @,
                      !.durk = IF sn.tmp THEN sn.durk ELSE @,
                      !.incl = IF sn.tmp THEN sn.incl ELSE @,
                      !.n = IF sn.con THEN sn.n ELSE @,
                      !.econ = IF sn.con THEN sn.econ ELSE @]
  IN IF LoadCopies(t, sn, cfg) /\ Ready(t) THEN [t1 EXCEPT !.store = ConvStore(t.dty, sn.store)] ELSE t1
PLoad(s, who) ==
  LET t == s[who]
      s2 == [s EXCEPT ![who] = LoadedRec(t, s.snap, s.cfg)]
  IN IF LoadAccepted(t, s.snap, s.cfg) THEN Ok(s2)
     ELSE Err(s2, "RuntimeError")          \* RefusedLoadStillLoadsExtras

PApply(s, o) ==
  CASE o.a = "on"   -> {Out([s EXCEPT ![o.who] = x.st], x.ret) : x \in XApply(s[o.who], o.op, s.cfg)}
    [] o.a = "save" -> PSave(s, o.who)
    [] o.a = "load" -> PLoad(s, o.who)

(***************************************************************************)
(* Abs: what a checkpoint promises                                          *)
(***************************************************************************)
SameConfig(t, r) == /\ t.n = r.n /\ t.dtk = r.dtk /\ t.durk = r.durk /\ t.incl = r.incl /\ t.econ = r.econ
                    /\ t.dty = r.dty
Accepted(x) == x.ret.t = "ok"
PushLike(o) == o.a \in {"push", "incr", "pop", "peek", "read", "readrange", "select"}

\* accepted load of a checkpoint whose data is persisted, into a target of the same current
\* configuration with initialised storage: the target becomes the source as it was at save
\* time - hence every read, the pointer and every later operation agree
LoadRestoresAt(s, who) ==
  LET t == s[who]
      src == s.snap.src
  IN \A x \in PLoad(s, who) :
       (Accepted(x) /\ Ready(src) /\ KeyOf(src, s.cfg) /\ SameConfig(t, src) /\ ~Broken(t) /\ ~Broken(src))
         => /\ x.st[who] = src
            /\ AbsOf(x.st[who]) = AbsOf(src)
\* ... with persist_temporal and persist_constraints the configuration travels too: the
\* target need not have been resized like the source
LoadRestoresConfigAt(s, who) ==
  LET t == s[who]
      src == s.snap.src
  IN \A x \in PLoad(s, who) :
       (Accepted(x) /\ s.cfg.ptmp /\ s.cfg.pcons /\ Ready(src) /\ KeyOf(src, s.cfg) /\ t.dty = src.dty /\ ~Broken(src))
         => x.st[who] = src
\* the pointer is always persisted
LoadPointerAt(s, who) == \A x \in PLoad(s, who) : Accepted(x) => x.st[who].ptr = s.snap.src.ptr
\* what is not persisted keeps the target's own value; the other owner is never touched
LoadKeepsRestAt(s, who) ==
  LET t == s[who]
      other == IF who = "A" THEN "B" ELSE "A"
  IN \A x \in PLoad(s, who) :
       /\ x.st[other] = s[other] /\ x.st.snap = s.snap
       /\ ~s.cfg.ptmp => (x.st[who].dtk = t.dtk /\ x.st[who].durk = t.durk /\ x.st[who].incl = t.incl)
       /\ ~s.cfg.pcons => (x.st[who].n = t.n /\ x.st[who].econ = t.econ)
       /\ x.st[who].kind = t.kind /\ x.st[who].dty = t.dty
       /\ ~KeyOf(t, s.cfg) => x.st[who].store = t.store
\* a load of a consistent checkpoint into a consistent target of the same configuration
\* never leaves a broken record
LoadSafeAt(s, who) ==
  \A x \in PLoad(s, who) :
     (Accepted(x) /\ SameConfig(s[who], s.snap.src) /\ ~Broken(s[who]) /\ ~Broken(s.snap.src)) => ~Broken(x.st[who])
\* save never changes an owner
SaveKeepsAt(s, who) == \A x \in PSave(s, who) : x.st.A = s.A /\ x.st.B = s.B /\ (~Accepted(x) => x.st = s)

\* hazards of the code as written (expected to FAIL; documented, not demanded by C12):
\* a refused load has no side effects
RefusedLoadNoSideEffectsAt(s, who) == \A x \in PLoad(s, who) : ~Accepted(x) => x.st = s
\* after an accepted load the record size is the one its temporal configuration demands
SizeFormulaAfterLoadAt(s, who) ==
  \A x \in PLoad(s, who) :
     (Accepted(x) /\ s[who].n = RecordSize(s[who].dtk, s[who].durk, s[who].incl)
        /\ s.snap.src.n = RecordSize(s.snap.src.dtk, s.snap.src.durk, s.snap.src.incl))
       => x.st[who].n = RecordSize(x.st[who].dtk, x.st[who].durk, x.st[who].incl)

(***************************************************************************)
(* Part 2: finalisers.  f = [attrs, objs, owner, other, wipes]              *)
(*   attrs   per tensor attribute name: which of the attributes exist on    *)
(*           the owner ("attr" the tensor object itself; "data",            *)
(*           "constraints", "dt", "duration", "inclusive", "pointer" the    *)
(*           linked attributes) - a record of booleans                      *)
(*   objs    the living tensor objects in creation order: [name, rec        *)
(*           (RecordTensor, else ShapedTensor), bound (it is the owner's    *)
(*           attribute), held (the harness keeps a reference)]              *)
(*   owner   TRUE while the owner module exists                             *)
(*   other   the owner's unrelated attributes are intact                    *)
(*   wipes   named deviation FinalizerWipesSuccessor (the code before the   *)
(*           repair): the finaliser deletes the linked attribute NAMES even *)
(*           when a newer tensor of the same name has registered them       *)
(***************************************************************************)
Suffixes == {"attr", "data", "constraints", "dt", "duration", "inclusive", "pointer"}
LinkedOf(rec) == IF rec THEN {"data", "constraints", "dt", "duration", "inclusive", "pointer"}
                 ELSE {"data", "constraints"}
NoAttrs == [k \in Suffixes |-> FALSE]
FinInit(names, wipes) == [attrs |-> [nm \in names |-> NoAttrs], objs |-> <<>>, owner |-> TRUE, other |-> TRUE,
                          wipes |-> wipes]

\* objects without any reference are finalised: the finaliser deletes, if the owner still
\* exists, the linked attributes the object registered - except those a newer tensor
\* attribute bound under the same name has registered since
FinCollect(f) ==
  LET dead == {i \in DOMAIN f.objs : ~f.objs[i].bound /\ ~f.objs[i].held}
      succ(nm) == {i \in DOMAIN f.objs : f.objs[i].name = nm /\ f.objs[i].bound /\ ~(i \in dead)}
      kept(nm) == IF f.wipes THEN {} ELSE UNION {LinkedOf(f.objs[i].rec) : i \in succ(nm)}
      gone(nm) == UNION {LinkedOf(f.objs[i].rec) : i \in {j \in dead : f.objs[j].name = nm}} \ kept(nm)
      alive(i) == ~(i \in dead)
  IN [f EXCEPT !.objs = SelectSeq([i \in DOMAIN f.objs |-> [f.objs[i] EXCEPT !.held = @ /\ alive(i)]],
                                  LAMBDA ob : ob.bound \/ ob.held),
               !.attrs = IF f.owner
                         THEN [nm \in DOMAIN f.attrs |-> [k \in Suffixes |-> f.attrs[nm][k] /\ ~(k \in gone(nm))]]
                         ELSE f.attrs]

Unbind(objs, nm) == [i \in DOMAIN objs |-> IF objs[i].name = nm THEN [objs[i] EXCEPT !.bound = FALSE] ELSE objs[i]]

\* X.create(owner, name, ...): registers the linked attributes (overwriting same-named
\* ones), binds the attribute; the object bound before loses that reference
FinCreate(f, nm, rec, hold) ==
  LET f1 == [f EXCEPT !.objs = Append(Unbind(f.objs, nm), [name |-> nm, rec |-> rec, bound |-> TRUE, held |-> hold]),
                      !.attrs[nm] = [k \in Suffixes |-> @[k] \/ k \in LinkedOf(rec) \/ k = "attr"]]
  IN Ok(FinCollect(f1))
\* del owner.<name>
FinDelAttr(f, nm) ==
  IF ~f.attrs[nm]["attr"] THEN Err(f, "AttributeError")
  ELSE Ok(FinCollect([f EXCEPT !.attrs[nm]["attr"] = FALSE, !.objs = Unbind(f.objs, nm)]))
\* the harness drops the references it holds to the objects of that name; gc.collect()
FinDrop(f, nm) ==
  Ok(FinCollect([f EXCEPT !.objs = [i \in DOMAIN f.objs |-> IF f.objs[i].name = nm THEN [f.objs[i] EXCEPT !.held = FALSE]
                                                              ELSE f.objs[i]]]))
\* the owner is collected first (objects held by the harness survive it; nothing is
\* observable on the owner any more)
FinDelOwner(f) ==
  Ok(FinCollect([f EXCEPT !.owner = FALSE, !.attrs = [nm \in DOMAIN f.attrs |-> NoAttrs],
                          !.objs = [i \in DOMAIN f.objs |-> [f.objs[i] EXCEPT !.bound = FALSE]]]))

FinApply(f, o) ==
  CASE o.a = "create"    -> FinCreate(f, o.name, o.rec, o.hold)
    [] o.a = "del_attr"  -> FinDelAttr(f, o.name)
    [] o.a = "drop"      -> FinDrop(f, o.name)
    [] o.a = "del_owner" -> FinDelOwner(f)

\* Abs: the attribute bound under a name has every linked attribute of its class (it is
\* usable); a name without any living object leaves nothing behind; nothing else on the
\* owner is ever touched; no operation raises
FinBound(f, nm) == {i \in DOMAIN f.objs : f.objs[i].name = nm /\ f.objs[i].bound}
FinUsable(f) == \A nm \in DOMAIN f.attrs : \A i \in FinBound(f, nm) :
                   \A k \in LinkedOf(f.objs[i].rec) \cup {"attr"} : f.attrs[nm][k]
FinClean(f) == \A nm \in DOMAIN f.attrs :
                   (\A i \in DOMAIN f.objs : f.objs[i].name # nm) => f.attrs[nm] = NoAttrs
FinOnlyOwn(f) == f.other
=============================================================================
