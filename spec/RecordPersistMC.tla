--------------------------- MODULE RecordPersistMC ---------------------------
(***************************************************************************)
(* Exhaustive exploration and behaviour generation for RecordPersist.       *)
(* Mode "persist": two owners + checkpoint (parts 1 and 3); Mode "final":   *)
(* the finaliser machine (part 2).  Depth bound by TLCGet("level") in the   *)
(* action: run with ONE worker.                                             *)
(***************************************************************************)
EXTENDS RecordPersist, Json

CONSTANTS
  Mode,                       \* "persist" | "final"
  \* ---- persist
  E0, Kind0, Dty0, Dt0, Dur0, Incl0,      \* both owners are constructed with these
  PData, PCons, PTmp, Param, Live,        \* persist_data / _constraints / _temporal, Parameter storage, live
  ValsA, ValsB,               \* values (in halves) owner A / B pushes
  DurSet,                     \* durations offered to set_duration (ticks)
  OpKinds,                    \* "push","incr","resize","life","ckpt","assign","init"
  \* ---- final
  Names, Wipes,               \* tensor attribute names; deviation FinalizerWipesSuccessor
  MaxDepth

VARIABLE st
vars == <<st>>

Cfg == [pdata |-> PData, pcons |-> PCons, ptmp |-> PTmp, param |-> Param, live |-> Live]
Rec0 ==
  LET n == RecordSize(Dt0, Dur0, Incl0) IN
  [kind |-> Kind0, dty |-> IF Kind0 = "none" THEN "-" ELSE Dty0, n |-> n, ptr |-> 0,
   store |-> IF Kind0 = "ready" THEN Fill(n, E0, 0) ELSE <<>>,
   dtk |-> Dt0, durk |-> Dur0, incl |-> Incl0, econ |-> -1]
PInit0 == [A |-> Rec0, B |-> Rec0, snap |-> NoSnap(Rec0), cfg |-> Cfg]

Owners == {"A", "B"}
ObsOfV(V, E) == [1..E -> V]
RecOps(r, who) ==
  LET E == IF Ready(r) THEN ElemsOf(r) ELSE E0
      V == IF who = "A" THEN ValsA ELSE ValsB
      d == IF r.dty \in DTypes THEN r.dty ELSE "f"
      Ns == {RecordSize(Dt0, x, Incl0) : x \in DurSet}
  IN (IF "push" \in OpKinds THEN {[a |-> "push", v |-> v, d |-> d, inpl |-> FALSE] : v \in ObsOfV(V, E)} ELSE {})
     \cup (IF "incr" \in OpKinds THEN {[a |-> "incr", p |-> 1]} ELSE {})
     \cup (IF "resize" \in OpKinds THEN {[a |-> "set_duration", x |-> x] : x \in DurSet} ELSE {})
     \cup (IF "life" \in OpKinds
           THEN {[a |-> "initialize", E |-> E0, fill |-> 0]} \cup {[a |-> "deinit", uninit |-> u] : u \in BOOLEAN}
                \cup (IF Param THEN {} ELSE {[a |-> "assign_none"]})
           ELSE {})
     \cup (IF "assign" \in OpKinds
           THEN UNION {{[a |-> "assign", kind |-> "ready", d |-> dd, vs |-> [i \in 1..np |-> [e \in 1..Ep |-> Conv(dd, v)]]] :
                          np \in Ns, Ep \in {E0, E0 + 1}, v \in V} : dd \in {"f", "i"}}
                \cup {[a |-> "assign", kind |-> k, d |-> dd, vs |-> <<>>] : k \in {"empty", "uninit"}, dd \in {"f", "i"}}
                \cup (IF Param THEN {} ELSE {[a |-> "assign_none"]})
                \cup {[a |-> "recon", size |-> z] : z \in {E0, -1}}
           ELSE {})
     \cup (IF "init" \in OpKinds
           THEN {[a |-> "initialize_d", E |-> Ep, dt |-> dt, fill |-> f, fk |-> "n"] :
                    Ep \in {E0, E0 + 1}, dt \in {"-", "f", "i", "b"}, f \in {0, 3, 4}}
                \cup {[a |-> "initialize_d", E |-> E0, dt |-> dt, fill |-> f, fk |-> "b"] : dt \in {"-", "i"}, f \in {0, 2}}
                \cup {[a |-> "deinit", uninit |-> u] : u \in BOOLEAN}
                \cup (IF Param THEN {} ELSE {[a |-> "assign_none"]})
           ELSE {})

POps(s) ==
  UNION {{[a |-> "on", who |-> w, op |-> o] : o \in RecOps(s[w], w)} : w \in {w \in Owners : ~Broken(s[w])}}
  \cup (IF "ckpt" \in OpKinds
        THEN {[a |-> "save", who |-> w] : w \in {w \in Owners : ~Broken(s[w])}}
             \cup (IF s.snap.some THEN {[a |-> "load", who |-> w] : w \in {w \in Owners : ~Broken(s[w])}} ELSE {})
        ELSE {})

FOps(f) ==
  IF ~f.owner THEN {[a |-> "drop", name |-> nm] : nm \in Names}
  ELSE \* creating a tensor attribute under a name is specified only while no tensor object of that name
       \* lives (bound or still referenced): the constructors register their linked attributes with
       \* register_buffer / register_extra / setattr, which refuse or clobber what a living predecessor
       \* registered, and the predecessor's finaliser then removes the attributes by NAME.  The hazard run
       \* (Wipes = TRUE) keeps offering it to show the consequence at specification level.
       {[a |-> "create", name |-> nm, rec |-> r, hold |-> h] :
            nm \in {n \in Names : f.wipes \/ \A i \in DOMAIN f.objs : f.objs[i].name # n}, r \in BOOLEAN, h \in BOOLEAN}
       \cup {[a |-> "del_attr", name |-> nm] : nm \in Names}
       \cup {[a |-> "drop", name |-> nm] : nm \in Names}
       \cup {[a |-> "del_owner"]}

Ops(s) == IF Mode = "persist" THEN POps(s) ELSE FOps(s)
Apply(s, o) == IF Mode = "persist" THEN PApply(s, o) ELSE FinApply(s, o)

Init == st = IF Mode = "persist" THEN PInit0 ELSE FinInit(Names, Wipes)
Next == /\ TLCGet("level") <= MaxDepth
        /\ \E o \in Ops(st) : \E x \in Apply(st, o) : st' = x.st
Spec == Init /\ [][Next]_vars

(***************************************************************************)
(* Properties (persist)                                                    *)
(***************************************************************************)
Loads == IF Mode = "persist" /\ st.snap.some THEN {w \in Owners : ~Broken(st[w])} ELSE {}
\* C12: an accepted load into a target of the same configuration restores the source
LoadRestores == \A w \in Loads : LoadRestoresAt(st, w)
LoadRestoresConfig == \A w \in Loads : LoadRestoresConfigAt(st, w)
LoadPointer == \A w \in Loads : LoadPointerAt(st, w)
LoadKeepsRest == \A w \in Loads : LoadKeepsRestAt(st, w)
LoadSafe == \A w \in Loads : LoadSafeAt(st, w)
SaveKeeps == Mode = "persist" => \A w \in Owners : SaveKeepsAt(st, w)
\* after a restore the two owners have the same future: every read / push-like operation
\* gives the same result and the same history
SameFuture ==
  \A w \in Loads : \A x \in PLoad(st, w) :
     (Accepted(x) /\ Ready(st.snap.src) /\ KeyOf(st.snap.src, st.cfg) /\ SameConfig(st[w], st.snap.src)
        /\ ~Broken(st.snap.src))
       => \A o \in RecOps(st.snap.src, w) :
            {[r |-> y.ret, h |-> AbsOf(y.st)] : y \in XApply(x.st[w], o, st.cfg)}
              = {[r |-> y.ret, h |-> AbsOf(y.st)] : y \in XApply(st.snap.src, o, st.cfg)}
\* every record that is not reported broken is well formed
WellFormed ==
  Mode = "persist" =>
    \A w \in Owners : (Ready(st[w]) /\ ~Broken(st[w])) =>
       /\ Len(st[w].store) = st[w].n /\ st[w].ptr \in 0..(st[w].n - 1)
       /\ \A i \in 1..st[w].n : Len(st[w].store[i]) = Len(st[w].store[1])
       /\ AllPreserved(st[w].dty, st[w].store)
\* hazards (expected to fail, see RecordPersist)
RefusedLoadNoSideEffects == \A w \in Loads : RefusedLoadNoSideEffectsAt(st, w)
SizeFormulaAfterLoad == \A w \in Loads : SizeFormulaAfterLoadAt(st, w)
\* part 3: a live record never accepts a value that breaks it; assignment keeps the pointer
AssignProps ==
  Mode = "persist" =>
    \A w \in {w \in Owners : ~Broken(st[w])} : \A o \in RecOps(st[w], w) : o.a = "assign" =>
       \A x \in XApply(st[w], o, st.cfg) :
          /\ (st.cfg.live /\ Accepted(x)) => ~Broken(x.st)
          /\ ~Accepted(x) => x.st = st[w]
          /\ (Accepted(x) /\ o.kind = "ready" /\ ~(st.cfg.param /\ st[w].kind = "uninit")) => (x.st.ptr = st[w].ptr /\ x.st.store = ConvStore(o.d, o.vs) /\ x.st.n = st[w].n)
          /\ (Accepted(x) /\ o.kind # "ready") => (x.st.ptr = 0 /\ ~Ready(x.st))

(***************************************************************************)
(* Properties (final)                                                      *)
(***************************************************************************)
FinalUsable == Mode = "final" => FinUsable(st)
FinalClean == Mode = "final" => FinClean(st)
FinalOnlyOwn == Mode = "final" => FinOnlyOwn(st)
FinalNoRaise == Mode = "final" =>
  \A o \in Ops(st) : \A x \in Apply(st, o) : (x.ret.t = "ok" \/ (o.a = "del_attr" /\ ~st.attrs[o.name]["attr"]))

Emit == PrintT(ToJson([s |-> st, out |-> {[op |-> o, res |-> Apply(st, o)] : o \in Ops(st)}]))
=============================================================================
