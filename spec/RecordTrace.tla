---------------------------- MODULE RecordTrace ----------------------------
(***************************************************************************)
(* Trace specification for RecordTensor executions recorded from the real  *)
(* implementation (direction B and C).  A batch file holds many traces:    *)
(*   [ [hdr |-> initial state + waive, ev |-> << [op, ret, st], ... >>] ]   *)
(* Every event must be an outcome of MApply on the current state: same     *)
(* return value (RetOK), same projected state (StateOK), and the step must *)
(* refine the list model (AbsOK).  Lines listed in hdr.waive adopt the     *)
(* logged state instead (used only to examine the rest of a trace after a  *)
(* rejection has been reported).                                           *)
(***************************************************************************)
EXTENDS RecordCore, Json, IOUtils, TLCExt

Traces == JsonDeserialize(IOEnv.TRACE_FILE)

VARIABLES tid, l, st
vars == <<tid, l, st>>

NT == Len(Traces)
Evs(t) == Traces[t].ev
MaxI(a, b) == IF a >= b THEN a ELSE b
Waived(t) == {Traces[t].hdr.waive[i] : i \in DOMAIN Traces[t].hdr.waive}

ASSUME \A i \in 1..NT : TLCSet(100 + i, 0)

\* operations carry oracle inputs for quantities the integer model cannot recompute:
\* nq = ceil(duration / dt) as evaluated in IEEE arithmetic by the harness
ApplyT(s, o) ==
  IF o.a \in {"set_dt", "set_duration", "set_inclusive"} /\ "nq" \in DOMAIN o
  THEN LET dtk == IF o.a = "set_dt" THEN o.x ELSE s.dtk
           durk == IF o.a = "set_duration" THEN o.x ELSE s.durk
           incl == IF o.a = "set_inclusive" THEN o.x ELSE s.incl
           n2 == Max(o.nq + (IF incl THEN 1 ELSE 0), 1)
           s1 == [s EXCEPT !.dtk = dtk, !.durk = durk, !.incl = incl]
       IN IF n2 = s.n THEN Ok(s1)
          ELSE IF Ready(s) THEN Ok(MResizeSt(s1, n2)) ELSE Ok([s1 EXCEPT !.n = n2])
  ELSE MApply(s, o)

RefOK(s, o) ==
  IF o.a \in {"set_dt", "set_duration", "set_inclusive"} /\ "nq" \in DOMAIN o THEN TRUE
  ELSE RefinesAt(s, o)

Init == /\ tid \in 1..NT
        /\ l = 1
        /\ st = Traces[tid].hdr.init

Matches(e) == {mo \in ApplyT(st, e.op) : mo.ret = e.ret /\ mo.st = e.st}

Step ==
  /\ l <= Len(Evs(tid))
  /\ LET e == Evs(tid)[l] IN
       IF l \in Waived(tid)
       THEN st' = e.st
       ELSE /\ RefOK(st, e.op)
            /\ \E mo \in Matches(e) : st' = mo.st
  /\ l' = l + 1
  /\ UNCHANGED tid

TraceSpec == Init /\ [][Step]_vars

\* bookkeeping: longest matched prefix per trace, and a diagnostic line where a
\* state has an event that no outcome explains
Track ==
  /\ TLCSet(100 + tid, MaxI(TLCGet(100 + tid), l))
  /\ IF l <= Len(Evs(tid)) /\ ~(l \in Waived(tid))
        /\ (Matches(Evs(tid)[l]) = {} \/ ~RefOK(st, Evs(tid)[l].op))
     THEN PrintT(ToJson([diag |-> tid, l |-> l, refok |-> RefOK(st, Evs(tid)[l].op),
                         expected |-> ApplyT(st, Evs(tid)[l].op), state |-> st]))
     ELSE TRUE

Post ==
  PrintT(ToJson([rejected |-> {<<i, TLCGet(100 + i)>> : i \in {j \in 1..NT : TLCGet(100 + j) <= Len(Evs(j))}},
                 total |-> NT]))
=============================================================================
