--------------------------- MODULE ReducersCore ---------------------------
(***************************************************************************)
(* Functional core of the fold reducers (C07):                              *)
(*   inferno/observe/reducers/{base,trace,general,stats}.py and the         *)
(*   functional one-step recurrences inferno/core/trace.py.                 *)
(*                                                                          *)
(*   Mech  - what the code does: `_initial` flag, lazily initialised ring   *)
(*           (a RecordTensor: the ring operators of RecordCore are reused   *)
(*           with symbolic values as elements), the per-class fold          *)
(*           RECURRENCE, view = time-indexed select + the class's           *)
(*           interpolation rule, dump = align(0) + flip, clear.             *)
(*   Abs   - what C07 states: the list of observations since the last clear *)
(*           and the CLOSED FORM of every reducer as a function of that     *)
(*           list; "the value recorded k steps ago" is the closed form of   *)
(*           the list without its k newest entries (the fill value before   *)
(*           the first observation).                                        *)
(*                                                                          *)
(* Values: traces / pass-through / EMA are SymVal bags; the event reducer   *)
(* holds a time in ticks or inf / nan; the cumulative average an exact      *)
(* rational.  An observation of one element is [x |-> integer value in      *)
(* units, m |-> the element matches the criterion / target / condition].    *)
(***************************************************************************)
EXTENDS RecordCore, SymVal

TraceKinds == {"near", "cum", "snear", "scum", "cnear", "ccum"}
CumKinds   == {"cum", "scum", "ccum"}
ScaledKinds == {"snear", "scum", "cnear", "ccum"}
EventKinds == {"ev_inf", "ev_nan", "ev_zero"}
AllKinds   == TraceKinds \cup EventKinds \cup {"pass", "ema", "ca"}

\* ---- event-reducer values
EvT(t) == [k |-> "t", t |-> t]
EvInit(rk) == CASE rk = "ev_inf" -> [k |-> "inf"] [] rk = "ev_nan" -> [k |-> "nan"] [] OTHER -> EvT(0)
EvAdd(s, d) == IF s.k = "t" THEN EvT(s.t + d) ELSE s          \* inf + d = inf, nan + d = nan

\* ---- exact rationals (cumulative average), always reduced, den >= 1
RECURSIVE GCD(_, _)
GCD(a, b) == IF b = 0 THEN (IF a < 0 THEN -a ELSE a) ELSE GCD(b, a % b)
Rat(n, d) == LET g == GCD(n, d) IN [num |-> n \div g, den |-> d \div g]      \* d >= 1
RatAdd(p, q) == Rat(p.num * q.den + q.num * p.den, p.den * q.den)
RatSub(p, q) == Rat(p.num * q.den - q.num * p.den, p.den * q.den)
RatDivInt(p, n) == Rat(p.num, p.den * n)                                  \* n >= 1

FillVal(rk) == IF rk \in EventKinds THEN EvInit(rk)
               ELSE IF rk = "ca" THEN Rat(0, 1) ELSE Zero

(***************************************************************************)
(* The fold recurrences, as written in core/trace.py, general.py, stats.py. *)
(* D = ticks per step.                                                      *)
(***************************************************************************)
Amp(rk, o) == IF rk \in ScaledKinds
              THEN Plus(Mono("A", "q", 0, 1), Mono("S", "q", 0, o.x))     \* scale * obs + amplitude
              ELSE Mono("A", "q", 0, 1)
Masked(rk, o) == IF o.m THEN Amp(rk, o) ELSE Zero                           \* (..) * mask

\* first observation (state is None)
Fold0(rk, o) ==
  CASE rk \in TraceKinds -> Masked(rk, o)
    [] rk \in EventKinds -> IF o.m THEN EvT(0) ELSE EvInit(rk)
    [] rk = "pass"       -> Mono("U", "1", 0, o.x)
    [] rk = "ema"        -> Mono("U", "r", 0, o.x)
    [] rk = "ca"         -> Rat(o.x, 1)

\* later observations; s the previous state, cnt the observation count INCLUDING this one
Fold1(rk, o, s, D, cnt) ==
  CASE rk \in CumKinds   -> Plus(Decay(s, D), Masked(rk, o))               \* decay*trace + amp*mask
    [] rk \in TraceKinds \ CumKinds
                         -> IF o.m THEN Amp(rk, o) ELSE Decay(s, D)         \* where(mask, amp, decay*trace)
    [] rk \in EventKinds -> IF o.m THEN EvT(0) ELSE EvAdd(s, D)             \* where(crit, 0, state + dt)
    [] rk = "pass"       -> Mono("U", "1", 0, o.x)
    [] rk = "ema"        -> Plus(Mono("UA", "r", 0, o.x), Decay(s, D))      \* alpha*obs + (1-alpha)*level
    [] rk = "ca"         -> RatAdd(s, RatDivInt(RatSub(Rat(o.x, 1), s), cnt))  \* s + (obs - s)/count

\* the class's interpolation rule between the older and the newer sample,
\* el ticks after the older one
Interp(rk, od, nw, el) ==
  CASE rk \in TraceKinds -> Decay(od, el)                 \* interp_expdecay: prev * exp(-el/tau)
    [] rk \in EventKinds -> EvAdd(od, el)                 \* prev + sample_at
    [] rk = "pass"       -> od                            \* interp_previous
    [] OTHER             -> [lin |-> TRUE, od |-> od, nw |-> nw, el |-> el]   \* interp_linear

(***************************************************************************)
(* Mech.  ms = [rk, init, cnt, ring]; ring is a RecordCore Mech state.      *)
(***************************************************************************)
RingInit(dtk, durk, incl) ==
  [kind |-> "empty", dty |-> "f", n |-> RecordSize(dtk, durk, incl), ptr |-> 0, store |-> <<>>,
   dtk |-> dtk, durk |-> durk, incl |-> incl, econ |-> -1]
MInit(rk, dtk, durk, incl) == [rk |-> rk, init |-> TRUE, cnt |-> 0, ring |-> RingInit(dtk, durk, incl)]

None == [t |-> "none"]

\* FoldReducer.forward
RObserve(ms, v, inpl) ==
  LET E == Len(v)
      D == ms.ring.dtk
      cnt1 == IF ms.rk = "ca" THEN ms.cnt + 1 ELSE 0
      prev == IF ms.init THEN <<>> ELSE Slot(ms.ring, 1)                    \* self.peek()
      res == [e \in 1..E |-> IF ms.init THEN Fold0(ms.rk, v[e])
                             ELSE Fold1(ms.rk, v[e], prev[e], D, cnt1)]
      ring1 == IF ms.init /\ ~Ready(ms.ring)                                \* data_.initialize(shape, fill)
               THEN [ms.ring EXCEPT !.kind = "ready", !.ptr = 0,
                                    !.store = Fill(ms.ring.n, E, FillVal(ms.rk))]
               ELSE ms.ring
      ring2 == MIncrSt(MWriteSt(ring1, res, 0, inpl), 1)                    \* data_.push
  IN IF ~ms.init /\ E # ElemsOf(ms.ring) THEN Err(ms, "RuntimeError")
     ELSE {Out([ms EXCEPT !.init = FALSE, !.cnt = cnt1, !.ring = ring2], [t |-> "ok"])}

RPeek(ms) == IF ms.init THEN {Out(ms, None)}
             ELSE {Out(ms, [t |-> "val", v |-> Slot(ms.ring, 1)])}

\* dump: align(0), then the storage flipped along time
RDump(ms) ==
  IF ms.init THEN {Out(ms, None)}
  ELSE LET r == MAlignSt(ms.ring, 0)
       IN {Out([ms EXCEPT !.ring = r], [t |-> "dump", vs |-> [j \in 1..r.n |-> r.store[r.n + 1 - j]]])}

\* view: RecordTensor.select(time, self.interpolate, tolerance) with the default offset 1
RView(ms, tauv, tol2) ==
  IF ms.init THEN {Out(ms, None)}
  ELSE LET sel == MSelect(ms.ring, tauv, 1, tol2)
       IN {Out(ms, IF so.ret.t # "sel" THEN so.ret
                   ELSE [t |-> "view", r |-> [e \in DOMAIN so.ret.r |->
                           LET x == so.ret.r[e]
                           IN IF x.x = "ex" THEN x.v ELSE Interp(ms.rk, x.od, x.nw, x.el)]]) : so \in sel}

\* clear(keepshape)
RClear(ms, keep) ==
  LET ring1 == IF keep
               THEN (IF Ready(ms.ring)
                     THEN [ms.ring EXCEPT !.ptr = 0,
                              !.store = Fill(ms.ring.n, ElemsOf(ms.ring), FillVal(ms.rk))]
                     ELSE [ms.ring EXCEPT !.ptr = 0])
               ELSE [ms.ring EXCEPT !.kind = "empty", !.ptr = 0, !.store = <<>>]
  IN {Out([ms EXCEPT !.init = TRUE, !.cnt = 0, !.ring = ring1], [t |-> "ok"])}

\* reducer.dt = x: the record is re-timed (offered only where its size cannot change: duration 0)
\* and the decay is recomputed from the new step time: later folds age the state by x ticks
RSetDt(ms, x) == {Out([ms EXCEPT !.ring.dtk = x], [t |-> "ok"])}

TauOf(ms, o, E) == IF o.tens THEN o.tauv ELSE [e \in 1..E |-> o.tau]

RApply(ms, o) ==
  CASE o.a = "obs"   -> RObserve(ms, o.v, o.inpl)
    [] o.a = "peek"  -> RPeek(ms)
    [] o.a = "dump"  -> RDump(ms)
    [] o.a = "view"  -> RView(ms, TauOf(ms, o, IF Ready(ms.ring) THEN ElemsOf(ms.ring) ELSE 1), o.tol2)
    [] o.a = "clear" -> RClear(ms, o.keep)
    [] o.a = "setdt" -> RSetDt(ms, o.x)

(***************************************************************************)
(* Abs.  as = [rk, n, dtk, hist]; hist = observations since the last clear, *)
(* hist[j][e] the observation of element e at the j-th step.                *)
(***************************************************************************)
\* steps[j] = length in ticks of the step that ended with the j-th observation
AInit(rk, dtk, durk, incl) == [rk |-> rk, n |-> RecordSize(dtk, durk, incl), dtk |-> dtk, hist |-> <<>>, steps |-> <<>>]

RECURSIVE SumFrom(_, _)
SumFrom(sq, i) == IF i > Len(sq) THEN 0 ELSE sq[i] + SumFrom(sq, i + 1)     \* sq[i] + ... + sq[Len]

MaxOf(S) == CHOOSE x \in S : \A y \in S : y <= x

RECURSIVE SumX(_)
SumX(h) == IF Len(h) = 0 THEN 0 ELSE h[1].x + SumX(Tail(h))

\* the closed form after the observations h (of ONE element, oldest first, Len(h) >= 1);
\* sp[j] the length in ticks of the step ending with observation j
Closed(rk, h, sp) ==
  LET n == Len(h)
      M == {j \in 1..n : h[j].m}                                 \* the matching events
      age(j) == SumFrom(sp, j + 1)                               \* t - t_f in ticks
      amp(j) == IF rk \in ScaledKinds
                THEN {Term("A", "q", age(j), 1)} \cup Mono("S", "q", age(j), h[j].x)
                ELSE {Term("A", "q", age(j), 1)}
  IN CASE rk \in CumKinds   -> UNION {amp(j) : j \in M}           \* SUM_f amp_f * q^(t - t_f)
       [] rk \in TraceKinds \ CumKinds
                            -> IF M = {} THEN Zero ELSE amp(MaxOf(M))     \* only the last event
       [] rk \in EventKinds -> IF M = {} THEN EvAdd(EvInit(rk), age(1)) ELSE EvT(age(MaxOf(M)))
       [] rk = "pass"       -> Mono("U", "1", 0, h[n].x)
       [] rk = "ema"        -> UNION {Mono(IF j = 1 THEN "U" ELSE "UA", "r", age(j), h[j].x) : j \in 1..n}
       [] rk = "ca"         -> Rat(SumX(h), n)

ElemHist(as, e, len) == [j \in 1..len |-> as.hist[j][e]]
HElems(as) == IF Len(as.hist) = 0 THEN 0 ELSE Len(as.hist[1])

\* the value recorded k steps ago (k = 0: the latest)
Recorded(as, k, e) ==
  LET n == Len(as.hist) IN
  IF k < n THEN Closed(as.rk, ElemHist(as, e, n - k), SubSeq(as.steps, 1, n - k)) ELSE FillVal(as.rk)
RecordedRow(as, k) == [e \in 1..HElems(as) |-> Recorded(as, k, e)]

\* the property's statement of a view at tau ticks before present
AViewElem(as, e, tau, tol2) ==
  LET D == as.dtk IN
  IF OnGrid(tau, D, tol2) THEN Recorded(as, RoundDiv(tau, D), e)
  ELSE Interp(as.rk, Recorded(as, NewerK(tau, D) + 1, e), Recorded(as, NewerK(tau, D), e), AElapsed(tau, D))

AApplyR(as, o) ==
  LET n == Len(as.hist) IN
  CASE o.a = "obs"   -> IF n > 0 /\ Len(o.v) # HElems(as) THEN Err(as, "RuntimeError")
                        ELSE {Out([as EXCEPT !.hist = Append(as.hist, o.v), !.steps = Append(as.steps, as.dtk)],
                                  [t |-> "ok"])}
    [] o.a = "peek"  -> IF n = 0 THEN {Out(as, None)} ELSE {Out(as, [t |-> "val", v |-> RecordedRow(as, 0)])}
    [] o.a = "dump"  -> IF n = 0 THEN {Out(as, None)}
                        ELSE {Out(as, [t |-> "dump", vs |-> [j \in 1..as.n |-> RecordedRow(as, j - 1)]])}
    [] o.a = "view"  -> IF n = 0 THEN {Out(as, None)}
                        ELSE LET tv == IF o.tens THEN o.tauv ELSE [e \in 1..HElems(as) |-> o.tau] IN
                             IF Len(tv) # HElems(as) THEN Err(as, "ValueError")
                             ELSE IF \E e \in DOMAIN tv : OutOfRange(tv[e], as.dtk, as.n, o.tol2)
                                  THEN Err(as, "ValueError")
                             ELSE {Out(as, [t |-> "view", r |-> [e \in 1..HElems(as) |->
                                                  AViewElem(as, e, tv[e], o.tol2)]])}
    [] o.a = "clear" -> {Out([as EXCEPT !.hist = <<>>, !.steps = <<>>], [t |-> "ok"])}
    [] o.a = "setdt" -> {Out([as EXCEPT !.dtk = o.x], [t |-> "ok"])}

(***************************************************************************)
(* Correspondence: the ring holds, k steps back, the closed form of the     *)
(* history without its k newest observations.                               *)
(***************************************************************************)
Corr(ms, as) ==
  /\ ms.rk = as.rk
  /\ ms.ring.n = as.n /\ ms.ring.dtk = as.dtk
  /\ ms.init = (Len(as.hist) = 0)
  /\ ~ms.init => /\ Ready(ms.ring)
                 /\ ElemsOf(ms.ring) = HElems(as)
                 /\ \A k \in 0..(as.n - 1) : Slot(ms.ring, k + 1) = RecordedRow(as, k)
  /\ (ms.init /\ Ready(ms.ring)) =>               \* cleared with keepshape: nothing but fill
        \A i \in 1..ms.ring.n : \A e \in 1..ElemsOf(ms.ring) : ms.ring.store[i][e] = FillVal(ms.rk)
  /\ ms.rk = "ca" => ms.cnt = Len(as.hist)

\* the continuous-time statement for the traces: the trace tau ticks ago is the sum
\* over the matching events that had happened by then of amp * q^(their age then);
\* covers on-grid and off-grid times alike
TraceAt(as, e, tau) ==
  LET n == Len(as.hist)
      now(j) == SumFrom(as.steps, j + 1)                          \* age of event j now
      M == {j \in 1..n : as.hist[j][e].m /\ now(j) >= tau}
      amp(j) == IF as.rk \in ScaledKinds
                THEN {Term("A", "q", now(j) - tau, 1)} \cup Mono("S", "q", now(j) - tau, as.hist[j][e].x)
                ELSE {Term("A", "q", now(j) - tau, 1)}
  IN IF as.rk \in CumKinds THEN UNION {amp(j) : j \in M}
     ELSE IF M = {} THEN Zero ELSE amp(MaxOf(M))
=============================================================================
