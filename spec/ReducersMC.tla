---------------------------- MODULE ReducersMC ----------------------------
(***************************************************************************)
(* Exhaustive exploration of the fold reducers (C07) and behaviour         *)
(* generation.  The state pairs the Mech reducer with the Abs observation   *)
(* list (lock-step, same operation) plus a log of what the reducer reported *)
(* after every observation since the last clear.  All invariants are        *)
(* one-step look-ahead over ALL operations of every reachable state.        *)
(***************************************************************************)
EXTENDS ReducersCore, Json

CONSTANTS
  Kinds,      \* reducer kinds explored (subset of AllKinds)
  E0,         \* elements per observation
  Dt0,        \* ticks per step
  DurSet,     \* durations offered (ticks)
  InclSet,    \* inclusive flags offered
  XS,         \* observation values (integers, in units)
  Target,     \* the value the target-matching traces ("near", "cum") look for
  Tols,       \* view tolerances in ticks (the model uses tol + 1/2)
  DtSet,      \* step times (ticks) offered to the dt setter (only on reducers of duration 0)
  TensView,   \* also offer per-element (tensor) view times
  MaxDepth

VARIABLE st    \* [m |-> Mech state, a |-> Abs state, log |-> reported rows since the last clear]
vars == <<st>>

\* observation alphabet of one element
Alphabet(rk) ==
  CASE rk \in {"near", "cum"}   -> {[x |-> x, m |-> (x = Target)] : x \in XS}     \* observation == target
    [] rk \in ScaledKinds       -> {[x |-> x, m |-> m] : x \in XS, m \in BOOLEAN}  \* criterion / condition
    [] rk \in EventKinds        -> {[x |-> 0, m |-> m] : m \in BOOLEAN}
    [] OTHER                    -> {[x |-> x, m |-> FALSE] : x \in XS}

\* operations that change the state, and queries (which only return something, except
\* that dump re-aligns the ring)
MutOps(s) ==
  {[a |-> "obs", v |-> v] : v \in [1..E0 -> Alphabet(s.m.rk)]}
  \cup {[a |-> "clear", keep |-> k] : k \in BOOLEAN}
  \cup {[a |-> "dump"]}
  \cup (IF s.m.ring.durk = 0 /\ s.m.rk \in TraceKinds \cup EventKinds     \* the time-based reducers
        THEN {[a |-> "setdt", x |-> x] : x \in DtSet \ {s.m.ring.dtk}} ELSE {})
QueryOps(s) ==
  LET n == s.m.ring.n
      TauS == (-2)..(s.m.ring.dtk * (n - 1) + 2)
  IN {[a |-> "peek"]}
     \cup {[a |-> "view", tens |-> FALSE, tau |-> t, tol2 |-> 2 * tl + 1] : t \in TauS, tl \in Tols}
     \cup (IF TensView
           THEN {[a |-> "view", tens |-> TRUE, tauv |-> tv, tol2 |-> 2 * tl + 1] : tv \in [1..E0 -> TauS], tl \in Tols}
           ELSE {})
Ops(s) == MutOps(s) \cup QueryOps(s)

MOp(o) == IF o.a = "obs" THEN [a |-> "obs", v |-> o.v, inpl |-> FALSE] ELSE o

\* lock-step application
Apply(s, o) ==
  {[st |-> [m |-> mo.st, a |-> ao.st,
            log |-> IF o.a = "clear" THEN <<>>
                    ELSE IF o.a = "obs" /\ mo.ret.t = "ok" THEN Append(s.log, Slot(mo.st.ring, 1))
                    ELSE s.log],
    ret |-> mo.ret] : mo \in RApply(s.m, MOp(o)), ao \in AApplyR(s.a, o)}

Init == \E rk \in Kinds, dur \in DurSet, incl \in InclSet :
           st = [m |-> MInit(rk, Dt0, dur, incl), a |-> AInit(rk, Dt0, dur, incl), log |-> <<>>]
\* queries leave the state unchanged: they are decided by the invariants below (which
\* quantify over Ops(st) at every reachable state), not by stuttering transitions
Next == \E o \in MutOps(st) : \E out \in Apply(st, o) : st' = out.st
Spec == Init /\ [][Next]_vars

Bounded == TLCGet("level") <= MaxDepth

(***************************************************************************)
(* Properties                                                              *)
(***************************************************************************)
ValOK(rk, v) ==
  CASE rk \in EventKinds -> v.k \in {"t", "inf", "nan"} /\ (v.k = "t" => v.t >= 0)
    [] rk = "ca"         -> v.den >= 1 /\ GCD(v.num, v.den) = 1
    [] OTHER             -> Normal(v)

TypeOK ==
  /\ st.m.rk \in AllKinds
  /\ st.m.ring.n = RecordSize(st.m.ring.dtk, st.m.ring.durk, st.m.ring.incl)
  /\ Ready(st.m.ring) => /\ st.m.ring.ptr \in 0..(st.m.ring.n - 1)
                         /\ Len(st.m.ring.store) = st.m.ring.n
                         /\ \A i \in 1..st.m.ring.n : \A e \in 1..E0 : ValOK(st.m.rk, st.m.ring.store[i][e])
  /\ Len(st.log) = Len(st.a.hist)

\* Fold == ClosedForm at every depth of the ring (and the bookkeeping of _initial)
FoldEqClosed == Corr(st.m, st.a)

\* every operation returns what the property states, and preserves the correspondence
Refinement ==
  \A o \in Ops(st) :
    \A mo \in RApply(st.m, MOp(o)) :
      \E ao \in AApplyR(st.a, o) :
         /\ ao.ret = mo.ret
         /\ IF mo.st = st.m /\ ao.st = st.a THEN TRUE ELSE Corr(mo.st, ao.st)

\* View(k*D) == the value the reducer reported k steps ago (literally: the logged value)
ViewPast ==
  LET n == Len(st.log)
      N == st.m.ring.n
  IN n > 0 =>
     \A k \in 0..(N - 1), tl \in Tols :
       \A mo \in RView(st.m, [e \in 1..E0 |-> k * st.m.ring.dtk], 2 * tl + 1) :
          /\ mo.ret.t = "view"
          /\ mo.ret.r = IF k < n THEN st.log[n - k] ELSE [e \in 1..E0 |-> FillVal(st.m.rk)]

\* Dump lists the record newest first and does not disturb what is recorded
DumpNewestFirst ==
  LET n == Len(st.log)
      N == st.m.ring.n
  IN \A mo \in RDump(st.m) :
       IF n = 0 THEN mo.ret = None /\ mo.st = st.m
       ELSE /\ mo.ret.t = "dump" /\ Len(mo.ret.vs) = N
            /\ \A j \in 1..N : mo.ret.vs[j] = IF j <= n THEN st.log[n - j + 1]
                                              ELSE [e \in 1..E0 |-> FillVal(st.m.rk)]
            /\ Corr(mo.st, st.a)

\* for the traces a view is the continuous-time closed form at that instant
TraceContinuous ==
  (st.m.rk \in TraceKinds /\ ~st.m.init) =>
    \A o \in Ops(st) : (o.a = "view" /\ ~o.tens) =>
      \A mo \in RApply(st.m, o) : mo.ret.t = "view" =>
        \A e \in 1..E0 : mo.ret.r[e] = TraceAt(st.a, e, IF OnGrid(o.tau, st.m.ring.dtk, o.tol2)
                                                          THEN RoundDiv(o.tau, st.m.ring.dtk) * st.m.ring.dtk
                                                          ELSE o.tau)

\* Clear(keepshape) => the behaviour of a never-observed reducer
Fresh == MInit(st.m.rk, st.m.ring.dtk, st.m.ring.durk, st.m.ring.incl)
ClearIsFresh ==
  \A k \in BOOLEAN : \A co \in RClear(st.m, k) :
     /\ co.st.init /\ co.st.cnt = 0
     /\ \A o \in Ops(st) : o.a = "obs" =>
           RApply(co.st, MOp(o)) = RApply(Fresh, MOp(o))

\* in-place and out-of-place writes are indistinguishable
InplaceEq ==
  \A o \in Ops(st) : o.a = "obs" =>
     RObserve(st.m, o.v, TRUE) = RObserve(st.m, o.v, FALSE)

(***************************************************************************)
(* Behaviour generation: one JSON line per distinct state with its outcome  *)
(* table.                                                                   *)
(***************************************************************************)
\* (the emitted state keeps what identifies it: the Mech state and the observation list;
\* queries do not change the state, so only their return value is printed)
EState(s) == [m |-> s.m, h |-> s.a.hist]
Emit == PrintT(ToJson(
  [s |-> EState(st),
   mut |-> {[op |-> o, res |-> {[st |-> EState(x.st), ret |-> x.ret] : x \in Apply(st, o)}] : o \in MutOps(st)},
   qry |-> {[op |-> o, rets |-> {x.ret : x \in RApply(st.m, o)}] : o \in QueryOps(st)}]))
=============================================================================
