--------------------------- MODULE ReducersTrace ---------------------------
(***************************************************************************)
(* Trace specification for executions recorded from the real reducers in   *)
(* the DYADIC recipe (direction B): time constant dt/ln 2 (decay exactly    *)
(* 1/2 per step), alpha = 1/2, amplitudes / scales / units multiples of     *)
(* 2^-CK, so that float32 arithmetic is exact and every logged value is an  *)
(* integer scaled by 2^K (times in ticks, averages as reduced fractions).   *)
(* TLC carries the SYMBOLIC state, applies the same RApply / AApplyR as the *)
(* model-checking module, evaluates the specified outcome exactly           *)
(* (SymVal!EvalDy) and accepts an event only if return value and projected  *)
(* state coincide and the step refines the closed-form model.               *)
(***************************************************************************)
EXTENDS ReducersCore, Json, IOUtils, TLCExt

Traces == JsonDeserialize(IOEnv.TRACE_FILE)

VARIABLES tid, l, st
vars == <<tid, l, st>>

NT == Len(Traces)
Evs(t) == Traces[t].ev
Hdr(t) == Traces[t].hdr
MaxI(a, b) == IF a >= b THEN a ELSE b
Waived(t) == {Hdr(t).waive[i] : i \in DOMAIN Hdr(t).waive}

ASSUME \A i \in 1..NT : TLCSet(100 + i, 0)

\* numeric projection of one symbolic value under the trace's parameters
DV(h, v) ==
  IF h.rk \in EventKinds THEN (IF v.k = "t" THEN [k |-> "i", i |-> v.t] ELSE [k |-> v.k])
  ELSE IF h.rk = "ca" THEN (IF "num" \in DOMAIN v THEN [k |-> "q", num |-> v.num, den |-> v.den] ELSE [k |-> "bad"])
  ELSE EvalDy(v, h.cs, h.ck, h.K, h.dtk)     \* (the driver never asks lin-interpolated views)
DRow(h, row) == [e \in DOMAIN row |-> DV(h, row[e])]

ProjRet(h, r) ==
  CASE r.t = "val"  -> [t |-> "val", v |-> DRow(h, r.v)]
    [] r.t = "view" -> [t |-> "view", r |-> DRow(h, r.r)]
    [] r.t = "dump" -> [t |-> "dump", vs |-> [j \in DOMAIN r.vs |-> DRow(h, r.vs[j])]]
    [] OTHER        -> r
ProjSt(h, ms) ==
  [init |-> ms.init, kind |-> ms.ring.kind, n |-> ms.ring.n, ptr |-> ms.ring.ptr,
   store |-> [i \in DOMAIN ms.ring.store |-> DRow(h, ms.ring.store[i])]]

MOp(o) == IF o.a = "obs" THEN [a |-> "obs", v |-> o.v, inpl |-> FALSE] ELSE o

ApplyT(s, o) ==
  {[st |-> [m |-> mo.st, a |-> ao.st], ret |-> mo.ret,
    refok |-> (ao.ret = mo.ret /\ Corr(mo.st, ao.st))] : mo \in RApply(s.m, MOp(o)), ao \in AApplyR(s.a, o)}

Init == /\ tid \in 1..NT
        /\ l = 1
        /\ LET h == Hdr(tid) IN
             st = [m |-> MInit(h.rk, h.dtk, h.durk, h.incl), a |-> AInit(h.rk, h.dtk, h.durk, h.incl)]

Matches(e) == {x \in ApplyT(st, e.op) : /\ ProjRet(Hdr(tid), x.ret) = e.ret
                                       /\ ProjSt(Hdr(tid), x.st.m) = e.st
                                       /\ x.refok}

Step ==
  /\ l <= Len(Evs(tid))
  /\ LET e == Evs(tid)[l] IN
       IF l \in Waived(tid)
       THEN st' = (CHOOSE x \in ApplyT(st, e.op) : TRUE).st     \* continue from the specified outcome
       ELSE \E x \in Matches(e) : st' = x.st
  /\ l' = l + 1
  /\ UNCHANGED tid

TraceSpec == Init /\ [][Step]_vars

Track ==
  /\ TLCSet(100 + tid, MaxI(TLCGet(100 + tid), l))
  /\ IF l <= Len(Evs(tid)) /\ ~(l \in Waived(tid)) /\ Matches(Evs(tid)[l]) = {}
     THEN PrintT(ToJson([diag |-> tid, l |-> l,
                         expected |-> {[ret |-> ProjRet(Hdr(tid), x.ret), st |-> ProjSt(Hdr(tid), x.st.m),
                                        refok |-> x.refok] : x \in ApplyT(st, Evs(tid)[l].op)}]))
     ELSE TRUE

Post ==
  PrintT(ToJson([rejected |-> {<<i, TLCGet(100 + i)>> : i \in {j \in 1..NT : TLCGet(100 + j) <= Len(Evs(j))}},
                 total |-> NT]))
=============================================================================
