------------------------------- MODULE ResizeMC -------------------------------
(***************************************************************************)
(* Extension (C13 anchor core/infrastructure.py): the public static        *)
(* ShapedTensor.resize(value, dim, size, preserve_tail, fill), "a more     *)
(* generalized version of the built-in automatic resizing".  No check      *)
(* called it (argument audit); nothing in the library does either.         *)
(* One dimension of a tensor is a sequence of slices; the other dimensions *)
(* ride along, so the model is a sequence of tokens.                       *)
(*   Abs (documentation): the result has `size` slices; with preserve_tail *)
(*     the LAST min(old, size) slices are the old last ones in order and   *)
(*     new slices are PREPENDED, otherwise the first ones are kept and new *)
(*     slices APPENDED; every new slice holds `fill`; an unchanged size    *)
(*     returns the very same object; a Parameter stays the same Parameter  *)
(*     (its data is replaced).                                             *)
(*   Mech (code): slicing [old - size:] / [:size], cat((fill, value)) /    *)
(*     cat((value, fill)).                                                 *)
(***************************************************************************)
EXTENDS Integers, Sequences, TLC, Json

CONSTANTS MaxLen, MaxSize, Fills

VARIABLE s
vars == <<s>>

Toks(n) == [i \in 1..n |-> i]                       \* distinguishable slices 1..n
FillSeq(n, f) == [i \in 1..n |-> f]

MResize(v, size, tail, f) ==
  LET n == Len(v) IN
  IF n > size THEN (IF tail THEN SubSeq(v, n - size + 1, n) ELSE SubSeq(v, 1, size))
  ELSE IF n < size THEN (IF tail THEN FillSeq(size - n, f) \o v ELSE v \o FillSeq(size - n, f))
  ELSE v

AbsOK(v, size, tail, f, r) ==
  LET n == Len(v)
      k == IF n < size THEN n ELSE size
  IN /\ Len(r) = size
     /\ tail => /\ \A j \in 1..k : r[size - j + 1] = v[n - j + 1]
                /\ \A j \in 1..(size - k) : r[j] = f
     /\ ~tail => /\ \A j \in 1..k : r[j] = v[j]
                 /\ \A j \in (k + 1)..size : r[j] = f

Ops == {[size |-> z, tail |-> t, fill |-> f] : z \in 0..MaxSize, t \in BOOLEAN, f \in Fills}

Init == s \in {Toks(n) : n \in 0..MaxLen}
Next == UNCHANGED s
Spec == Init /\ [][Next]_vars

Refinement == \A o \in Ops : AbsOK(s, o.size, o.tail, o.fill, MResize(s, o.size, o.tail, o.fill))
\* "tensor[-1] will return the same values before and after, otherwise tensor[0] will"
EndKept == \A o \in Ops : (Len(s) > 0 /\ o.size > 0) =>
              LET r == MResize(s, o.size, o.tail, o.fill) IN IF o.tail THEN r[Len(r)] = s[Len(s)] ELSE r[1] = s[1]
\* resizing back and forth with preserve_tail loses only what was cut
ShrinkGrow == \A o \in Ops : o.size <= Len(s) =>
                 LET r == MResize(MResize(s, o.size, o.tail, o.fill), Len(s), o.tail, o.fill) IN
                 \A j \in 1..Len(s) : r[j] \in {s[j], o.fill}
Same == \A o \in Ops : o.size = Len(s) => MResize(s, o.size, o.tail, o.fill) = s

Emit == PrintT(ToJson([s |-> s, out |-> {[op |-> o, res |-> MResize(s, o.size, o.tail, o.fill)] : o \in Ops}]))
=============================================================================
