------------------------------ MODULE STDPCore ------------------------------
(***************************************************************************)
(* C08 - weight changes of the pair-based STDP family on ONE synapse.      *)
(*                                                                         *)
(* Abs  : the documented sum over spike pairs, in closed form over the     *)
(*        pre/post spike histories (the vocabulary of the property).       *)
(* Mech : the recurrence the trainers implement: spike traces kept by      *)
(*        reducers (amplitude, observed attribute, stored duration), the   *)
(*        product "spike indicator x opposite trace", the delayed views    *)
(*        through the connection's selector, eligibility filtering, the    *)
(*        triplet factor from the slow trace one step earlier, and the     *)
(*        routing of the two partial updates to the LTP / LTD accumulator  *)
(*        by the signs of the learning rates and of the reward.            *)
(*                                                                         *)
(* Real values are STDPSym values (finite sums of monomials in the decay   *)
(* factors), so "Mech = Abs" is decided exactly by TLC for every history.  *)
(*                                                                         *)
(* Time is counted in steps; step t is the t-th call of the layer followed *)
(* by the trainer.  x[t], y[t] in {0,1}: the presynaptic input spike and   *)
(* the postsynaptic spike of step t.  d: the synapse's delay in steps.     *)
(***************************************************************************)
EXTENDS STDPSym

Rules == {"stdp", "mstdp", "mstdpet", "triplet"}
Modes == {"cumulative", "nearest"}

MaxS(S) == CHOOSE m \in S : \A u \in S : u <= m

RECURSIVE PlusOver(_, _)
PlusOver(S, f) == IF S = {} THEN Zero
                  ELSE LET u == CHOOSE u \in S : TRUE IN Plus(f[u], PlusOver(S \ {u}, f))

(***************************************************************************)
(* Abs: closed forms                                                       *)
(***************************************************************************)
\* the presynaptic train as it arrives at the synapse's output: shifted by the delay
Arr(x, d) == [s \in 1..Len(x) |-> IF s - d >= 1 THEN x[s - d] ELSE 0]

Events(h, t) == {s \in 1..t : h[s] = 1}
\* the spikes up to and including step t that a spike at step t pairs with
Partners(h, t, mode) ==
  LET E == Events(h, t) IN IF mode = "cumulative" \/ E = {} THEN E ELSE {MaxS(E)}

\* sum over the partners s of  const(c) * q_b^(t - s)
PairSum(h, t, mode, c, b) ==
  LET P == Partners(h, t, mode)
  IN PlusOver(P, [s \in P |-> DecN(b, One(T0(c)), t - s)])

Unit == One(T0("1"))

\* contribution of step t of the two-factor rules (stdp; triplet with its documented factor)
AbsPair(cfg, x, y, t) ==
  LET xa == Arr(x, cfg.d)
      post == IF y[t] = 1 THEN PairSum(xa, t, cfg.mode, "post", "xf") ELSE Zero
      pre  == IF xa[t] = 1 THEN PairSum(y, t, cfg.mode, "pre", "yf") ELSE Zero
  IN IF cfg.rule = "triplet"
     THEN \* each pair term times (1 + slow trace of the TRIGGERING population one step earlier)
          Plus(Mul(post, Plus(Unit, PairSum(y, t - 1, cfg.mode, "rpost", "ys"))),
               Mul(pre,  Plus(Unit, PairSum(xa, t - 1, cfg.mode, "rpre", "xs"))))
     ELSE Plus(post, pre)

\* eligibility: the contribution stream filtered as z(t) = z(t-1) q_z + c(t) / tau_z
AbsElig(cfg, x, y, t) ==
  PlusOver(1..t, [u \in 1..t |-> OverTauZ(DecN("z", AbsPair(cfg, x, y, u), t - u))])

\* signed weight change requested at step t (before batch reduction), reward token r
AbsDW(cfg, x, y, t, r) ==
  CASE cfg.rule \in {"stdp", "triplet"} -> AbsPair(cfg, x, y, t)
    [] cfg.rule = "mstdp" -> TimesGamma(Scale(AbsPair(cfg, x, y, t), r))
    [] cfg.rule = "mstdpet" -> TimesGamma(Scale(AbsElig(cfg, x, y, t), r))

(***************************************************************************)
(* Mech: what the trainers keep and compute                                *)
(***************************************************************************)
Push(ring, v) == <<v>> \o SubSeq(ring, 1, Len(ring) - 1)

\* one observation of a trace reducer (amplitude tag c, decay base b)
TraceStep(mode, prev, spike, c, b) ==
  IF mode = "cumulative"
  THEN Plus(Dec(b, prev), IF spike = 1 THEN One(T0(c)) ELSE Zero)
  ELSE IF spike = 1 THEN One(T0(c)) ELSE Dec(b, prev)

MInit(R) ==
  [xR |-> [i \in 1..R |-> 0],        \* the synapse's own spike history (newest first)
   sR |-> [i \in 1..R |-> 0],        \* spike_pre monitor
   aR |-> [i \in 1..R |-> Zero],     \* trace_pre (fast) monitor
   bR |-> [i \in 1..R |-> Zero],     \* trace_pre_slow monitor (triplet)
   ya |-> Zero,                      \* trace_post (fast), latest
   yb |-> Zero,                      \* trace_post_slow, latest (triplet)
   zp |-> Zero, zq |-> Zero]         \* elig_post, elig_pre (mstdpet)

\* the two partial updates (magnitudes carry their tags) and the new monitor state
MStep(cfg, m, op) ==
  LET del == cfg.delayed /\ cfg.rule # "mstdpet"
      xR == Push(m.xR, op.x)
      \* what the presynaptic monitors observe: the raw input spike in "delayed" mode,
      \* the delay-adjusted connection.synspike otherwise
      xin == IF del THEN op.x ELSE xR[cfg.d + 1]
      sR == Push(m.sR, xin)
      aR == Push(m.aR, TraceStep(cfg.mode, m.aR[1], xin, "post", "xf"))
      bR == Push(m.bR, TraceStep(cfg.mode, m.bR[1], xin, "rpre", "xs"))
      ya == TraceStep(cfg.mode, m.ya, op.y, "pre", "yf")
      yb == TraceStep(cfg.mode, m.yb, op.y, "rpost", "ys")
      \* reads: through the selector (time d before the newest sample) in "delayed" mode
      k == IF del THEN cfg.d ELSE 0
      xa == aR[k + 1]
      ipre == sR[k + 1]
      xb == bR[k + 2]                 \* one step earlier
      ybp == m.yb                     \* one step earlier
      post0 == IF op.y = 1 THEN xa ELSE Zero
      pre0  == IF ipre = 1 THEN ya ELSE Zero
      post == IF cfg.rule = "triplet" THEN Mul(post0, Plus(Unit, ybp)) ELSE post0
      pre  == IF cfg.rule = "triplet" THEN Mul(pre0, Plus(Unit, xb)) ELSE pre0
      zp == Plus(DecZ(m.zp), OverTauZ(post))
      zq == Plus(DecZ(m.zq), OverTauZ(pre))
  IN [m |-> [xR |-> xR, sR |-> sR, aR |-> aR, bR |-> bR, ya |-> ya, yb |-> yb,
             zp |-> IF cfg.rule = "mstdpet" THEN zp ELSE Zero,
             zq |-> IF cfg.rule = "mstdpet" THEN zq ELSE Zero],
      dpost |-> CASE cfg.rule = "mstdpet" -> TimesGamma(zp)
                  [] cfg.rule = "mstdp" -> TimesGamma(post)
                  [] OTHER -> post,
      dpre  |-> CASE cfg.rule = "mstdpet" -> TimesGamma(zq)
                  [] cfg.rule = "mstdp" -> TimesGamma(pre)
                  [] OTHER -> pre]

\* signed change the mechanism requests
MechDW(out, r) == Scale(Plus(out.dpost, out.dpre), r)

Abs(n) == IF n < 0 THEN -n ELSE n

\* the trainers' routing of the partial updates (held as magnitudes) to <<pos, neg>>:
\* sp, sn are the signs of lr_post and lr_pre, r the (scalar / per-sample) reward
MechRoute(out, sp, sn, r) ==
  LET a == Scale(out.dpost, Abs(r))
      b == Scale(out.dpre, Abs(r))
      p == sp * r >= 0
      q == sn * r >= 0
  IN CASE ~p /\ ~q -> <<Zero, Plus(a, b)>>
       [] ~p /\ q  -> <<b, a>>
       [] p /\ ~q  -> <<a, b>>
       [] p /\ q   -> <<Plus(a, b), Zero>>

\* sign of the constant a tag stands for
SgnOf(sp, sn, c) == IF c \in {"post", "post3"} THEN sp ELSE sn

=============================================================================
