------------------------------- MODULE STDPMC -------------------------------
(***************************************************************************)
(* Exhaustive exploration of the STDP family on one synapse: every pre /   *)
(* post spike history up to T steps, for every rule, trace mode, delay and *)
(* trainer mode offered by the constants.  One variable: configuration,    *)
(* histories (Abs) and monitor state (Mech).  The obligations are checked  *)
(* as one-step look-ahead invariants over ALL operations of every          *)
(* reachable state.  Emit prints, once per state, the specified signed     *)
(* weight change of every possible next step (the outcome table that the   *)
(* harness evaluates numerically and compares with the real trainers).     *)
(***************************************************************************)
EXTENDS STDPCore, Json

CONSTANTS
  RuleSet,      \* subset of Rules
  ModeSet,      \* subset of Modes
  DSet,         \* delays offered, in steps
  DelayedSet,   \* subset of BOOLEAN: trainer "delayed" mode
  RPos, RNegMag, \* reward tokens offered to the three-factor rules: RPos and the negations of RNegMag
  T,            \* history length
  T3            \* history length for the three-factor rules

VARIABLE st
vars == <<st>>

RSet == RPos \cup {0 - n : n \in RNegMag}
DMax == MaxS(DSet)
RingLen == DMax + 2

Configs == {c \in [rule : RuleSet, mode : ModeSet, d : DSet, delayed : DelayedSet] :
              c.rule = "mstdpet" => c.delayed = FALSE}

Horizon(cfg) == IF cfg.rule \in {"mstdp", "mstdpet"} THEN T3 ELSE T
Rewards(cfg) == IF cfg.rule \in {"mstdp", "mstdpet"} THEN RSet ELSE {1}

Ops(s) == IF Len(s.x) >= Horizon(s.cfg) THEN {}
          ELSE [x : {0, 1}, y : {0, 1}, r : Rewards(s.cfg)]

Apply(s, o) ==
  LET out == MStep(s.cfg, s.m, o)
  IN [st |-> [cfg |-> s.cfg, x |-> Append(s.x, o.x), y |-> Append(s.y, o.y), m |-> out.m],
      out |-> out]

Init == st \in {[cfg |-> c, x |-> <<>>, y |-> <<>>, m |-> MInit(RingLen)] : c \in Configs}
Next == \E o \in Ops(st) : st' = Apply(st, o).st
Spec == Init /\ [][Next]_vars

(***************************************************************************)
(* Properties                                                              *)
(***************************************************************************)
TypeOK == /\ st.cfg \in Configs
          /\ Len(st.x) = Len(st.y)
          /\ Len(st.x) <= Horizon(st.cfg)

\* C08: the recurrence requests exactly the documented pair sum, for every next step
Refinement ==
  \A o \in Ops(st) :
    LET a == Apply(st, o)
    IN MechDW(a.out, o.r) = AbsDW(st.cfg, a.st.x, a.st.y, Len(a.st.x), o.r)

\* the monitors hold the closed-form traces (fast traces; newest sample)
TracesClosedForm ==
  LET t == Len(st.x)
      del == st.cfg.delayed /\ st.cfg.rule # "mstdpet"
      seen == IF del THEN st.x ELSE Arr(st.x, st.cfg.d)
  IN t >= 1 =>
       /\ st.m.aR[1] = PairSum(seen, t, st.cfg.mode, "post", "xf")
       /\ st.m.ya = PairSum(st.y, t, st.cfg.mode, "pre", "yf")
       /\ st.m.sR[1] = seen[t]

\* C08/C09 interface: for every sign mode the trainers' routing hands the accumulator
\* exactly the strengthening and the weakening part of the signed change
RoutingOK ==
  \A o \in Ops(st) : \A sp \in {-1, 1}, sn \in {-1, 1} :
    LET a == Apply(st, o)
        dw == MechDW(a.out, o.r)
        S(c) == SgnOf(sp, sn, c)
    IN MechRoute(a.out, sp, sn, o.r) = <<PosPart(dw, S), NegPart(dw, S)>>

(***************************************************************************)
(* Behaviour generation                                                    *)
(***************************************************************************)
Emit ==
  PrintT(ToJson([s |-> [cfg |-> st.cfg, x |-> st.x, y |-> st.y],
                 out |-> {[op |-> o,
                           dw |-> AsSet(AbsDW(st.cfg, Append(st.x, o.x), Append(st.y, o.y), Len(st.x) + 1, o.r))]
                          : o \in Ops(st)}]))
=============================================================================
