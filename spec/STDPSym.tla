------------------------------ MODULE STDPSym ------------------------------
(***************************************************************************)
(* Symbolic real values for the STDP family (C08, C18).                    *)
(*                                                                         *)
(* TLC has no reals and no exp.  A real quantity that the learning rules   *)
(* produce is always a finite sum of products                              *)
(*                                                                         *)
(*     m * const(c) * q_xf^xf * q_yf^yf * q_xs^xs * q_ys^ys * q_z^z        *)
(*       * (1/tau_z)^k * scale^g                                           *)
(*                                                                         *)
(* with integer multiplicity m, a coefficient tag c (which learning rate), *)
(* and integer exponents of the decay bases (q_b = exp(-dt/tau_b), or, for *)
(* the delay-adjusted rules, exp(-tick/tau_b) with the exponent counted in *)
(* ticks).  Such a value is represented exactly as a finite function from  *)
(* terms to non-zero integers; TLC compares two values with "=".  The      *)
(* harness (harness/stdp_eval.py) evaluates a value in float64 for         *)
(* concrete parameter sets; in the dyadic recipe (all q = 1/2, constants   *)
(* powers of two) DyEval below evaluates it exactly as a scaled integer.   *)
(***************************************************************************)
EXTENDS Integers, Sequences, FiniteSets, TLC

\* the coefficient-free unit term and a unit term with coefficient tag c
T0(c) == [c |-> c, xf |-> 0, yf |-> 0, xs |-> 0, ys |-> 0, z |-> 0, k |-> 0, g |-> 0]

Zero == [t \in {} |-> 0]
One(t) == [u \in {t} |-> 1]
Coef(v, t) == IF t \in DOMAIN v THEN v[t] ELSE 0
Norm(f) == [t \in {u \in DOMAIN f : f[u] # 0} |-> f[t]]

Plus(v, w) == Norm([t \in (DOMAIN v) \cup (DOMAIN w) |-> Coef(v, t) + Coef(w, t)])
Scale(v, n) == Norm([t \in DOMAIN v |-> n * v[t]])
Minus(v, w) == Plus(v, Scale(w, -1))

RECURSIVE SumOver(_, _)
SumOver(S, f) == IF S = {} THEN 0
                 ELSE LET u == CHOOSE u \in S : TRUE IN f[u] + SumOver(S \ {u}, f)

RECURSIVE PlusAll(_)
PlusAll(seq) == IF seq = <<>> THEN Zero ELSE Plus(Head(seq), PlusAll(Tail(seq)))

\* image of a value under a transformation of its terms (multiplication by a monomial)
Map(v, F(_)) ==
  LET img == {F(u) : u \in DOMAIN v}
  IN Norm([t \in img |-> SumOver({u \in DOMAIN v : F(u) = t}, v)])

\* one more step of exponential decay in base b
DecXF(v) == Map(v, LAMBDA t : [t EXCEPT !.xf = @ + 1])
DecYF(v) == Map(v, LAMBDA t : [t EXCEPT !.yf = @ + 1])
DecXS(v) == Map(v, LAMBDA t : [t EXCEPT !.xs = @ + 1])
DecYS(v) == Map(v, LAMBDA t : [t EXCEPT !.ys = @ + 1])
DecZ(v)  == Map(v, LAMBDA t : [t EXCEPT !.z = @ + 1])
Dec(b, v) == CASE b = "xf" -> DecXF(v) [] b = "yf" -> DecYF(v) [] b = "xs" -> DecXS(v)
               [] b = "ys" -> DecYS(v) [] b = "z" -> DecZ(v)
RECURSIVE DecN(_, _, _)
DecN(b, v, n) == IF n <= 0 THEN v ELSE DecN(b, Dec(b, v), n - 1)
\* times 1/tau_z, times the scale gamma
OverTauZ(v) == Map(v, LAMBDA t : [t EXCEPT !.k = @ + 1])
TimesGamma(v) == Map(v, LAMBDA t : [t EXCEPT !.g = @ + 1])

\* product of coefficient tags: "1" is neutral; a pair learning rate times the stored
\* ratio (triplet rate / pair rate) is the triplet learning rate
MulC(a, b) ==
  CASE a = "1" -> b
    [] b = "1" -> a
    [] a = "post" /\ b = "rpost" -> "post3"
    [] a = "rpost" /\ b = "post" -> "post3"
    [] a = "pre" /\ b = "rpre" -> "pre3"
    [] a = "rpre" /\ b = "pre" -> "pre3"
    [] OTHER -> "undefined"
MulT(a, b) == [c |-> MulC(a.c, b.c), xf |-> a.xf + b.xf, yf |-> a.yf + b.yf, xs |-> a.xs + b.xs,
               ys |-> a.ys + b.ys, z |-> a.z + b.z, k |-> a.k + b.k, g |-> a.g + b.g]
Mul(v, w) ==
  LET pairs == (DOMAIN v) \X (DOMAIN w)
      img == {MulT(p[1], p[2]) : p \in pairs}
      prod == [p \in pairs |-> v[p[1]] * w[p[2]]]
  IN Norm([t \in img |-> SumOver({p \in pairs : MulT(p[1], p[2]) = t}, prod)])

\* the parts of a signed value that strengthen / weaken, given the sign of each tag:
\* every term is routed by the sign of (multiplicity * sign of its coefficient)
PosPart(v, Sgn(_)) == [t \in {u \in DOMAIN v : v[u] * Sgn(u.c) > 0} |-> v[t] * Sgn(t.c)]
NegPart(v, Sgn(_)) == [t \in {u \in DOMAIN v : v[u] * Sgn(u.c) < 0} |-> -(v[t] * Sgn(t.c))]

\* JSON-friendly rendering (ToJson stringifies record-valued function keys)
AsSet(v) == {[t |-> t, m |-> v[t]] : t \in DOMAIN v}

(***************************************************************************)
(* Dyadic evaluation (exact, for trace validation).  E gives the binary    *)
(* exponents of the recipe: const(c) = 2^-E.a[c], decay base b = 2^-E[b],  *)
(* 1/tau_z = 2^-E.k, scale = 2^-E.g.  The result is the value times 2^K;   *)
(* it is exact iff no term's total exponent exceeds K (DyExact).           *)
(***************************************************************************)
RECURSIVE Pow2(_)
Pow2(n) == IF n <= 0 THEN 1 ELSE 2 * Pow2(n - 1)
TermExp(t, E) == E.a[t.c] + E.xf * t.xf + E.yf * t.yf + E.xs * t.xs + E.ys * t.ys + E.z * t.z
                 + E.k * t.k + E.g * t.g
DyExact(v, K, E) == \A t \in DOMAIN v : TermExp(t, E) <= K
DyEval(v, K, E) == SumOver(DOMAIN v, [t \in DOMAIN v |-> v[t] * Pow2(K - TermExp(t, E))])
=============================================================================
