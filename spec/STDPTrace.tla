------------------------------ MODULE STDPTrace ------------------------------
(***************************************************************************)
(* Trace specification (direction B) for C08: executions of the REAL       *)
(* trainers on dense / direct / lateral / convolutional cells with batches *)
(* in the dyadic recipe, recorded per trained weight element.              *)
(*                                                                         *)
(* One trace = one weight element.  It is fed by P (pre, post) pairs: one  *)
(* per batch sample and per position of its receptive field (P = batch     *)
(* size for the linear connections).  The requested change of the weight   *)
(* at a step is the sum over its pairs of the documented pair sum          *)
(* (STDPCore!AbsDW, the batch reduced by sum; "mean" divides by hdr.den).   *)
(*                                                                         *)
(*   hdr.cfg : rule, mode, d (delay in steps, per pair), sp, sn (signs of  *)
(*             the learning rates), K, den, e (binary exponents, STDPSym)  *)
(*   ev[l]   : op = [x, y, r : one entry per pair; gexp], ret = [pos, neg] *)
(*             the accumulators times 2^K, st = histories after the step   *)
(***************************************************************************)
EXTENDS STDPCore, Json, IOUtils, TLCExt

Traces == JsonDeserialize(IOEnv.TRACE_FILE)

VARIABLES tid, l, st
vars == <<tid, l, st>>

NT == Len(Traces)
Evs(t) == Traces[t].ev
Cfg(t) == Traces[t].hdr.cfg
MaxI(a, b) == IF a >= b THEN a ELSE b
Waived(t) == {Traces[t].hdr.waive[i] : i \in DOMAIN Traces[t].hdr.waive}

ASSUME \A i \in 1..NT : TLCSet(100 + i, 0)

NextSt(s, o) == [x |-> [p \in DOMAIN s.x |-> Append(s.x[p], o.x[p])],
                 y |-> [p \in DOMAIN s.y |-> Append(s.y[p], o.y[p])]]

\* specified accumulators (times 2^K * den) after the step
Expected(c, s, o) ==
  LET s2 == NextSt(s, o)
      P == DOMAIN s2.x
      E == [c.e EXCEPT !.g = o.gexp]
      S(tag) == SgnOf(c.sp, c.sn, tag)
      dw == [p \in P |-> AbsDW([rule |-> c.rule, mode |-> c.mode, d |-> c.d[p], delayed |-> FALSE],
                               s2.x[p], s2.y[p], Len(s2.x[p]), o.r[p])]
  IN [pos |-> SumOver(P, [p \in P |-> DyEval(PosPart(dw[p], S), c.K, E)]),
      neg |-> SumOver(P, [p \in P |-> DyEval(NegPart(dw[p], S), c.K, E)]),
      exact |-> \A p \in P : DyExact(dw[p], c.K, E)]

RetOK(c, s, e) ==
  LET x == Expected(c, s, e.op)
  IN /\ x.exact
     /\ e.ret.pos * c.den = x.pos
     /\ e.ret.neg * c.den = x.neg

StateOK(s, e) == NextSt(s, e.op) = e.st

Init == /\ tid \in 1..NT
        /\ l = 1
        /\ st = Traces[tid].hdr.init

Step ==
  /\ l <= Len(Evs(tid))
  /\ LET e == Evs(tid)[l] IN
       /\ (l \in Waived(tid)) \/ (RetOK(Cfg(tid), st, e) /\ StateOK(st, e))
       /\ st' = e.st
  /\ l' = l + 1
  /\ UNCHANGED tid

TraceSpec == Init /\ [][Step]_vars

Track ==
  /\ TLCSet(100 + tid, MaxI(TLCGet(100 + tid), l))
  /\ IF l <= Len(Evs(tid)) /\ ~(l \in Waived(tid))
        /\ ~(RetOK(Cfg(tid), st, Evs(tid)[l]) /\ StateOK(st, Evs(tid)[l]))
     THEN PrintT(ToJson([diag |-> tid, l |-> l, retok |-> RetOK(Cfg(tid), st, Evs(tid)[l]),
                         stateok |-> StateOK(st, Evs(tid)[l]),
                         expected |-> Expected(Cfg(tid), st, Evs(tid)[l].op), state |-> st]))
     ELSE TRUE

Post ==
  PrintT(ToJson([rejected |-> {<<i, TLCGet(100 + i)>> : i \in {j \in 1..NT : TLCGet(100 + j) <= Len(Evs(j))}},
                 total |-> NT]))
=============================================================================
