----------------------------- MODULE SplitCore -----------------------------
(***************************************************************************)
(* Functional core of the SplitRouting / Homeostasis specification         *)
(* (property C09): which magnitude a trainer hands to the updater as the   *)
(* potentiating part and which as the depressing part.                     *)
(*                                                                         *)
(* Every plasticity rule in inferno/learn/trainers is a sum of TERMS, each *)
(* a non-negative magnitude (computed with the absolute value of its       *)
(* learning rate, of the reward and of the scale) times a sign that only   *)
(* depends on the configuration: sgn(rate) [* sgn(reward of the sample)],  *)
(* or, for the kernel and homeostasis rules, the sign of the element       *)
(* itself (clamp split).                                                   *)
(*                                                                         *)
(*   Abs   Rule(cf, call)  = the monomials of the signed rule with their   *)
(*         signs:  update = SUM sign(m) * |m|                              *)
(*   Mech  Route(cf, call) = the two parts as the code builds them: the    *)
(*         match statements of each trainer transcribed literally (which   *)
(*         tensors are concatenated / added into which part, in which      *)
(*         order, when a part is None), items carry a coefficient.         *)
(*                                                                         *)
(* A monomial is [t, i]: term t ("T1" is governed by the first rate and is *)
(* the CAUSAL term - triggered when the presynaptic spike (plus delay)     *)
(* precedes the postsynaptic one -, "T2" by the second rate), i the batch  *)
(* sample (tensor reward), the element (clamp split) or 0.  Its magnitude  *)
(* |m| >= 0 is evaluated numerically by the harness from the real run.     *)
(* Signs / sign classes are -1, 0, 1 (a zero rate or reward gives a zero   *)
(* magnitude, wherever it is routed).                                      *)
(***************************************************************************)
EXTENDS Integers, Sequences, FiniteSets, TLC

\* trainer kinds by the shape of their routing code
KGe2 == {"STDP", "StableSTDP", "TripletSTDP", "StableTripletSTDP", "DelayAdjustedSTDP"}   \* match (r1 >= 0, r2 >= 0)
KLt2 == {"DelayAdjustedSTDPD"}                                                  \* match (r1 < 0, r2 < 0), delays
KGe3 == {"MSTDP", "MSTDPET", "DelayAdjustedMSTDP"}                              \* reward-modulated, >= 0
KLt3 == {"DelayAdjustedMSTDPD"}                                                 \* reward-modulated, < 0, delays
KClamp == {"KernelSTDP", "DelayAdjustedKernelSTDP", "DelayAdjustedKernelSTDPD"} \* clamp split of two kernel outputs
KHomeo == {"HomeoWeight", "HomeoBias", "HomeoDelay"}                            \* clamp split of k
Kinds == KGe2 \cup KLt2 \cup KGe3 \cup KLt3 \cup KClamp \cup KHomeo
DelayKinds == {"DelayAdjustedSTDPD", "DelayAdjustedMSTDPD", "DelayAdjustedKernelSTDPD", "HomeoDelay"}

Classes == {-1, 0, 1}
Item(t, i, c) == [t |-> t, i |-> i, c |-> c]
Mono(t, i) == [t |-> t, i |-> i]
\* comb: how the code combines the items of a part -
\*   "add": each item is reduced over the batch first, the reduced tensors are added
\*   "cat": the per-sample items are concatenated, then reduced over the batch once
\*   "clamp": per term, the clamped entries are summed over the receptive dimension and
\*            reduced over the batch; the two reduced terms are added
Parts(p, n, comb) == [pos |-> p, neg |-> n, posNone |-> (p = <<>>), negNone |-> (n = <<>>), comb |-> comb]

\* items of term t for the samples of a tensor reward selected by keep (in batch order)
Keep(mode, c) == IF mode = "reg" THEN c >= 0      \* torch.argwhere(signal >= 0)
                 ELSE c < 0                        \* torch.argwhere(signal < 0)
RECURSIVE Sel(_, _, _, _)
Sel(t, sv, mode, b) ==
  IF b > Len(sv) THEN <<>>
  ELSE (IF Keep(mode, sv[b]) THEN <<Item(t, b, 1)>> ELSE <<>>) \o Sel(t, sv, mode, b + 1)

(***************************************************************************)
(* Mech: the routing code, transcribed                                     *)
(***************************************************************************)
\* two_factor_stdp.py:369 and siblings:  match (g1, g2) with g = (rate >= 0) or (rate * signal >= 0)
MatchGe(g1, g2, A, B) ==
  CASE ~g1 /\ ~g2 -> Parts(<<>>, A \o B, "add")      \* depressive     (None, A + B)
    [] ~g1 /\ g2  -> Parts(B, A, "add")              \* anti-hebbian   (B, A)
    [] g1 /\ ~g2  -> Parts(A, B, "add")              \* hebbian        (A, B)
    [] g1 /\ g2   -> Parts(A \o B, <<>>, "add")      \* potentiative   (A + B, None)

\* delay_adj_two_factor_stdp.py:528:  match (l1, l2) with l = (rate < 0) or (rate * signal < 0);
\* the code names the second term first in its tuples
MatchLt(l1, l2, A, B) ==
  CASE l1 /\ l2   -> Parts(<<>>, B \o A, "add")      \* (None, B + A)
    [] l1 /\ ~l2  -> Parts(B, A, "add")              \* (B, A)
    [] ~l1 /\ l2  -> Parts(A, B, "add")              \* (A, B)
    [] ~l1 /\ ~l2 -> Parts(B \o A, <<>>, "add")      \* (B + A, None)

\* three_factor_stdp.py:563 (tensor reward): per-sample selection then concatenation
TensorGe(r1, r2, sv) ==
  LET A_reg == Sel("T1", sv, "reg", 1)
      A_inv == Sel("T1", sv, "inv", 1)
      B_reg == Sel("T2", sv, "reg", 1)
      B_inv == Sel("T2", sv, "inv", 1)
  IN CASE ~(r1 >= 0) /\ ~(r2 >= 0) -> Parts(A_inv \o B_inv, A_reg \o B_reg, "cat")
       [] ~(r1 >= 0) /\ (r2 >= 0)  -> Parts(A_inv \o B_reg, A_reg \o B_inv, "cat")
       [] (r1 >= 0) /\ ~(r2 >= 0)  -> Parts(A_reg \o B_inv, A_inv \o B_reg, "cat")
       [] (r1 >= 0) /\ (r2 >= 0)   -> Parts(A_reg \o B_reg, A_inv \o B_inv, "cat")

\* delay_adj_three_factor_stdp.py:688 (tensor reward, delays)
TensorLt(r1, r2, sv) ==
  LET A_reg == Sel("T1", sv, "reg", 1)
      A_inv == Sel("T1", sv, "inv", 1)
      B_reg == Sel("T2", sv, "reg", 1)
      B_inv == Sel("T2", sv, "inv", 1)
  IN CASE (r1 < 0) /\ (r2 < 0)   -> Parts(A_inv \o B_inv, A_reg \o B_reg, "cat")
       [] (r1 < 0) /\ ~(r2 < 0)  -> Parts(A_inv \o B_reg, A_reg \o B_inv, "cat")
       [] ~(r1 < 0) /\ (r2 < 0)  -> Parts(A_reg \o B_inv, A_inv \o B_reg, "cat")
       [] ~(r1 < 0) /\ ~(r2 < 0) -> Parts(A_reg \o B_reg, A_inv \o B_inv, "cat")

\* kernel_stdp.py:296:  (sum clamp_min(v, 0), -(sum clamp_max(v, 0))) element by element;
\* homeostasis: pos = max(k, 0), neg = max(-k, 0)
RECURSIVE ClampSide(_, _, _, _)
ClampSide(t, cv, want, e) ==
  IF e > Len(cv) THEN <<>>
  ELSE (IF cv[e] = want THEN <<Item(t, e, 1)>> ELSE <<>>) \o ClampSide(t, cv, want, e + 1)
Clamp(t, cv) == Parts(ClampSide(t, cv, 1, 1), ClampSide(t, cv, -1, 1), "clamp")

MulV(c, cv) == [e \in DOMAIN cv |-> c * cv[e]]

Route(cf, call) ==
  LET k == cf.k
      r1 == cf.r1
      r2 == cf.r2
      A == <<Item("T1", 0, 1)>>
      B == <<Item("T2", 0, 1)>>
  IN CASE k \in KGe2 -> MatchGe(r1 >= 0, r2 >= 0, A, B)
       [] k \in KLt2 -> MatchLt(r1 < 0, r2 < 0, A, B)
       [] k \in KGe3 -> IF call.form = "scalar" THEN MatchGe(r1 * call.s >= 0, r2 * call.s >= 0, A, B)
                        ELSE TensorGe(r1, r2, call.sv)
       [] k \in KLt3 -> IF call.form = "scalar" THEN MatchLt(r1 * call.s < 0, r2 * call.s < 0, A, B)
                        ELSE TensorLt(r1, r2, call.sv)
       [] k \in KClamp -> LET x == Clamp("T1", call.v1)
                              y == Clamp("T2", call.v2)
                          IN [pos |-> x.pos \o y.pos, neg |-> x.neg \o y.neg, posNone |-> FALSE, negNone |-> FALSE, comb |-> "clamp"]
       [] k \in KHomeo -> LET sg == IF k = "HomeoDelay" THEN -r1 ELSE r1
                              x == Clamp("T1", MulV(sg, call.d))
                          IN [pos |-> x.pos, neg |-> x.neg, posNone |-> FALSE, negNone |-> FALSE, comb |-> "clamp"]

(***************************************************************************)
(* Mech: one trainer, several registered cells.                            *)
(*                                                                         *)
(* A trainer is constructed with default hyperparameters df = [r1, r2];    *)
(* register_cell(name, cell, **kwargs) builds the cell's own state from    *)
(* the defaults OVERRIDDEN by the keyword arguments: a cell is [o1, o2]    *)
(* with o a sign class or Inherit.  forward(...) iterates over the cells   *)
(* `for cell, state, monitors in self:`; the loop below carries the        *)
(* variables the code's loop body reads (env): the call's reward, scale    *)
(* and target.  Each cell's routing must come from ITS OWN state, the      *)
(* reward is scaled ONCE for every cell, and a homeostasis cell without a  *)
(* call-level target uses ITS OWN default target.                          *)
(***************************************************************************)
Inherit == 2
Eff(d, o) == IF o = Inherit THEN d ELSE o
CellCf(k, df, cell) == [k |-> k, r1 |-> Eff(df.r1, cell.o1), r2 |-> Eff(df.r2, cell.o2)]

\* what the loop body of forward() sees for cell j: state = the cell's own configuration;
\* sx = how many times |scale| multiplies the magnitudes; tg = whose target rate is used
CellOut(k, df, cell, call, env) ==
  [res |-> Route(CellCf(k, df, cell), call),
   sx |-> IF k \in KGe3 \cup KLt3 THEN env.sx ELSE 0,
   tg |-> IF k \in KHomeo THEN (IF env.tg = "none" THEN "own" ELSE env.tg) ELSE "-"]

\* the environment handed to the next iteration: nothing the next cell reads is rebound
NextEnv(k, env) == env

RECURSIVE LoopFrom(_, _, _, _, _, _)
LoopFrom(k, df, cells, call, env, j) ==
  IF j > Len(cells) THEN <<>>
  ELSE <<CellOut(k, df, cells[j], call, env)>> \o LoopFrom(k, df, cells, call, NextEnv(k, env), j + 1)

Env0(call) == [sx |-> 1, tg |-> IF "tg" \in DOMAIN call THEN call.tg ELSE "-"]
Forward(k, df, cells, call) == LoopFrom(k, df, cells, call, Env0(call), 1)

(***************************************************************************)
(* Abs: the signed rule                                                    *)
(***************************************************************************)
Rate(cf, t) == IF t = "T1" THEN cf.r1 ELSE cf.r2

Rule(cf, call) ==
  LET k == cf.k IN
  CASE k \in KGe2 \cup KLt2 -> {[m |-> Mono(t, 0), sg |-> Rate(cf, t)] : t \in {"T1", "T2"}}
    [] k \in KGe3 \cup KLt3 ->
         IF call.form = "scalar"
         THEN {[m |-> Mono(t, 0), sg |-> Rate(cf, t) * call.s] : t \in {"T1", "T2"}}
         ELSE {[m |-> Mono(t, b), sg |-> Rate(cf, t) * call.sv[b]] : t \in {"T1", "T2"}, b \in DOMAIN call.sv}
    [] k \in KClamp ->
         {[m |-> Mono("T1", e), sg |-> call.v1[e]] : e \in DOMAIN call.v1}
         \cup {[m |-> Mono("T2", e), sg |-> call.v2[e]] : e \in DOMAIN call.v2}
    [] k \in KHomeo ->
         \* k = plasticity * (target - rate) / target, sign reversed for delays
         {[m |-> Mono("T1", e), sg |-> (IF k = "HomeoDelay" THEN -1 ELSE 1) * cf.r1 * call.d[e]] : e \in DOMAIN call.d}

(***************************************************************************)
(* The property                                                            *)
(***************************************************************************)
RECURSIVE CoefSum(_, _, _)
CoefSum(seq, m, j) == IF j > Len(seq) THEN 0
                      ELSE (IF Mono(seq[j].t, seq[j].i) = m THEN seq[j].c ELSE 0) + CoefSum(seq, m, j + 1)
Net(rt, m) == CoefSum(rt.pos, m, 1) - CoefSum(rt.neg, m, 1)
ItemsOf(rt) == {rt.pos[j] : j \in DOMAIN rt.pos} \cup {rt.neg[j] : j \in DOMAIN rt.neg}

\* both parts are sums of non-negative magnitudes with positive coefficients
NonNeg(rt) == \A it \in ItemsOf(rt) : it.c = 1
\* potentiation minus depression is the signed rule, monomial by monomial
Nets(rt, rule) ==
  /\ \A x \in rule : x.sg # 0 => Net(rt, x.m) = x.sg
  /\ \A it \in ItemsOf(rt) : \E x \in rule : x.m = Mono(it.t, it.i)
  /\ \A x \in rule : CoefSum(rt.pos, x.m, 1) + CoefSum(rt.neg, x.m, 1) <= 1    \* handed over once
NoneOK(rt) == (rt.posNone => rt.pos = <<>>) /\ (rt.negNone => rt.neg = <<>>)

SplitOK(cf, call) ==
  LET rt == Route(cf, call) IN NonNeg(rt) /\ Nets(rt, Rule(cf, call)) /\ NoneOK(rt)

\* --- direction ------------------------------------------------------------------
InOnly(seqIn, seqOut, t) ==
  /\ \E j \in DOMAIN seqIn : seqIn[j].t = t
  /\ \A j \in DOMAIN seqOut : seqOut[j].t # t
\* Hebbian signs as documented: weights (+, -); delay variants (eta_- < 0, eta_+ > 0)
Hebbian(cf) == IF cf.k \in KLt2 \cup KLt3 THEN cf.r1 = -1 /\ cf.r2 = 1 ELSE cf.r1 = 1 /\ cf.r2 = -1

\* causal pairs strengthen / anti-causal weaken a WEIGHT under Hebbian signs and a
\* non-negative reward; for the delay variants the documented rule shortens the delay of
\* causal pairs and lengthens it for anti-causal ones
DirectionOK(cf, call) ==
  LET rt == Route(cf, call) IN
  (cf.k \in KGe2 \cup KLt2 \cup KGe3 \cup KLt3 /\ Hebbian(cf)
     /\ (call.form = "none" \/ (call.form = "scalar" /\ call.s = 1))) =>
     IF cf.k \in DelayKinds
     THEN InOnly(rt.neg, rt.pos, "T1") /\ InOnly(rt.pos, rt.neg, "T2")
     ELSE InOnly(rt.pos, rt.neg, "T1") /\ InOnly(rt.neg, rt.pos, "T2")

\* a negative reward flips the direction: the parts of -s are the parts of s exchanged
SetOf(seq) == {seq[j] : j \in DOMAIN seq}
NegOf(call) == IF call.form = "scalar" THEN [call EXCEPT !.s = -call.s]
               ELSE [call EXCEPT !.sv = [b \in DOMAIN call.sv |-> -call.sv[b]]]
NoZero(call) == IF call.form = "scalar" THEN call.s # 0 ELSE \A b \in DOMAIN call.sv : call.sv[b] # 0
RewardFlipOK(cf, call) ==
  (cf.k \in KGe3 \cup KLt3 /\ NoZero(call) /\ cf.r1 # 0 /\ cf.r2 # 0) =>
     LET a == Route(cf, call)
         b == Route(cf, NegOf(call))
     IN SetOf(a.pos) = SetOf(b.neg) /\ SetOf(a.neg) = SetOf(b.pos)

\* homeostasis with positive plasticity: rate above target (class of target - rate = -1)
\* lowers weight / bias and lengthens the delay; below target the opposite
HomeoDirectionOK(cf, call) ==
  (cf.k \in KHomeo /\ cf.r1 = 1) =>
     LET rt == Route(cf, call) IN
     \A e \in DOMAIN call.d :
        LET down == IF cf.k = "HomeoDelay" THEN call.d[e] = 1 ELSE call.d[e] = -1
            up == IF cf.k = "HomeoDelay" THEN call.d[e] = -1 ELSE call.d[e] = 1
        IN /\ down => (Net(rt, Mono("T1", e)) = -1)
           /\ up => (Net(rt, Mono("T1", e)) = 1)

=============================================================================
