------------------------------ MODULE SplitMC ------------------------------
(***************************************************************************)
(* Exhaustive check of the routing tables (C09) and generation of the      *)
(* expectations the harness compares the real trainers with.               *)
(*                                                                         *)
(* State: a trainer configuration cf = [k, r1, r2] (kind and the sign      *)
(* classes of its two learning rates; plasticity for homeostasis), the     *)
(* number n of training calls made, and the two parts accumulated in the   *)
(* updater so far (items tagged with the call that handed them over).      *)
(* Every initial state is one configuration; Train(call) hands over the    *)
(* parts of one trainer call (every reward sign pattern / element sign     *)
(* pattern).  Invariants quantify over ALL calls applicable in each state. *)
(***************************************************************************)
EXTENDS SplitCore, Json

CONSTANTS
  KindSet,     \* kinds explored
  B,           \* batch size for tensor rewards
  EN,          \* elements for the clamp-split kinds
  MaxCalls     \* training calls accumulated before an update

VARIABLE st
vars == <<st>>

Cfgs == {[k |-> k, r1 |-> a, r2 |-> b] : k \in KindSet \ KHomeo, a \in Classes, b \in Classes}
        \cup {[k |-> k, r1 |-> a, r2 |-> 0] : k \in KindSet \cap KHomeo, a \in Classes}

Calls(cf) ==
  CASE cf.k \in KGe2 \cup KLt2 -> {[form |-> "none"]}
    [] cf.k \in KGe3 \cup KLt3 ->
         {[form |-> "scalar", s |-> c] : c \in Classes}
         \cup {[form |-> "tensor", sv |-> v] : v \in [1..B -> Classes]}
    [] cf.k \in KClamp -> {[form |-> "elems", v1 |-> x, v2 |-> y] : x \in [1..EN -> Classes], y \in [1..EN -> Classes]}
    [] cf.k \in KHomeo -> {[form |-> "rates", d |-> x] : x \in [1..EN -> Classes]}

Tag(seq, n) == [j \in DOMAIN seq |-> [t |-> seq[j].t, i |-> seq[j].i, c |-> seq[j].c, n |-> n]]

Apply(s, call) ==
  LET rt == Route(s.cf, call) IN
  {[st |-> [s EXCEPT !.n = @ + 1, !.pos = @ \o Tag(rt.pos, s.n + 1), !.neg = @ \o Tag(rt.neg, s.n + 1),
                     !.rule = @ \cup {[m |-> x.m, sg |-> x.sg, n |-> s.n + 1] : x \in Rule(s.cf, call)}],
    ret |-> rt]}

Init == \E cf \in Cfgs : st = [cf |-> cf, n |-> 0, pos |-> <<>>, neg |-> <<>>, rule |-> {}]
Next == /\ st.n < MaxCalls
        /\ \E call \in Calls(st.cf) : \E o \in Apply(st, call) : st' = o.st
Spec == Init /\ [][Next]_vars

(***************************************************************************)
(* Properties                                                              *)
(***************************************************************************)
\* every call in every configuration: parts non-negative, net = signed rule, None only when empty
\* (they only depend on the configuration, which never changes: evaluated where n = 0)
Split == st.n > 0 \/ \A call \in Calls(st.cf) : SplitOK(st.cf, call)
Direction == st.n > 0 \/ \A call \in Calls(st.cf) :
                DirectionOK(st.cf, call) /\ RewardFlipOK(st.cf, call) /\ HomeoDirectionOK(st.cf, call)

\* what has accumulated in the updater over several calls (e.g. a positive then a
\* negative reward): still only positive coefficients, and pos - neg is the sum of the
\* signed rules of the calls made
RECURSIVE AccCoef(_, _, _, _)
AccCoef(seq, m, n, j) ==
  IF j > Len(seq) THEN 0
  ELSE (IF seq[j].t = m.t /\ seq[j].i = m.i /\ seq[j].n = n THEN seq[j].c ELSE 0) + AccCoef(seq, m, n, j + 1)
Accumulated ==
  /\ \A j \in DOMAIN st.pos : st.pos[j].c = 1
  /\ \A j \in DOMAIN st.neg : st.neg[j].c = 1
  /\ \A x \in st.rule : x.sg # 0 => AccCoef(st.pos, x.m, x.n, 1) - AccCoef(st.neg, x.m, x.n, 1) = x.sg

(***************************************************************************)
(* Generation: one line per state with the routing of every call           *)
(***************************************************************************)
Emit == st.n > 0 \/
        PrintT(ToJson([s |-> st.cf, out |-> {[op |-> call, res |-> Route(st.cf, call), rule |-> Rule(st.cf, call)] :
                                              call \in Calls(st.cf)}]))
=============================================================================
