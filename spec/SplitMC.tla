------------------------------ MODULE SplitMC ------------------------------
(***************************************************************************)
(* Exhaustive check of the routing tables (C09) and generation of the      *)
(* expectations the harness compares the real trainers with.               *)
(*                                                                         *)
(* State: a trainer of kind k constructed with default sign classes        *)
(* df = [r1, r2] (plasticity for homeostasis), the cells registered on it  *)
(* (each [o1, o2]: per-cell overrides or Inherit), the number n of         *)
(* training calls made, and the parts accumulated in every cell's updater  *)
(* so far (items tagged with cell and call).  Every initial state is one   *)
(* trainer with its cells; Train(call) is one forward() over all cells     *)
(* (every reward sign pattern / element sign pattern / target source).     *)
(* Invariants quantify over ALL calls applicable in each state.            *)
(***************************************************************************)
EXTENDS SplitCore, Json

CONSTANTS
  KindSet,     \* kinds explored
  B,           \* batch size for tensor rewards
  EN,          \* elements for the clamp-split kinds
  MaxCalls,    \* training calls accumulated before an update
  NC,          \* at most NC cells registered on the trainer
  DfClassesO,  \* sign classes offered for the constructor defaults          } cfg files take no negative
  OvClassesO   \* what a cell may override a rate with (classes / Inherit)   } numbers: passed as class + 1

VARIABLE st
vars == <<st>>

DfClasses == {c - 1 : c \in DfClassesO}
OvClasses == {c - 1 : c \in OvClassesO}      \* 3 stands for Inherit (= 2)

Dfs(k) == IF k \in KHomeo THEN {[r1 |-> a, r2 |-> 0] : a \in DfClasses}
          ELSE {[r1 |-> a, r2 |-> b] : a \in DfClasses, b \in DfClasses}
CellCfgs(k) == IF k \in KHomeo THEN {[o1 |-> a, o2 |-> Inherit] : a \in OvClasses}
               ELSE {[o1 |-> a, o2 |-> b] : a \in OvClasses, b \in OvClasses}
CellLists(k) == UNION {[1..m -> CellCfgs(k)] : m \in 1..NC}

Calls(k) ==
  CASE k \in KGe2 \cup KLt2 -> {[form |-> "none"]}
    [] k \in KGe3 \cup KLt3 ->
         {[form |-> "scalar", s |-> c] : c \in Classes}
         \cup {[form |-> "tensor", sv |-> v] : v \in [1..B -> Classes]}
    [] k \in KClamp -> {[form |-> "elems", v1 |-> x, v2 |-> y] : x \in [1..EN -> Classes], y \in [1..EN -> Classes]}
    [] k \in KHomeo -> {[form |-> "rates", d |-> x, tg |-> g] : x \in [1..EN -> Classes], g \in {"call", "none"}}

Tag(seq, j, n) == [i \in DOMAIN seq |-> [t |-> seq[i].t, i |-> seq[i].i, c |-> seq[i].c, cell |-> j, n |-> n]]
RECURSIVE Cat(_, _)
Cat(f, j) == IF j > Len(f) THEN <<>> ELSE f[j] \o Cat(f, j + 1)

Apply(s, call) ==
  LET outs == Forward(s.k, s.df, s.cells, call)
      m == s.n + 1
  IN {[st |-> [s EXCEPT !.n = m,
                        !.pos = @ \o Cat([j \in DOMAIN outs |-> Tag(outs[j].res.pos, j, m)], 1),
                        !.neg = @ \o Cat([j \in DOMAIN outs |-> Tag(outs[j].res.neg, j, m)], 1),
                        !.rule = @ \cup UNION {{[m |-> x.m, sg |-> x.sg, cell |-> j, n |-> m] :
                                                   x \in Rule(CellCf(s.k, s.df, s.cells[j]), call)} : j \in DOMAIN s.cells}],
    ret |-> outs]}

Init == \E k \in KindSet : \E df \in Dfs(k) : \E cl \in CellLists(k) :
           st = [k |-> k, df |-> df, cells |-> cl, n |-> 0, pos |-> <<>>, neg |-> <<>>, rule |-> {}]
Next == /\ st.n < MaxCalls
        /\ \E call \in Calls(st.k) : \E o \in Apply(st, call) : st' = o.st
Spec == Init /\ [][Next]_vars

(***************************************************************************)
(* Properties (they only depend on the trainer and its cells, which never  *)
(* change: evaluated where n = 0)                                          *)
(***************************************************************************)
\* every call, every cell: parts non-negative, net = the signed rule of THAT CELL's own
\* configuration, None only when empty
Split == st.n > 0 \/
  \A call \in Calls(st.k) :
     LET outs == Forward(st.k, st.df, st.cells, call) IN
     \A j \in DOMAIN st.cells :
        LET cf == CellCf(st.k, st.df, st.cells[j])
            rt == outs[j].res
        IN NonNeg(rt) /\ Nets(rt, Rule(cf, call)) /\ NoneOK(rt)

\* no state leaks between the cells of one trainer: what a cell receives is what it would
\* receive were it the only cell registered; the reward is scaled exactly once for every
\* cell; a homeostasis cell falls back on its own target
CellsIndependent == st.n > 0 \/
  \A call \in Calls(st.k) :
     LET outs == Forward(st.k, st.df, st.cells, call) IN
     \A j \in DOMAIN st.cells :
        /\ outs[j] = Forward(st.k, st.df, <<st.cells[j]>>, call)[1]
        /\ (st.k \in KGe3 \cup KLt3 => outs[j].sx = 1)
        /\ (st.k \in KHomeo => outs[j].tg = IF call.tg = "call" THEN "call" ELSE "own")

Direction == st.n > 0 \/
  \A call \in Calls(st.k) : \A j \in DOMAIN st.cells :
     LET cf == CellCf(st.k, st.df, st.cells[j]) IN
     DirectionOK(cf, call) /\ RewardFlipOK(cf, call) /\ HomeoDirectionOK(cf, call)

\* what has accumulated in the updaters over several calls (e.g. a positive then a
\* negative reward): still only positive coefficients, and pos - neg is the sum of the
\* signed rules of the calls made, cell by cell
RECURSIVE AccCoef(_, _, _, _, _)
AccCoef(seq, m, j, n, i) ==
  IF i > Len(seq) THEN 0
  ELSE (IF seq[i].t = m.t /\ seq[i].i = m.i /\ seq[i].cell = j /\ seq[i].n = n THEN seq[i].c ELSE 0)
       + AccCoef(seq, m, j, n, i + 1)
Accumulated ==
  /\ \A i \in DOMAIN st.pos : st.pos[i].c = 1
  /\ \A i \in DOMAIN st.neg : st.neg[i].c = 1
  /\ \A x \in st.rule : x.sg # 0 =>
        AccCoef(st.pos, x.m, x.cell, x.n, 1) - AccCoef(st.neg, x.m, x.cell, x.n, 1) = x.sg

(***************************************************************************)
(* Generation: one line per trainer (n = 0) with, for every call, what     *)
(* every cell receives and the signed rule of every cell                   *)
(***************************************************************************)
Emit == st.n > 0 \/
        PrintT(ToJson([s |-> [k |-> st.k, df |-> st.df, cells |-> st.cells],
                       out |-> {[op |-> call, cells |-> Forward(st.k, st.df, st.cells, call),
                                 rules |-> [j \in DOMAIN st.cells |-> Rule(CellCf(st.k, st.df, st.cells[j]), call)]] :
                                  call \in Calls(st.k)}]))
=============================================================================
