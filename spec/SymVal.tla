------------------------------ MODULE SymVal ------------------------------
(***************************************************************************)
(* Symbolic real values (DESIGN 2.4 device 3, Appendix B "SymVal").          *)
(*                                                                          *)
(* TLC has no reals and no exp.  A real quantity is a finite BAG OF         *)
(* MONOMIALS in normal form: a set of terms                                 *)
(*                                                                          *)
(*      [c |-> constant tag, b |-> base tag, e |-> exponent, m |-> mult.]   *)
(*                                                                          *)
(* denoting   SUM  m * const(c) * base(b) ^ e .                             *)
(*   c  names a real constant the harness knows ("A" amplitude, "Q/tau" ..) *)
(*   b  names a decay base PER TICK (b = exp(-tick/tau)); the base "1" is   *)
(*      the constant 1 (its exponent is kept at 0)                          *)
(*   e  integer exponent = age in ticks (a step is D ticks, so an off-grid  *)
(*      exponential interpolation is just a non-multiple of D)              *)
(*   m  non-zero integer multiplicity                                       *)
(* Normal form: at most one term per key (c, b, e), no term with m = 0, so  *)
(* that equality of values is equality of sets and TLC compares exactly.    *)
(*   Decay(v, d)  = "d more ticks have passed"  (add d to every exponent)   *)
(*   an event     = Plus(v, Mono(c, b, 0, 1))   (insert age 0)              *)
(* The harness (harness/symeval.py) evaluates terms in float64 for concrete *)
(* parameter sets; EvalDy below evaluates them exactly in scaled integers   *)
(* for the dyadic recipe (base^D a power of 1/2, constants multiples of 2^-CK)*)
(***************************************************************************)
EXTENDS Integers, FiniteSets, Sequences

Zero == {}
Term(c, b, e, m) == [c |-> c, b |-> b, e |-> e, m |-> m]
Mono(c, b, e, m) == IF m = 0 THEN {} ELSE {Term(c, b, IF b = "1" THEN 0 ELSE e, m)}

KeysOf(v) == {[c |-> t.c, b |-> t.b, e |-> t.e] : t \in v}
Coef(v, k) ==
  LET S == {t \in v : t.c = k.c /\ t.b = k.b /\ t.e = k.e}
  IN IF S = {} THEN 0 ELSE (CHOOSE t \in S : TRUE).m

Plus(u, v) ==
  {t \in {Term(k.c, k.b, k.e, Coef(u, k) + Coef(v, k)) : k \in KeysOf(u) \cup KeysOf(v)} : t.m # 0}
Scale(v, n) == IF n = 0 THEN {} ELSE {[t EXCEPT !.m = t.m * n] : t \in v}
Neg(v) == Scale(v, -1)
Minus(u, v) == Plus(u, Neg(v))

\* d more ticks have passed: every decaying term ages by d
Decay(v, d) == {[t EXCEPT !.e = IF t.b = "1" THEN 0 ELSE t.e + d] : t \in v}

\* multiply by another real constant: the tag becomes the product tag "w*c"
\* (the harness evaluates a tag  x*y  as const(x) * const(y))
Tagged(v, w) == {[t EXCEPT !.c = w \o "*" \o t.c] : t \in v}

RECURSIVE PlusSeq(_)
PlusSeq(s) == IF Len(s) = 0 THEN Zero ELSE Plus(s[1], PlusSeq(Tail(s)))

\* sum of F(x) over a finite set S (F given as a function with S \subseteq DOMAIN F)
RECURSIVE PlusOver(_, _)
PlusOver(S, F) ==
  IF S = {} THEN Zero
  ELSE LET x == CHOOSE y \in S : TRUE IN Plus(F[x], PlusOver(S \ {x}, F))

IsTerm(t) == /\ DOMAIN t = {"c", "b", "e", "m"}
             /\ t.m \in Int /\ t.m # 0 /\ t.e \in Int
             /\ (t.b = "1" => t.e = 0)
Normal(v) == /\ \A t \in v : IsTerm(t)
             /\ \A s, t \in v : (s.c = t.c /\ s.b = t.b /\ s.e = t.e) => s = t

(***************************************************************************)
(* Exact evaluation in the dyadic recipe: every base satisfies base^D = 1/2,*)
(* every constant is CS[c] * 2^-CK with CS[c] an integer.  The result is    *)
(* value * 2^K as an integer, or -1 when it is not an integer (exponent off *)
(* the grid or too deep): the trace specifications then reject.             *)
(***************************************************************************)
RECURSIVE Pow2(_)
Pow2(n) == IF n <= 0 THEN 1 ELSE 2 * Pow2(n - 1)

\* one term, scaled by 2^K:  m * CS[c] * 2^(K - CK - h * e/D), h = HB[b] halvings per step of base b
TermDyH(t, CS, CK, K, D, HB) ==
  LET age == IF t.b = "1" THEN 0 ELSE t.e
      h == IF t.b = "1" THEN 0 ELSE HB[t.b]
  IN IF age % D # 0 \/ age < 0 \/ K - CK - h * (age \div D) < 0 THEN [ok |-> FALSE, v |-> 0]
     ELSE [ok |-> TRUE, v |-> t.m * CS[t.c] * Pow2(K - CK - h * (age \div D))]

RECURSIVE SumDyH(_, _, _, _, _, _)
SumDyH(v, CS, CK, K, D, HB) ==
  IF v = {} THEN [ok |-> TRUE, v |-> 0]
  ELSE LET t == CHOOSE x \in v : TRUE
           h == TermDyH(t, CS, CK, K, D, HB)
           r == SumDyH(v \ {t}, CS, CK, K, D, HB)
       IN [ok |-> h.ok /\ r.ok, v |-> h.v + r.v]

\* "bad" is returned for values that the dyadic recipe cannot represent
EvalDyH(v, CS, CK, K, D, HB) ==
  LET r == SumDyH(v, CS, CK, K, D, HB) IN IF r.ok THEN [k |-> "i", i |-> r.v] ELSE [k |-> "bad"]
\* every base halves once per step
EvalDy(v, CS, CK, K, D) == EvalDyH(v, CS, CK, K, D, [q |-> 1, r |-> 1, qd |-> 1, qr |-> 1])
=============================================================================
