-------------------------- MODULE SynapseHistCore --------------------------
(***************************************************************************)
(* Functional core of the shipped synapses (C04, reused by C06):            *)
(*   inferno/neural/synapses/{current,expcurrent,mixins}.py                 *)
(*                                                                          *)
(*   Mech - what the code does: one RecordTensor ring per recorded quantity *)
(*          (spike_, current_ or pos_current_/neg_current_), the per-step   *)
(*          RECURRENCE of each class, and the generalised delayed reader    *)
(*          `_synparam_at` (clamp, time-indexed select with the class's     *)
(*          interpolation, overbound replacement), one operator per public  *)
(*          method.  The ring operators of RecordCore are reused.           *)
(*   Abs  - what C04 states: the list of inputs since the last clear; the   *)
(*          current is the SUM OVER PAST SPIKES of the documented response  *)
(*          at their age; "k steps ago" is the closed form of the list      *)
(*          without its k newest entries (rest: zero current, no spike,     *)
(*          before the start / the last clear).                             *)
(*                                                                          *)
(* An input of one element is [s |-> 0/1 spike, j |-> injected current in   *)
(* units (delta-plus only)].  Currents are SymVal bags over the constants   *)
(* "Q/dt", "Q/tau", "Q/dd" (= Q/(tau_d - tau_r)), "J" (one unit of injected *)
(* current), "OB" (the configured overbound current) and the per-tick decay *)
(* bases "q", "qd", "qr".  Times are ticks, a step is cf.dtk ticks.         *)
(*                                                                          *)
(* cf = [sk, dtk, dly, smode, tol2, cob, sob]                               *)
(*   sk    "delta" | "dplus" | "sexp" | "dexp"                              *)
(*   dly   maximum delay in ticks; smode "previous" | "nearest"             *)
(*   tol2  interpolation tolerance as 2*tol+1 half-ticks                    *)
(*   cob   current overbound "none" | "val";  sob spike overbound           *)
(*         "none" | "t" | "f"                                               *)
(***************************************************************************)
EXTENDS RecordCore, SymVal

SynKinds == {"delta", "dplus", "sexp", "dexp"}
ExpKinds == {"sexp", "dexp"}

HistSize(cf) == RecordSize(cf.dtk, cf.dly, TRUE)          \* inclusive record of duration = delay

RingZ(cf, E, z) ==
  [kind |-> "ready", dty |-> "f", n |-> HistSize(cf), ptr |-> 0, store |-> Fill(HistSize(cf), E, z),
   dtk |-> cf.dtk, durk |-> cf.dly, incl |-> TRUE, econ |-> -1]
NoRing == [kind |-> "none"]

HasC1(sk) == sk \in {"dplus", "sexp", "dexp"}      \* current_ (or pos_current_)
HasC2(sk) == sk = "dexp"                           \* neg_current_

SInit(cf, E) ==
  [cf |-> cf, spk |-> RingZ(cf, E, 0),
   c1 |-> IF HasC1(cf.sk) THEN RingZ(cf, E, Zero) ELSE NoRing,
   c2 |-> IF HasC2(cf.sk) THEN RingZ(cf, E, Zero) ELSE NoRing]

PushRow(ring, row, inpl) == MIncrSt(MWriteSt(ring, row, 0, inpl), 1)
Latest(ring) == Slot(ring, 1)

Pulse(s) == Mono("Q/dt", "1", 0, s)                      \* spikes * (Q / dt)

\* the current the synapse reports now
SCurrent(ms) ==
  LET E == ElemsOf(ms.spk) IN
  CASE ms.cf.sk = "delta" -> [e \in 1..E |-> Pulse(Latest(ms.spk)[e])]     \* derived from the latest spikes
    [] ms.cf.sk = "dexp"  -> [e \in 1..E |-> Minus(Latest(ms.c1)[e], Latest(ms.c2)[e])]
    [] OTHER              -> Latest(ms.c1)

\* forward(spikes [, injected currents])
SStep(ms, v, inpl) ==
  LET E == Len(v)
      D == ms.cf.dtk
      sk == ms.cf.sk
      spk1 == PushRow(ms.spk, [e \in 1..E |-> v[e].s], inpl)
      c1row == [e \in 1..E |->
                 CASE sk = "dplus" -> Plus(Pulse(v[e].s), Mono("J", "1", 0, v[e].j))       \* sum(in*Q/dt, inj)
                   [] sk = "sexp"  -> Plus(Decay(Latest(ms.c1)[e], D), Mono("Q/tau", "q", 0, v[e].s))
                   [] sk = "dexp"  -> Plus(Decay(Latest(ms.c1)[e], D), Mono("Q/dd", "qd", 0, v[e].s))
                   [] OTHER        -> Zero]
      c2row == [e \in 1..E |-> Plus(Decay(Latest(ms.c2)[e], D), Mono("Q/dd", "qr", 0, v[e].s))]
      ms1 == [ms EXCEPT !.spk = spk1,
                        !.c1 = IF HasC1(sk) THEN PushRow(ms.c1, c1row, inpl) ELSE ms.c1,
                        !.c2 = IF HasC2(sk) THEN PushRow(ms.c2, c2row, inpl) ELSE ms.c2]
  IN IF E # ElemsOf(ms.spk) THEN Err(ms, "RuntimeError")
     ELSE {Out(ms1, [t |-> "cur", v |-> SCurrent(ms1)])}

ResetRing(r, z) == IF r.kind = "ready" THEN [r EXCEPT !.ptr = 0, !.store = Fill(r.n, ElemsOf(r), z)] ELSE r
SClear(ms) ==
  {Out([ms EXCEPT !.spk = ResetRing(ms.spk, 0), !.c1 = ResetRing(ms.c1, Zero), !.c2 = ResetRing(ms.c2, Zero)],
       [t |-> "ok"])}

(***************************************************************************)
(* The delayed reader `_synparam_at`, per element.                          *)
(***************************************************************************)
Clamp(x, lo, hi) == IF x < lo THEN lo ELSE IF x > hi THEN hi ELSE x

\* bounded selector and the raw select outcome on one ring
ParamAt(ring, e, tau, tol2) ==
  IF ring.n = 1 THEN [b |-> 0, r |-> [x |-> "ex", v |-> Latest(ring)[e]]]              \* undelayed: peek
  ELSE LET b == Clamp(tau, 0, ring.durk) IN [b |-> b, r |-> SelElem(ring, e, b, 1, tol2)]

\* previous / nearest between two samples: the set of admissible results (a tie at exactly
\* half a step is decided by float rounding in the implementation: either sample)
StepInterp(smode, r) ==
  IF r.x = "ex" THEN {r.v}
  ELSE IF smode = "previous" THEN {r.od}
  ELSE IF 2 * r.el > r.D THEN {r.nw} ELSE IF 2 * r.el < r.D THEN {r.od} ELSE {r.od, r.nw}
WithD(r, D) == IF r.x = "ex" THEN r ELSE [x |-> "in", od |-> r.od, nw |-> r.nw, el |-> r.el, D |-> D]

\* analytic decay from the older sample
DecayInterp(r) == IF r.x = "ex" THEN r.v ELSE Decay(r.od, r.el)

InTol(tau, b, tol2) == 2 * Abs(tau - b) <= tol2
OBCur == Mono("OB", "1", 0, 1)

\* current_at for one element: the set of admissible values
SCurrentAtElem(ms, e, tau) ==
  LET cf == ms.cf
      raw == CASE cf.sk = "delta" ->
                    LET p == ParamAt(ms.spk, e, tau, cf.tol2)
                    IN [b |-> p.b, vs |-> {Pulse(s) : s \in StepInterp(cf.smode, WithD(p.r, cf.dtk))}]
               [] cf.sk = "dplus" ->
                    LET p == ParamAt(ms.c1, e, tau, cf.tol2)
                    IN [b |-> p.b, vs |-> StepInterp(cf.smode, WithD(p.r, cf.dtk))]
               [] cf.sk = "sexp" ->
                    LET p == ParamAt(ms.c1, e, tau, cf.tol2) IN [b |-> p.b, vs |-> {DecayInterp(p.r)}]
               [] cf.sk = "dexp" ->
                    LET p == ParamAt(ms.c1, e, tau, cf.tol2)
                        n == ParamAt(ms.c2, e, tau, cf.tol2)
                    IN [b |-> p.b, vs |-> {Minus(DecayInterp(p.r), DecayInterp(n.r))}]
  IN IF cf.cob = "none" \/ InTol(tau, raw.b, cf.tol2) THEN raw.vs ELSE {OBCur}

\* pos_current_at / neg_current_at of the double-exponential synapse: the decaying / the rising component alone,
\* each read from its own record and decayed analytically with ITS time constant between steps
SCompAtElem(ms, e, tau, which) ==
  LET cf == ms.cf
      p == ParamAt(IF which = "pos" THEN ms.c1 ELSE ms.c2, e, tau, cf.tol2)
  IN IF cf.cob = "none" \/ InTol(tau, p.b, cf.tol2) THEN {DecayInterp(p.r)} ELSE {OBCur}

\* spike_at for one element (as documented: tolerance and overbound in their places)
SSpikeAtElem(ms, e, tau) ==
  LET cf == ms.cf
      p == ParamAt(ms.spk, e, tau, cf.tol2)
      vs == StepInterp(cf.smode, WithD(p.r, cf.dtk))
  IN IF cf.sob = "none" \/ InTol(tau, p.b, cf.tol2) THEN vs ELSE {IF cf.sob = "t" THEN 1 ELSE 0}

\* all combinations of per-element admissible values: ss a sequence of sets
RECURSIVE SeqProd(_)
SeqProd(ss) == IF Len(ss) = 0 THEN {<<>>} ELSE {<<x>> \o rest : x \in Head(ss), rest \in SeqProd(Tail(ss))}

SCurrentAt(ms, sel) ==
  LET E == ElemsOf(ms.spk)
  IN IF Len(sel) # E THEN Err(ms, "RuntimeError")
     ELSE {Out(ms, [t |-> "cur", v |-> c]) : c \in SeqProd([e \in 1..E |-> SCurrentAtElem(ms, e, sel[e])])}
SCompAt(ms, sel, which) ==
  LET E == ElemsOf(ms.spk)
  IN IF Len(sel) # E THEN Err(ms, "RuntimeError")
     ELSE {Out(ms, [t |-> "cur", v |-> c]) : c \in SeqProd([e \in 1..E |-> SCompAtElem(ms, e, sel[e], which)])}
SSpikeAt(ms, sel) ==
  LET E == ElemsOf(ms.spk)
  IN IF Len(sel) # E THEN Err(ms, "RuntimeError")
     ELSE {Out(ms, [t |-> "spk", v |-> c]) : c \in SeqProd([e \in 1..E |-> SSpikeAtElem(ms, e, sel[e])])}

(***************************************************************************)
(* The wiring of SpikeMixin.spike_at AS THE CODE HAS IT (hypothesis D7):    *)
(* `_synparam_at(.., self.__overbound, self.__tolerance, None)` hands the   *)
(* overbound where the tolerance belongs and vice versa.  Not used by the   *)
(* checked specification; SynapseHistMC!SpikeAtWiringAgrees makes TLC       *)
(* exhibit the difference at design level.                                  *)
(*   tolerance := overbound: None -> TypeError in the comparison,           *)
(*                           False -> 0 (exact), True -> 1.0 ms             *)
(*   overbound := tolerance: a float, never None; as a spike it is          *)
(*                           (tolerance # 0)                                *)
(***************************************************************************)
SSpikeAtElemSwapped(ms, e, tau, tolpos) ==
  LET cf == ms.cf IN
  IF cf.sob = "none" THEN {-1}                \* TypeError
  ELSE LET t2 == 0                                   \* False as a tolerance (True = 1.0 is not modelled)
           p == ParamAt(ms.spk, e, tau, t2)
           vs == StepInterp(cf.smode, WithD(p.r, cf.dtk))
       IN IF InTol(tau, p.b, t2) THEN vs ELSE {IF tolpos THEN 1 ELSE 0}

SApply(ms, o) ==
  CASE o.a = "step"       -> SStep(ms, o.v, FALSE)
    [] o.a = "clear"      -> SClear(ms)
    [] o.a = "current"    -> {Out(ms, [t |-> "cur", v |-> SCurrent(ms)])}
    [] o.a = "spike"      -> {Out(ms, [t |-> "spk", v |-> Latest(ms.spk)])}
    [] o.a = "current_at" -> SCurrentAt(ms, o.sel)
    [] o.a = "spike_at"   -> SSpikeAt(ms, o.sel)
    [] o.a = "pos_at"     -> SCompAt(ms, o.sel, "pos")
    [] o.a = "neg_at"     -> SCompAt(ms, o.sel, "neg")

(***************************************************************************)
(* Abs.  as = [cf, E, hist]; hist[j][e] the input of element e at the j-th   *)
(* step since the last clear (or construction).                             *)
(***************************************************************************)
SAInit(cf, E) == [cf |-> cf, E |-> E, hist |-> <<>>]

\* impulse-response sum after the inputs h of one element (oldest first; may be empty)
Response(sk, h, D) ==
  LET n == Len(h)
      S == {j \in 1..n : h[j].s = 1}
      age(j) == (n - j) * D
  IN CASE sk = "delta" -> IF n = 0 THEN Zero ELSE Pulse(h[n].s)                   \* Q/dt at age 0 only
       [] sk = "dplus" -> IF n = 0 THEN Zero ELSE Plus(Pulse(h[n].s), Mono("J", "1", 0, h[n].j))
       [] sk = "sexp"  -> {Term("Q/tau", "q", age(j), 1) : j \in S}              \* Q/tau * q^age
       [] sk = "dexp"  -> {Term("Q/dd", "qd", age(j), 1) : j \in S}
                          \cup {Term("Q/dd", "qr", age(j), -1) : j \in S}        \* Q/dd * (qd^age - qr^age)

SElemHist(as, e, len) == [j \in 1..len |-> as.hist[j][e]]
\* current / spike of element e, k steps ago (rest before the start / last clear)
CurAgo(as, k, e) ==
  LET n == Len(as.hist) IN IF k < n THEN Response(as.cf.sk, SElemHist(as, e, n - k), as.cf.dtk) ELSE Zero
SpkAgo(as, k, e) ==
  LET n == Len(as.hist) IN IF k < n THEN as.hist[n - k][e].s ELSE 0

\* value at b ticks before present: on the grid the recorded value, between grid points
\* the synapse's rule applied to the two neighbouring recorded values
StepRule(smode, od, nw, el, D) ==
  IF smode = "previous" THEN {od}
  ELSE IF 2 * el > D THEN {nw} ELSE IF 2 * el < D THEN {od} ELSE {od, nw}

ACurAtElem(as, e, tau) ==
  LET cf == as.cf
      D == cf.dtk
      b == Clamp(tau, 0, cf.dly)
      k == NewerK(b, D)
      vs == IF OnGrid(b, D, cf.tol2) THEN {CurAgo(as, RoundDiv(b, D), e)}
            ELSE IF cf.sk \in ExpKinds THEN {Decay(CurAgo(as, k + 1, e), AElapsed(b, D))}
            ELSE StepRule(cf.smode, CurAgo(as, k + 1, e), CurAgo(as, k, e), AElapsed(b, D), D)
  IN IF cf.cob = "none" \/ InTol(tau, b, cf.tol2) THEN vs ELSE {OBCur}

\* the two components of the documented difference of exponentials: Q/dd * qd^age and Q/dd * qr^age (both positive)
CompOf(v, which) == IF which = "pos" THEN {t \in v : t.b = "qd"}
                    ELSE {[t EXCEPT !.m = -t.m] : t \in {u \in v : u.b = "qr"}}
ACompAtElem(as, e, tau, which) ==
  LET cf == as.cf
      D == cf.dtk
      b == Clamp(tau, 0, cf.dly)
      k == NewerK(b, D)
      vs == IF OnGrid(b, D, cf.tol2) THEN {CompOf(CurAgo(as, RoundDiv(b, D), e), which)}
            ELSE {Decay(CompOf(CurAgo(as, k + 1, e), which), AElapsed(b, D))}
  IN IF cf.cob = "none" \/ InTol(tau, b, cf.tol2) THEN vs ELSE {OBCur}

ASpkAtElem(as, e, tau) ==
  LET cf == as.cf
      D == cf.dtk
      b == Clamp(tau, 0, cf.dly)
      k == NewerK(b, D)
      vs == IF OnGrid(b, D, cf.tol2) THEN {SpkAgo(as, RoundDiv(b, D), e)}
            ELSE StepRule(cf.smode, SpkAgo(as, k + 1, e), SpkAgo(as, k, e), AElapsed(b, D), D)
  IN IF cf.sob = "none" \/ InTol(tau, b, cf.tol2) THEN vs ELSE {IF cf.sob = "t" THEN 1 ELSE 0}

SAApply(as, o) ==
  LET E == as.E
      cur == [e \in 1..E |-> CurAgo(as, 0, e)]
  IN
  CASE o.a = "step"       -> IF Len(o.v) # E THEN Err(as, "RuntimeError")
                             ELSE LET a1 == [as EXCEPT !.hist = Append(as.hist, o.v)]
                                  IN {Out(a1, [t |-> "cur", v |-> [e \in 1..E |-> CurAgo(a1, 0, e)]])}
    [] o.a = "clear"      -> {Out([as EXCEPT !.hist = <<>>], [t |-> "ok"])}
    [] o.a = "current"    -> {Out(as, [t |-> "cur", v |-> cur])}
    [] o.a = "spike"      -> {Out(as, [t |-> "spk", v |-> [e \in 1..E |-> SpkAgo(as, 0, e)]])}
    [] o.a = "current_at" -> IF Len(o.sel) # E THEN Err(as, "RuntimeError")
                             ELSE {Out(as, [t |-> "cur", v |-> c]) :
                                      c \in SeqProd([e \in 1..E |-> ACurAtElem(as, e, o.sel[e])])}
    [] o.a = "spike_at"   -> IF Len(o.sel) # E THEN Err(as, "RuntimeError")
                             ELSE {Out(as, [t |-> "spk", v |-> c]) :
                                      c \in SeqProd([e \in 1..E |-> ASpkAtElem(as, e, o.sel[e])])}
    [] o.a \in {"pos_at", "neg_at"} ->
                             IF Len(o.sel) # E THEN Err(as, "RuntimeError")
                             ELSE {Out(as, [t |-> "cur", v |-> c]) :
                                      c \in SeqProd([e \in 1..E |-> ACompAtElem(as, e, o.sel[e],
                                                                                 IF o.a = "pos_at" THEN "pos" ELSE "neg")])}

(***************************************************************************)
(* Correspondence                                                          *)
(***************************************************************************)
SCorr(ms, as) ==
  LET N == HistSize(ms.cf) E == as.E IN
  /\ ms.cf = as.cf
  /\ ms.spk.kind = "ready" /\ ms.spk.n = N /\ ElemsOf(ms.spk) = E
  /\ \A k \in 0..(N - 1) : \A e \in 1..E :
       /\ Slot(ms.spk, k + 1)[e] = SpkAgo(as, k, e)                       \* spike record == input spikes
       /\ CASE ms.cf.sk = "delta" -> TRUE
            [] ms.cf.sk = "dexp"  ->
                 /\ ms.c1.ptr = ms.spk.ptr /\ ms.c2.ptr = ms.spk.ptr
                 /\ Minus(Slot(ms.c1, k + 1)[e], Slot(ms.c2, k + 1)[e]) = CurAgo(as, k, e)
            [] OTHER -> /\ ms.c1.ptr = ms.spk.ptr
                        /\ Slot(ms.c1, k + 1)[e] = CurAgo(as, k, e)

\* continuous-time statement for the exponential synapses: the current b ticks ago is the sum
\* over the spikes that had arrived by then of the response at their age then
ExpCurAt(as, e, b) ==
  LET n == Len(as.hist)
      D == as.cf.dtk
      S == {j \in 1..n : as.hist[j][e].s = 1 /\ (n - j) * D >= b}
  IN IF as.cf.sk = "sexp" THEN {Term("Q/tau", "q", (n - j) * D - b, 1) : j \in S}
     ELSE {Term("Q/dd", "qd", (n - j) * D - b, 1) : j \in S} \cup {Term("Q/dd", "qr", (n - j) * D - b, -1) : j \in S}
=============================================================================
