--------------------------- MODULE SynapseHistMC ---------------------------
(***************************************************************************)
(* Exhaustive exploration of the synapse model (C04) and behaviour          *)
(* generation.  State = Mech synapse + Abs input list (lock-step) + the log *)
(* of the currents forward() returned since the last clear.  Queries are    *)
(* decided by invariants quantified over ALL operations at every reachable  *)
(* state; only state-changing operations are transitions.                   *)
(***************************************************************************)
EXTENDS SynapseHistCore, Json

CONSTANTS
  Kinds,     \* synapse kinds explored
  E0,        \* elements
  Dt0,       \* ticks per step
  Delays,    \* maximum delays offered (ticks; multiples of Dt0 or not)
  SModes,    \* spike / delta-current interpolation modes offered
  Tol2s,     \* tolerances (as 2*tol+1 half-ticks)
  Cobs, Sobs, \* overbound settings offered
  JS,        \* injected-current values (units) for delta-plus
  MaxDepth

VARIABLE st   \* [m |-> Mech, a |-> Abs, log |-> currents returned by forward since the last clear]
vars == <<st>>

Alphabet(sk) == IF sk = "dplus" THEN {[s |-> s, j |-> j] : s \in {0, 1}, j \in JS}
                ELSE {[s |-> s, j |-> 0] : s \in {0, 1}}

MutOps(s) == {[a |-> "step", v |-> v] : v \in [1..E0 -> Alphabet(s.m.cf.sk)]} \cup {[a |-> "clear"]}
SelS(s) == (-3)..(s.m.cf.dly + 3)
QueryOps(s) ==
  {[a |-> "current"], [a |-> "spike"]}
  \cup {[a |-> "current_at", sel |-> sel] : sel \in [1..E0 -> SelS(s)]}
  \cup {[a |-> "spike_at", sel |-> sel] : sel \in [1..E0 -> SelS(s)]}
  \cup (IF s.m.cf.sk = "dexp"
        THEN {[a |-> x, sel |-> sel] : x \in {"pos_at", "neg_at"}, sel \in [1..E0 -> SelS(s)]} ELSE {})
Ops(s) == MutOps(s) \cup QueryOps(s)

Apply(s, o) ==
  {[st |-> [m |-> mo.st, a |-> ao.st,
            log |-> IF o.a = "clear" THEN <<>>
                    ELSE IF o.a = "step" /\ mo.ret.t = "cur" THEN Append(s.log, mo.ret.v) ELSE s.log],
    ret |-> mo.ret] : mo \in SApply(s.m, o), ao \in SAApply(s.a, o)}

Init == \E sk \in Kinds, dly \in Delays, sm \in SModes, t2 \in Tol2s, cob \in Cobs, sob \in Sobs :
          LET cf == [sk |-> sk, dtk |-> Dt0, dly |-> dly, smode |-> sm, tol2 |-> t2, cob |-> cob, sob |-> sob]
          IN st = [m |-> SInit(cf, E0), a |-> SAInit(cf, E0), log |-> <<>>]
Next == \E o \in MutOps(st) : \E out \in Apply(st, o) : st' = out.st
Spec == Init /\ [][Next]_vars
Bounded == TLCGet("level") <= MaxDepth

(***************************************************************************)
(* Properties                                                              *)
(***************************************************************************)
RingOK(r, n) == r.kind = "ready" /\ r.n = n /\ Len(r.store) = n /\ r.ptr \in 0..(n - 1)
TypeOK ==
  LET cf == st.m.cf
      N == HistSize(cf)
  IN /\ cf.sk \in SynKinds
     /\ N = CeilDiv(cf.dly, cf.dtk) + 1                       \* record size ceil(delay/dt) + 1
     /\ RingOK(st.m.spk, N)
     /\ HasC1(cf.sk) => RingOK(st.m.c1, N)
     /\ HasC2(cf.sk) => RingOK(st.m.c2, N)
     /\ \A i \in 1..N : \A e \in 1..E0 :
          /\ st.m.spk.store[i][e] \in {0, 1}
          /\ HasC1(cf.sk) => Normal(st.m.c1.store[i][e])
          /\ HasC2(cf.sk) => Normal(st.m.c2.store[i][e])
     /\ Len(st.log) = Len(st.a.hist)

\* recurrence == impulse-response sum, spike record == input spikes, at every depth of the rings
RecurrenceEqClosed == SCorr(st.m, st.a)

\* every operation returns what the property states (possibly one of several admissible
\* values at an interpolation tie) and preserves the correspondence
Refinement ==
  \A o \in Ops(st) :
    \A mo \in SApply(st.m, o) :
      \E ao \in SAApply(st.a, o) :
        /\ ao.ret = mo.ret
        /\ IF mo.st = st.m /\ ao.st = st.a THEN TRUE ELSE SCorr(mo.st, ao.st)

\* current_at(k*D) == the current forward() returned k steps ago, spike_at(k*D) == the input
\* spike k steps ago, for every k within the delay (rest before the start)
ReadsPast ==
  LET n == Len(st.log)
      D == st.m.cf.dtk
  IN \A k \in 0..(st.m.cf.dly \div D) :
       LET sel == [e \in 1..E0 |-> k * D] IN
       /\ \A mo \in SCurrentAt(st.m, sel) :
            mo.ret.v = IF k < n THEN st.log[n - k] ELSE [e \in 1..E0 |-> Zero]
       /\ \A mo \in SSpikeAt(st.m, sel) :
            mo.ret.v = IF k < n THEN [e \in 1..E0 |-> st.a.hist[n - k][e].s] ELSE [e \in 1..E0 |-> 0]

\* beyond [0, delay] by more than the tolerance: the configured overbound, or the value at the limit
OverboundTable ==
  \A o \in QueryOps(st) : o.a \in {"current_at", "spike_at"} =>
    \A e \in 1..E0 :
      LET tau == o.sel[e]
          cf == st.m.cf
          lim == Clamp(tau, 0, cf.dly)
          far == 2 * Abs(tau - lim) > cf.tol2
          atlim == [o EXCEPT !.sel = [x \in 1..E0 |-> lim]]
      IN far =>
         IF o.a = "current_at"
         THEN \A mo \in SApply(st.m, o) :
                IF cf.cob = "val" THEN mo.ret.v[e] = OBCur
                ELSE \E lo \in SApply(st.m, atlim) : lo.ret.v[e] = mo.ret.v[e]
         ELSE \A mo \in SApply(st.m, o) :
                IF cf.sob # "none" THEN mo.ret.v[e] = (IF cf.sob = "t" THEN 1 ELSE 0)
                ELSE \E lo \in SApply(st.m, atlim) : lo.ret.v[e] = mo.ret.v[e]

\* exponential synapses: a delayed read is the continuous-time impulse-response sum
ExpContinuous ==
  st.m.cf.sk \in ExpKinds =>
    \A tau \in 0..st.m.cf.dly : \A e \in 1..E0 :
      LET b == IF OnGrid(tau, Dt0, st.m.cf.tol2) THEN RoundDiv(tau, Dt0) * Dt0 ELSE tau
      IN SCurrentAtElem(st.m, e, tau) = {ExpCurAt(st.a, e, b)}

InplaceEq ==
  \A o \in MutOps(st) : o.a = "step" => SStep(st.m, o.v, TRUE) = SStep(st.m, o.v, FALSE)

\* NOT part of the checked configuration: with the code's argument order the spike reader
\* differs from the documented one (TLC exhibits hypothesis D7 at design level)
SpikeAtWiringAgrees ==
  \A tau \in SelS(st) : \A e \in 1..E0 :
    SSpikeAtElemSwapped(st.m, e, tau, TRUE) = SSpikeAtElem(st.m, e, tau)

EState(s) == [m |-> s.m, h |-> s.a.hist]
Emit == PrintT(ToJson(
  [s |-> EState(st),
   mut |-> {[op |-> o, res |-> {[st |-> EState(x.st), ret |-> x.ret] : x \in Apply(st, o)}] : o \in MutOps(st)},
   qry |-> {[op |-> o, rets |-> {x.ret : x \in SApply(st.m, o)}] : o \in QueryOps(st)}]))
=============================================================================
