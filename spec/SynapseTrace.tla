---------------------------- MODULE SynapseTrace ----------------------------
(***************************************************************************)
(* Trace specification for executions recorded from the real synapses in   *)
(* the DYADIC recipe (direction B of C04): step times 1, 1/2, 1/4, decay    *)
(* exactly 1/2 per step (1/4 for the rise of the double exponential),       *)
(* charges chosen so that Q/dt, Q/tau, Q/(tau_d - tau_r) are powers of two: *)
(* float32 arithmetic is exact and every logged current is an integer       *)
(* scaled by 2^K.  TLC carries the SYMBOLIC state, applies SApply / SAApply *)
(* (the model-checked operators), evaluates the specified outcome exactly   *)
(* and accepts an event only if return value and projected rings coincide   *)
(* with one admissible outcome and the step refines the impulse-response    *)
(* model.                                                                   *)
(***************************************************************************)
EXTENDS SynapseHistCore, Json, IOUtils, TLCExt

Traces == JsonDeserialize(IOEnv.TRACE_FILE)

VARIABLES tid, l, st
vars == <<tid, l, st>>

NT == Len(Traces)
Evs(t) == Traces[t].ev
Hdr(t) == Traces[t].hdr
MaxI(a, b) == IF a >= b THEN a ELSE b
Waived(t) == {Hdr(t).waive[i] : i \in DOMAIN Hdr(t).waive}

ASSUME \A i \in 1..NT : TLCSet(100 + i, 0)

DV(h, v) == EvalDyH(v, h.cs, h.ck, h.K, h.cf.dtk, h.hb)
DRow(h, row) == [e \in DOMAIN row |-> DV(h, row[e])]

ProjRet(h, r) == IF r.t = "cur" THEN [t |-> "cur", v |-> DRow(h, r.v)] ELSE r
ProjRing(h, r, sym) ==
  IF r.kind # "ready" THEN [n |-> 0]
  ELSE [n |-> r.n, ptr |-> r.ptr, store |-> [i \in DOMAIN r.store |-> IF sym THEN DRow(h, r.store[i]) ELSE r.store[i]]]
ProjSt(h, ms) == [spk |-> ProjRing(h, ms.spk, FALSE), c1 |-> ProjRing(h, ms.c1, TRUE), c2 |-> ProjRing(h, ms.c2, TRUE)]

ApplyT(s, o) ==
  UNION {{[st |-> [m |-> mo.st, a |-> ao.st], ret |-> mo.ret, refok |-> SCorr(mo.st, ao.st)] :
            ao \in {x \in SAApply(s.a, o) : x.ret = mo.ret}} : mo \in SApply(s.m, o)}

Init == /\ tid \in 1..NT
        /\ l = 1
        /\ LET h == Hdr(tid) IN st = [m |-> SInit(h.cf, h.E), a |-> SAInit(h.cf, h.E)]

Matches(e) == {x \in ApplyT(st, e.op) : /\ ProjRet(Hdr(tid), x.ret) = e.ret
                                       /\ ProjSt(Hdr(tid), x.st.m) = e.st
                                       /\ x.refok}

Step ==
  /\ l <= Len(Evs(tid))
  /\ LET e == Evs(tid)[l] IN
       IF l \in Waived(tid)
       THEN st' = LET x == CHOOSE y \in SApply(st.m, e.op) : TRUE
                      z == CHOOSE y \in SAApply(st.a, e.op) : TRUE
                  IN [m |-> x.st, a |-> z.st]
       ELSE \E x \in Matches(e) : st' = x.st
  /\ l' = l + 1
  /\ UNCHANGED tid

TraceSpec == Init /\ [][Step]_vars

Track ==
  /\ TLCSet(100 + tid, MaxI(TLCGet(100 + tid), l))
  /\ IF l <= Len(Evs(tid)) /\ ~(l \in Waived(tid)) /\ Matches(Evs(tid)[l]) = {}
     THEN PrintT(ToJson([diag |-> tid, l |-> l,
                         expected |-> {[ret |-> ProjRet(Hdr(tid), x.ret), st |-> ProjSt(Hdr(tid), x.st.m),
                                        refok |-> x.refok] : x \in ApplyT(st, Evs(tid)[l].op)},
                         unrefined |-> {ProjRet(Hdr(tid), mo.ret) : mo \in SApply(st.m, Evs(tid)[l].op)}]))
     ELSE TRUE

Post ==
  PrintT(ToJson([rejected |-> {<<i, TLCGet(100 + i)>> : i \in {j \in 1..NT : TLCGet(100 + j) <= Len(Evs(j))}},
                 total |-> NT]))
=============================================================================
