---------------------------- MODULE UpdaterCore ----------------------------
(***************************************************************************)
(* Functional core of the Updater specification (property C10):            *)
(* inferno/neural/modeling.py  (Accumulator, Updater, Updatable)  and      *)
(* inferno/functional/bounding.py (bound_* kernels).                       *)
(*                                                                         *)
(* Two layers.                                                             *)
(*   Abs  - the vocabulary of the property: per trainable parameter a value*)
(*          w, a BAG of pending potentiating parts, a bag of depressing    *)
(*          parts, a reduction and an upper / lower half kernel.  Applying *)
(*          sets  w' = w + BU(reduce(pos)) - BL(reduce(neg)).  No order,   *)
(*          no cache.                                                      *)
(*   Mech - the shape of the code: per parameter two SEQUENCES in order of *)
(*          contribution, two caches filled by the first read and cleared  *)
(*          on append / delete, `bind` either one full kernel or a pair of *)
(*          half kernels (upperbound/lowerbound/fullbound switching rules),*)
(*          the four-way case split of Accumulator.update, update of all   *)
(*          parameters then clear of all (Updatable.update) versus         *)
(*          parameter by parameter (Updatable.updatesome).                 *)
(*                                                                         *)
(* Both layers are written as  Apply(st, op) == {[st |-> st', ret |-> r]}. *)
(*                                                                         *)
(* VALUES.  A real x is the integer x*S (S a power of two, "dyadic grid"). *)
(* Products and quotients are taken stage by stage exactly as the kernels  *)
(* do; an operation whose stages are not all exact on the grid is not part *)
(* of the model (predicate ...OK below): the harness only drives inputs    *)
(* for which float32 arithmetic is exact, so comparison is by equality.    *)
(* A tensor is the tuple of its E elements (row major).  `None` is <<>>.   *)
(***************************************************************************)
EXTENDS Integers, Sequences, FiniteSets, TLC

CONSTANT S            \* scale (power of two): real value = integer / S

NoLim == -999999      \* "limit is None"
Kinds == {"none", "mult", "smult", "pow", "spow", "sharp"}
\* shipped torch reductions, and custom ones that are NOT the identity on a single part:
\* "sum2" = 2 * sum, "clip" = min(sum, 1/2), "sumsq" = sum of squares
RedNames == {"sum", "mean", "amax", "amin", "sum2", "clip", "sumsq"}

Out(st, r) == [st |-> st, ret |-> r]
OkRet == [t |-> "ok"]
NoneV == [some |-> FALSE, x |-> <<>>]
SomeV(v) == [some |-> TRUE, x |-> v]
Invalid == [valid |-> FALSE, some |-> FALSE, x |-> <<>>]
Cached(v) == [valid |-> TRUE, some |-> v.some, x |-> v.x]

NoneHalf == [k |-> "none", lim |-> 0, pw |-> 0, rg |-> 0]
NoneFull == [k |-> "none", mx |-> 0, mn |-> 0, pu |-> 0, pl |-> 0]
Unbound == [mode |-> "full", f |-> NoneFull, u |-> NoneHalf, l |-> NoneHalf]

(***************************************************************************)
(* Exact arithmetic on the grid                                            *)
(***************************************************************************)
MulS(a, b) == (a * b) \div S
MulOK(a, b) == (a * b) % S = 0
DivS(a, r) == (a * S) \div r
DivOK(a, r) == r > 0 /\ (a * S) % r = 0
PowS(a, n) == CASE n = 1 -> a
                [] n = 2 -> MulS(a, a)
                [] n = 3 -> MulS(MulS(a, a), a)
                [] OTHER -> S
PowOK(a, n) == CASE n = 1 -> TRUE
                 [] n = 2 -> MulOK(a, a)
                 [] n = 3 -> MulOK(a, a) /\ MulOK(MulS(a, a), a)
                 [] OTHER -> FALSE

MaxI(a, b) == IF a >= b THEN a ELSE b
MinI(a, b) == IF a <= b THEN a ELSE b
Zeros(E) == [e \in 1..E |-> 0]

(***************************************************************************)
(* Reductions over a non-empty sequence of parts (each a tuple of E ints). *)
(* The code stacks the parts on a new leading dimension and calls          *)
(* reduce(stack, 0).                                                       *)
(***************************************************************************)
RECURSIVE SumTo(_, _, _)
SumTo(L, e, n) == IF n = 0 THEN 0 ELSE SumTo(L, e, n - 1) + L[n][e]
RECURSIVE MaxTo(_, _, _)
MaxTo(L, e, n) == IF n = 1 THEN L[1][e] ELSE MaxI(MaxTo(L, e, n - 1), L[n][e])
RECURSIVE MinTo(_, _, _)
MinTo(L, e, n) == IF n = 1 THEN L[1][e] ELSE MinI(MinTo(L, e, n - 1), L[n][e])

RECURSIVE SqTo(_, _, _)
SqTo(L, e, n) == IF n = 0 THEN 0 ELSE SqTo(L, e, n - 1) + MulS(L[n][e], L[n][e])

ReduceE(r, L, e) ==
  CASE r = "sum"  -> SumTo(L, e, Len(L))
    [] r = "mean" -> SumTo(L, e, Len(L)) \div Len(L)
    [] r = "amax" -> MaxTo(L, e, Len(L))
    [] r = "amin" -> MinTo(L, e, Len(L))
    [] r = "sum2" -> 2 * SumTo(L, e, Len(L))
    [] r = "clip" -> MinI(SumTo(L, e, Len(L)), S \div 2)
    [] r = "sumsq" -> SqTo(L, e, Len(L))

Reduce(r, L) == [e \in 1..Len(L[1]) |-> ReduceE(r, L, e)]
ReduceOpt(r, L) == IF Len(L) = 0 THEN NoneV ELSE SomeV(Reduce(r, L))
ReduceEOK(r, L, e) ==
  CASE r = "mean"  -> SumTo(L, e, Len(L)) % Len(L) = 0
    [] r = "sumsq" -> \A n \in 1..Len(L) : MulOK(L[n][e], L[n][e])
    [] OTHER -> TRUE
ReduceOK(r, L) == Len(L) = 0 \/ \A e \in 1..Len(L[1]) : ReduceEOK(r, L, e)

(***************************************************************************)
(* Bounding kernels, one element.  h = [k, lim, pw, rg]; side "up": the    *)
(* distance is lim - w, side "lo": w - lim.  (functional/bounding.py)      *)
(*   mult   (d) * u            smult  (d / rg) * u                         *)
(*   pow    (d ** pw) * u      spow   ((d / rg) ** pw) * u                 *)
(*   sharp  heaviside(d, 0) * u   -- the step is 0 AT the limit            *)
(***************************************************************************)
Dist(side, lim, wv) == IF side = "up" THEN lim - wv ELSE wv - lim

HalfE(h, side, wv, u) ==
  LET d == Dist(side, h.lim, wv) IN
  CASE h.k = "none"  -> u
    [] h.k = "mult"  -> MulS(d, u)
    [] h.k = "smult" -> MulS(DivS(d, h.rg), u)
    [] h.k = "pow"   -> MulS(PowS(d, h.pw), u)
    [] h.k = "spow"  -> MulS(PowS(DivS(d, h.rg), h.pw), u)
    [] h.k = "sharp" -> IF d > 0 THEN u ELSE 0

HalfEOK(h, side, wv, u) ==
  LET d == Dist(side, h.lim, wv) IN
  CASE h.k = "none"  -> TRUE
    [] h.k = "mult"  -> MulOK(d, u)
    [] h.k = "smult" -> DivOK(d, h.rg) /\ MulOK(DivS(d, h.rg), u)
    [] h.k = "pow"   -> PowOK(d, h.pw) /\ MulOK(PowS(d, h.pw), u)
    [] h.k = "spow"  -> DivOK(d, h.rg) /\ PowOK(DivS(d, h.rg), h.pw) /\ MulOK(PowS(DivS(d, h.rg), h.pw), u)
    [] h.k = "sharp" -> TRUE

HalfV(h, side, wt, ut) == [e \in DOMAIN wt |-> HalfE(h, side, wt[e], ut[e])]
HalfOK(h, side, wt, ut) == \A e \in DOMAIN wt : HalfEOK(h, side, wt[e], ut[e])

\* a full kernel bound_<k>(param, pos, neg, max, min, ...): each side is scaled only
\* if its limit is given; the scaled kinds use range = max - min
FullUp(f) == IF f.k = "none" \/ f.mx = NoLim THEN NoneHalf
             ELSE [k |-> f.k, lim |-> f.mx, pw |-> f.pu, rg |-> f.mx - f.mn]
FullLo(f) == IF f.k = "none" \/ f.mn = NoLim THEN NoneHalf
             ELSE [k |-> f.k, lim |-> f.mn, pw |-> f.pl, rg |-> f.mx - f.mn]
FullV(f, wt, pt, nt) == [e \in DOMAIN wt |-> HalfE(FullUp(f), "up", wt[e], pt[e]) - HalfE(FullLo(f), "lo", wt[e], nt[e])]
FullOK(f, wt, pt, nt) == HalfOK(FullUp(f), "up", wt, pt) /\ HalfOK(FullLo(f), "lo", wt, nt)
\* the scaled full kernels need both limits (max - min)
FullCfgOK(f) == f.k \in {"smult", "spow"} => (f.mx # NoLim /\ f.mn # NoLim /\ f.mx > f.mn)

Sub(a, b) == [e \in DOMAIN a |-> a[e] - b[e]]
Add(a, b) == [e \in DOMAIN a |-> a[e] + b[e]]
Neg(a) == [e \in DOMAIN a |-> -a[e]]

(***************************************************************************)
(* Mech layer.  st : [Params -> PS],                                       *)
(*   PS = [w, posL, negL, posC, negC, red, bnd]                            *)
(*   posL/negL  sequences of parts in order of contribution                *)
(*   posC/negC  [valid, some, x]: functools.cache of the reduced value     *)
(*   red        name of the reduction in force                             *)
(*   bnd        [mode "full"|"half", f full kernel, u, l half kernels]     *)
(***************************************************************************)
Params(st) == DOMAIN st

\* Accumulator.pos / .neg getter: cached stack-and-reduce
MGetPos(ps) == IF ps.posC.valid THEN [some |-> ps.posC.some, x |-> ps.posC.x] ELSE ReduceOpt(ps.red, ps.posL)
MGetNeg(ps) == IF ps.negC.valid THEN [some |-> ps.negC.some, x |-> ps.negC.x] ELSE ReduceOpt(ps.red, ps.negL)
MFillPos(ps) == [ps EXCEPT !.posC = Cached(MGetPos(ps))]
MFillNeg(ps) == [ps EXCEPT !.negC = Cached(MGetNeg(ps))]

\* Accumulator.update(param): the four-way case split of the code
MUpdVal(ps) ==
  LET rp == MGetPos(ps)
      rn == MGetNeg(ps)
      half == ps.bnd.mode = "half"
      E == Len(ps.w)
  IN IF rp.some /\ rn.some THEN
          IF half THEN SomeV(Sub(HalfV(ps.bnd.u, "up", ps.w, rp.x), HalfV(ps.bnd.l, "lo", ps.w, rn.x)))
          ELSE SomeV(FullV(ps.bnd.f, ps.w, rp.x, rn.x))
     ELSE IF rp.some THEN
          IF half THEN SomeV(HalfV(ps.bnd.u, "up", ps.w, rp.x))
          ELSE SomeV(FullV(ps.bnd.f, ps.w, rp.x, Zeros(E)))
     ELSE IF rn.some THEN
          IF half THEN SomeV(Neg(HalfV(ps.bnd.l, "lo", ps.w, rn.x)))
          ELSE SomeV(FullV(ps.bnd.f, ps.w, Zeros(E), rn.x))
     ELSE NoneV

\* every product / quotient taken by that evaluation is exact on the grid
MUpdOK(ps) ==
  LET rp == MGetPos(ps)
      rn == MGetNeg(ps)
      half == ps.bnd.mode = "half"
      E == Len(ps.w)
      pt == IF rp.some THEN rp.x ELSE Zeros(E)
      nt == IF rn.some THEN rn.x ELSE Zeros(E)
  IN /\ ReduceOK(ps.red, ps.posL) /\ ReduceOK(ps.red, ps.negL)
     /\ IF half THEN (rp.some => HalfOK(ps.bnd.u, "up", ps.w, pt)) /\ (rn.some => HalfOK(ps.bnd.l, "lo", ps.w, nt))
        ELSE (rp.some \/ rn.some) => FullOK(ps.bnd.f, ps.w, pt, nt)

\* Accumulator.forward: param + update (or param itself); both reads fill the caches
MApplyAcc(ps) ==
  LET u == MUpdVal(ps)
      filled == MFillNeg(MFillPos(ps))
  IN IF u.some THEN [filled EXCEPT !.w = Add(ps.w, u.x)] ELSE filled

MClearPos(ps) == [ps EXCEPT !.posL = <<>>, !.posC = Invalid]
MClearNeg(ps) == [ps EXCEPT !.negL = <<>>, !.negC = Invalid]
MClearAcc(ps) == MClearNeg(MClearPos(ps))

\* Updater property setter / Accumulator.pos, .neg setters: None (<<>>) is ignored
MContrib(st, o) ==
  LET ps == st[o.p]
      s1 == IF o.pos # <<>> THEN [ps EXCEPT !.posL = Append(@, o.pos), !.posC = Invalid] ELSE ps
      s2 == IF o.neg # <<>> THEN [s1 EXCEPT !.negL = Append(@, o.neg), !.negC = Invalid] ELSE s1
  IN {Out([st EXCEPT ![o.p] = s2], OkRet)}

MRead(st, o) ==
  LET ps == st[o.p] IN
  IF o.side = "pos" THEN {Out([st EXCEPT ![o.p] = MFillPos(ps)], MGetPos(ps))}
  ELSE {Out([st EXCEPT ![o.p] = MFillNeg(ps)], MGetNeg(ps))}

\* Accumulator.update(param) with the module's own parameter: value only
MPeek(st, o) ==
  LET ps == st[o.p] IN {Out([st EXCEPT ![o.p] = MFillNeg(MFillPos(ps))], MUpdVal(ps))}

\* Updatable.update(clear): every parameter is applied, then every accumulator cleared
MUpdate(st, o) ==
  LET s1 == [q \in Params(st) |-> MApplyAcc(st[q])]
      s2 == IF o.clear THEN [q \in Params(st) |-> MClearAcc(s1[q])] ELSE s1
  IN {Out(s2, OkRet)}

\* Updatable.updatesome(*params, clear): parameter by parameter, apply then clear
RECURSIVE MSomeFrom(_, _, _, _)
MSomeFrom(st, seq, i, clear) ==
  IF i > Len(seq) THEN st
  ELSE LET q == seq[i]
           a == MApplyAcc(st[q])
           c == IF clear THEN MClearAcc(a) ELSE a
       IN MSomeFrom([st EXCEPT ![q] = c], seq, i + 1, clear)
MUpdateSome(st, o) == {Out(MSomeFrom(st, o.ps, 1, o.clear), OkRet)}

\* Updatable.clear() / del updater.<p> / del accumulator.pos|neg
MClear(st, o) ==
  IF o.p = "*" THEN {Out([q \in Params(st) |-> MClearAcc(st[q])], OkRet)}
  ELSE LET ps == st[o.p] IN
       {Out([st EXCEPT ![o.p] = CASE o.side = "*" -> MClearAcc(ps)
                                   [] o.side = "pos" -> MClearPos(ps)
                                   [] o.side = "neg" -> MClearNeg(ps)], OkRet)}

\* Accumulator.reduction(fn): the new reduction is the one used from now on, hence the
\* cached reductions are dropped.   r = "default" is reduction(None) -> torch.sum
RedOf(r) == IF r = "default" THEN "sum" ELSE r
MSetReduction(st, o) ==
  {Out([st EXCEPT ![o.p] = [@ EXCEPT !.red = RedOf(o.r), !.posC = Invalid, !.negC = Invalid]], OkRet)}

\* upperbound / lowerbound / fullbound: a full kernel replaces the pair, a half kernel
\* set while a full kernel (or nothing) is in force first resets both halves to identity
HalfOf(o) == IF o.k = "none" THEN NoneHalf ELSE [k |-> o.k, lim |-> o.lim, pw |-> o.pw, rg |-> o.rg]
MBound(st, o) ==
  LET b == st[o.p].bnd
      base == IF b.mode = "half" THEN b ELSE [mode |-> "half", f |-> NoneFull, u |-> NoneHalf, l |-> NoneHalf]
      nb == CASE o.a = "upperbound" -> [base EXCEPT !.u = HalfOf(o)]
              [] o.a = "lowerbound" -> [base EXCEPT !.l = HalfOf(o)]
              [] o.a = "fullbound"  ->
                   [mode |-> "full", u |-> NoneHalf, l |-> NoneHalf,
                    f |-> IF o.k = "none" THEN NoneFull
                          ELSE [k |-> o.k, mx |-> o.mx, mn |-> o.mn, pu |-> o.pu, pl |-> o.pl]]
  IN {Out([st EXCEPT ![o.p] = [@ EXCEPT !.bnd = nb]], OkRet)}

MApply(st, o) ==
  CASE o.a = "contrib"    -> MContrib(st, o)
    [] o.a = "read"       -> MRead(st, o)
    [] o.a = "peek"       -> MPeek(st, o)
    [] o.a = "update"     -> MUpdate(st, o)
    [] o.a = "updatesome" -> MUpdateSome(st, o)
    [] o.a = "clear"      -> MClear(st, o)
    [] o.a = "reduction"  -> MSetReduction(st, o)
    [] o.a \in {"upperbound", "lowerbound", "fullbound"} -> MBound(st, o)

\* the operation only involves exact arithmetic (otherwise it is outside the model)
RECURSIVE MSomeOK(_, _, _, _)
MSomeOK(st, seq, i, clear) ==
  IF i > Len(seq) THEN TRUE
  ELSE LET q == seq[i]
           a == MApplyAcc(st[q])
           c == IF clear THEN MClearAcc(a) ELSE a
       IN MUpdOK(st[q]) /\ MSomeOK([st EXCEPT ![q] = c], seq, i + 1, clear)

OpExact(st, o) ==
  CASE o.a = "read"       -> IF o.side = "pos" THEN ReduceOK(st[o.p].red, st[o.p].posL)
                             ELSE ReduceOK(st[o.p].red, st[o.p].negL)
    [] o.a = "peek"       -> MUpdOK(st[o.p])
    [] o.a = "update"     -> \A q \in Params(st) : MUpdOK(st[q])
    [] o.a = "updatesome" -> MSomeOK(st, o.ps, 1, o.clear)
    [] o.a = "fullbound"  -> o.k = "none" \/ FullCfgOK([k |-> o.k, mx |-> o.mx, mn |-> o.mn, pu |-> o.pu, pl |-> o.pl])
    [] OTHER -> TRUE

(***************************************************************************)
(* Abs layer.  ab : [Params -> [w, pos, neg, red, up, lo]],  pos / neg are *)
(* bags (function part -> multiplicity).                                   *)
(***************************************************************************)
EmptyBag == <<>>   \* a function with empty domain
BagAdd(B, v) == IF v \in DOMAIN B THEN [B EXCEPT ![v] = @ + 1]
                ELSE [y \in DOMAIN B \cup {v} |-> IF y = v THEN 1 ELSE B[y]]
BagOf(L) == [v \in {L[i] : i \in DOMAIN L} |-> Cardinality({i \in DOMAIN L : L[i] = v})]
BagSize(B) == LET RECURSIVE Cnt(_)
                  Cnt(D) == IF D = {} THEN 0 ELSE LET v == CHOOSE y \in D : TRUE IN B[v] + Cnt(D \ {v})
              IN Cnt(DOMAIN B)
BagSumE(B, e) == LET RECURSIVE Sm(_)
                     Sm(D) == IF D = {} THEN 0 ELSE LET v == CHOOSE y \in D : TRUE IN B[v] * v[e] + Sm(D \ {v})
                 IN Sm(DOMAIN B)
BagMaxE(B, e) == CHOOSE m \in {v[e] : v \in DOMAIN B} : \A v \in DOMAIN B : v[e] <= m
BagMinE(B, e) == CHOOSE m \in {v[e] : v \in DOMAIN B} : \A v \in DOMAIN B : v[e] >= m
BagSqE(B, e) == LET RECURSIVE Sq(_)
                    Sq(D) == IF D = {} THEN 0 ELSE LET v == CHOOSE y \in D : TRUE IN B[v] * MulS(v[e], v[e]) + Sq(D \ {v})
                IN Sq(DOMAIN B)
BagReduceE(r, B, e) ==
  CASE r = "sum"  -> BagSumE(B, e)
    [] r = "mean" -> BagSumE(B, e) \div BagSize(B)
    [] r = "amax" -> BagMaxE(B, e)
    [] r = "amin" -> BagMinE(B, e)
    [] r = "sum2" -> 2 * BagSumE(B, e)
    [] r = "clip" -> MinI(BagSumE(B, e), S \div 2)
    [] r = "sumsq" -> BagSqE(B, e)
BagReduceOpt(r, B, E) == IF DOMAIN B = {} THEN NoneV ELSE SomeV([e \in 1..E |-> BagReduceE(r, B, e)])

\* the property's formula: old + bound_upper(reduce(pos)) - bound_lower(reduce(neg))
AUpdVal(a) ==
  LET E == Len(a.w)
      rp == BagReduceOpt(a.red, a.pos, E)
      rn == BagReduceOpt(a.red, a.neg, E)
      pt == IF rp.some THEN rp.x ELSE Zeros(E)
      nt == IF rn.some THEN rn.x ELSE Zeros(E)
  IN IF ~rp.some /\ ~rn.some THEN NoneV
     ELSE SomeV(Sub(HalfV(a.up, "up", a.w, pt), HalfV(a.lo, "lo", a.w, nt)))

AApplyAcc(a) == LET u == AUpdVal(a) IN IF u.some THEN [a EXCEPT !.w = Add(a.w, u.x)] ELSE a
AClearAcc(a) == [a EXCEPT !.pos = EmptyBag, !.neg = EmptyBag]

RECURSIVE ASomeFrom(_, _, _, _)
ASomeFrom(ab, seq, i, clear) ==
  IF i > Len(seq) THEN ab
  ELSE LET q == seq[i]
           a == AApplyAcc(ab[q])
           c == IF clear THEN AClearAcc(a) ELSE a
       IN ASomeFrom([ab EXCEPT ![q] = c], seq, i + 1, clear)

AApply(ab, o) ==
  CASE o.a = "contrib" ->
         LET a == ab[o.p]
             a1 == IF o.pos # <<>> THEN [a EXCEPT !.pos = BagAdd(@, o.pos)] ELSE a
             a2 == IF o.neg # <<>> THEN [a1 EXCEPT !.neg = BagAdd(@, o.neg)] ELSE a1
         IN {Out([ab EXCEPT ![o.p] = a2], OkRet)}
    [] o.a = "read" ->
         LET a == ab[o.p] IN
         {Out(ab, BagReduceOpt(a.red, IF o.side = "pos" THEN a.pos ELSE a.neg, Len(a.w)))}
    [] o.a = "peek" -> {Out(ab, AUpdVal(ab[o.p]))}
    [] o.a = "update" ->
         LET s1 == [q \in DOMAIN ab |-> AApplyAcc(ab[q])]
         IN {Out(IF o.clear THEN [q \in DOMAIN ab |-> AClearAcc(s1[q])] ELSE s1, OkRet)}
    [] o.a = "updatesome" -> {Out(ASomeFrom(ab, o.ps, 1, o.clear), OkRet)}
    [] o.a = "clear" ->
         IF o.p = "*" THEN {Out([q \in DOMAIN ab |-> AClearAcc(ab[q])], OkRet)}
         ELSE {Out([ab EXCEPT ![o.p] = CASE o.side = "*" -> AClearAcc(@)
                                         [] o.side = "pos" -> [@ EXCEPT !.pos = EmptyBag]
                                         [] o.side = "neg" -> [@ EXCEPT !.neg = EmptyBag]], OkRet)}
    [] o.a = "reduction" -> {Out([ab EXCEPT ![o.p] = [@ EXCEPT !.red = RedOf(o.r)]], OkRet)}
    [] o.a = "upperbound" -> {Out([ab EXCEPT ![o.p] = [@ EXCEPT !.up = HalfOf(o),
                                      !.lo = IF "full" = o.wasmode THEN NoneHalf ELSE @]], OkRet)}
    [] o.a = "lowerbound" -> {Out([ab EXCEPT ![o.p] = [@ EXCEPT !.lo = HalfOf(o),
                                      !.up = IF "full" = o.wasmode THEN NoneHalf ELSE @]], OkRet)}
    [] o.a = "fullbound" ->
         LET f == IF o.k = "none" THEN NoneFull ELSE [k |-> o.k, mx |-> o.mx, mn |-> o.mn, pu |-> o.pu, pl |-> o.pl]
         IN {Out([ab EXCEPT ![o.p] = [@ EXCEPT !.up = FullUp(f), !.lo = FullLo(f)]], OkRet)}

(***************************************************************************)
(* Correspondence                                                          *)
(***************************************************************************)
EffUp(b) == IF b.mode = "half" THEN b.u ELSE FullUp(b.f)
EffLo(b) == IF b.mode = "half" THEN b.l ELSE FullLo(b.f)

AbsOfP(ps) == [w |-> ps.w, pos |-> BagOf(ps.posL), neg |-> BagOf(ps.negL), red |-> ps.red,
               up |-> EffUp(ps.bnd), lo |-> EffLo(ps.bnd)]
AbsOf(st) == [q \in DOMAIN st |-> AbsOfP(st[q])]

\* whether a half-bound call replaces a full kernel is the one fact of the Mech state
\* (documented on upperbound / lowerbound) the abstract operation is told
AbsOp(st, o) == IF o.a \in {"upperbound", "lowerbound"}
                THEN [a |-> o.a, p |-> o.p, k |-> o.k, lim |-> o.lim, pw |-> o.pw, rg |-> o.rg,
                      wasmode |-> st[o.p].bnd.mode]
                ELSE o

\* Mech refines Abs at st for o: same return value, corresponding successor
RefinesAt(st, o) ==
  \A mo \in MApply(st, o) :
     \E ao \in AApply(AbsOf(st), AbsOp(st, o)) : ao.st = AbsOf(mo.st) /\ ao.ret = mo.ret

\* caches, when valid, hold the reduction of the present list with the present reduction
CacheCoherentP(ps) ==
  /\ ps.posC.valid => [some |-> ps.posC.some, x |-> ps.posC.x] = ReduceOpt(ps.red, ps.posL)
  /\ ps.negC.valid => [some |-> ps.negC.some, x |-> ps.negC.x] = ReduceOpt(ps.red, ps.negL)

=============================================================================
