---------------------------- MODULE UpdaterInd ----------------------------
(***************************************************************************)
(* Inductive step of the range invariant of C10 for UNBOUNDED update       *)
(* histories (checked with Apalache, not TLC):                             *)
(*    Min <= w <= Max  and  reduced magnitudes within the property's bound *)
(*    ==>  Min <= w' <= Max                                                *)
(* The parameter is an exact rational num/den with an unbounded integer    *)
(* numerator (den grows with every update, so no grid is assumed); limits  *)
(* and magnitudes are integers over S.                                     *)
(*   multiplicative:        w' = w + (Max - w) p - (w - Min) n,  p, n in [0, 1]        *)
(*   scaled multiplicative: w' = w + (Max - w)/R p - (w - Min)/R n,  p, n in [0, R]    *)
(*   scaled power 2:        w' = w + ((Max - w)/R)^2 p - ((w - Min)/R)^2 n             *)
(* apalache-mc check --init=IndInit --inv=IndInv --next=NextMult --length=1            *)
(***************************************************************************)
EXTENDS Integers

S == 8
Mn == -8      \* Min = -1
Mx == 16      \* Max = 2
R == Mx - Mn  \* range, over S

VARIABLES
  \* @type: Int;
  num,
  \* @type: Int;
  den

Inside(a, b) == Mn * b <= S * a /\ S * a <= Mx * b

IndInit == num \in Int /\ den \in Int /\ den > 0 /\ Inside(num, den)
IndInv == den > 0 /\ Inside(num, den)

\* distances to the limits, over (S * den)
Du == Mx * den - S * num
Dl == S * num - Mn * den

NextMult ==
  \E p \in 0..S, n \in 0..S :
     /\ num' = S * S * num + Du * p - Dl * n
     /\ den' = S * S * den

NextScaled ==
  \E p \in 0..R, n \in 0..R :
     /\ num' = S * R * num + Du * p - Dl * n
     /\ den' = S * R * den

\* ((Mx/S - v) / (R/S))^2 * (p/S) = Du^2 p / (den^2 R^2 S)
NextScaledPow2 ==
  \E p \in 0..R, n \in 0..R :
     /\ num' = S * R * R * den * num + Du * Du * p - Dl * Dl * n
     /\ den' = S * R * R * den * den
=============================================================================
