---------------------------- MODULE UpdaterInd ----------------------------
(***************************************************************************)
(* Inductive step of the range invariant of C10 for UNBOUNDED update       *)
(* histories (checked with Apalache, not TLC):                             *)
(*    Min <= w <= Max  and  reduced magnitudes within the property's bound *)
(*    ==>  Min <= w' <= Max                                                *)
(* The parameter is an exact rational num/den with an unbounded integer    *)
(* numerator (den grows with every update, so no grid is assumed); limits  *)
(* and magnitudes are integers over S.                                     *)
(*   multiplicative:        w' = w + (Max - w) p - (w - Min) n,  p, n in [0, 1]        *)
(*   scaled multiplicative: w' = w + (Max - w)/R p - (w - Min)/R n,  p, n in [0, R]    *)
(*   scaled power 2:        w' = w + ((Max - w)/R)^2 p - ((w - Min)/R)^2 n             *)
(* apalache-mc check --init=IndInit --inv=IndInv --next=NextMult --length=1            *)
(***************************************************************************)
EXTENDS Integers

S == 8
Mn == -8      \* Min = -1
Mx == 16      \* Max = 2
R == Mx - Mn  \* range, over S

VARIABLES
  \* @type: Int;
  num,
  \* @type: Int;
  den,
  \* @type: Bool;
  ok        \* (sharp dependence only) the last step did not move the parameter further beyond a limit it had reached

Inside(a, b) == Mn * b <= S * a /\ S * a <= Mx * b

IndInit == num \in Int /\ den \in Int /\ den > 0 /\ Inside(num, den) /\ ok = TRUE
IndInv == den > 0 /\ Inside(num, den)

\* distances to the limits, over (S * den)
Du == Mx * den - S * num
Dl == S * num - Mn * den

NextMult ==
  \E p \in 0..S, n \in 0..S :
     /\ num' = S * S * num + Du * p - Dl * n
     /\ den' = S * S * den
     /\ UNCHANGED ok

NextScaled ==
  \E p \in 0..R, n \in 0..R :
     /\ num' = S * R * num + Du * p - Dl * n
     /\ den' = S * R * den
     /\ UNCHANGED ok

\* ((Mx/S - v) / (R/S))^2 * (p/S) = Du^2 p / (den^2 R^2 S)
NextScaledPow2 ==
  \E p \in 0..R, n \in 0..R :
     /\ num' = S * R * R * den * num + Du * Du * p - Dl * Dl * n
     /\ den' = S * R * R * den * den
     /\ UNCHANGED ok

(***************************************************************************)
(* Sharp dependence, from ANY parameter value (inside or outside the range) *)
(* and ANY non-negative magnitudes p/S, n/S:                               *)
(*    w' = w + H(Max - w) p - H(w - Min) n,   H(x) = 1 if x > 0 else 0     *)
(* never moves the parameter further beyond a limit it has reached:        *)
(*    w >= Max  =>  w' <= w        and        w <= Min  =>  w' >= w        *)
(* apalache-mc check --init=SharpInit --inv=SharpInv --next=NextSharp --length=1      *)
(***************************************************************************)
SharpInit == num \in Int /\ den \in Int /\ den > 0 /\ ok = TRUE
SharpInv == den > 0 /\ ok
NextSharp ==
  \E p \in Nat, n \in Nat :
     LET up == IF Du > 0 THEN p ELSE 0
         dn == IF Dl > 0 THEN n ELSE 0
         nn == S * num + den * (up - dn)            \* w' = nn / (S * den)
     IN /\ num' = nn
        /\ den' = S * den
        /\ ok' = (/\ (Du <= 0 => nn <= S * num)     \* at / beyond Max: not increased   (nn/(S den) <= num/den)
                  /\ (Dl <= 0 => nn >= S * num))    \* at / beyond Min: not decreased
=============================================================================
