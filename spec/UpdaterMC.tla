----------------------------- MODULE UpdaterMC -----------------------------
(***************************************************************************)
(* Exhaustive exploration of the Updater model (C10) and behaviour         *)
(* generation.  One variable: the Mech state.  All invariants quantify     *)
(* over ALL operations applicable in every reachable state (one-step       *)
(* look-ahead), so every (state, operation) pair of the bounded model is   *)
(* decided by TLC.                                                         *)
(***************************************************************************)
EXTENDS UpdaterCore, Json

CONSTANTS
  PNames,     \* trainable parameters, e.g. {"weight", "bias"}
  E,          \* elements per parameter tensor
  W0BaseO, W0Step,  \* initial value of element e: W0Base + (e-1)*W0Step   (scaled by S)
  Red0,       \* reduction passed to the Updater constructor ("default": none passed)
  PartVals,   \* values offered for the elements of a part (scaled)
  MaxParts,   \* bound on the length of each list
  Forms,      \* contribution forms offered: "pair", "single", "attr"
  Reds,       \* reductions offered to reduction(): subset of RedNames \cup {"default"}
  FullKinds, UpKinds, LoKinds,    \* bounding kernels offered to fullbound / upperbound / lowerbound
  BMaxO, BMinO,    \* limits (scaled).  cfg files take no negative numbers: the three ...O
                   \* constants are offset by Off = 8*S
  FullNoMax, FullNoMin,   \* also offer fullbound with max=None / min=None
  PowU, PowL,      \* exponents for the power kernels
  Families,   \* op families offered: "contrib","read","peek","update","some","clear","red","bound"
  MaxDepth

VARIABLE st
vars == <<st>>

Off == 8 * S
W0Base == W0BaseO - Off
BMax == BMaxO - Off
BMin == BMinO - Off

W0 == [e \in 1..E |-> W0Base + (e - 1) * W0Step]
PS0 == [w |-> W0, posL |-> <<>>, negL |-> <<>>, posC |-> Invalid, negC |-> Invalid,
        red |-> RedOf(Red0), bnd |-> Unbound]
Init0 == [q \in PNames |-> PS0]

PartSet == [1..E -> PartVals]
PartOpt == PartSet \cup {<<>>}
Rg == BMax - BMin

\* non-empty sequences of distinct parameters (updatesome)
ParamSeqs == UNION {{s \in [1..n -> PNames] : \A i, j \in 1..n : i # j => s[i] # s[j]} : n \in 1..Cardinality(PNames)}

Ops(s) ==
  LET room(q, side) == Len(IF side = "pos" THEN s[q].posL ELSE s[q].negL) < MaxParts
      fits(q, pv, nv) == (pv = <<>> \/ room(q, "pos")) /\ (nv = <<>> \/ room(q, "neg"))
      f_contrib ==
        (IF "pair" \in Forms
         THEN {[a |-> "contrib", p |-> q, form |-> "pair", side |-> "-", pos |-> pv, neg |-> nv] :
                  q \in PNames, pv \in PartOpt, nv \in PartOpt} ELSE {})
        \cup (IF "single" \in Forms
         THEN {[a |-> "contrib", p |-> q, form |-> "single", side |-> "-", pos |-> pv, neg |-> <<>>] :
                  q \in PNames, pv \in PartOpt} ELSE {})
        \cup (IF "attr" \in Forms
         THEN {[a |-> "contrib", p |-> q, form |-> "attr", side |-> "pos", pos |-> pv, neg |-> <<>>] :
                  q \in PNames, pv \in PartOpt}
              \cup {[a |-> "contrib", p |-> q, form |-> "attr", side |-> "neg", pos |-> <<>>, neg |-> nv] :
                  q \in PNames, nv \in PartOpt} ELSE {})
      f_read == {[a |-> "read", p |-> q, side |-> sd] : q \in PNames, sd \in {"pos", "neg"}}
      f_peek == {[a |-> "peek", p |-> q] : q \in PNames}
      f_update == {[a |-> "update", clear |-> c] : c \in BOOLEAN}
      f_some == {[a |-> "updatesome", ps |-> sq, clear |-> c] : sq \in ParamSeqs, c \in BOOLEAN}
      f_clear == {[a |-> "clear", p |-> "*", side |-> "*"]}
               \cup {[a |-> "clear", p |-> q, side |-> sd] : q \in PNames, sd \in {"*", "pos", "neg"}}
      f_red == {[a |-> "reduction", p |-> q, r |-> r] : q \in PNames, r \in Reds}
      f_bound ==
        {[a |-> "fullbound", p |-> q, k |-> k, mx |-> mx, mn |-> mn, pu |-> PowU, pl |-> PowL] :
            q \in PNames, k \in FullKinds,
            mx \in {BMax} \cup (IF FullNoMax THEN {NoLim} ELSE {}),
            mn \in {BMin} \cup (IF FullNoMin THEN {NoLim} ELSE {})}
        \cup {[a |-> "upperbound", p |-> q, k |-> k, lim |-> BMax, pw |-> PowU, rg |-> Rg] : q \in PNames, k \in UpKinds}
        \cup {[a |-> "lowerbound", p |-> q, k |-> k, lim |-> BMin, pw |-> PowL, rg |-> Rg] : q \in PNames, k \in LoKinds}
      all == (IF "contrib" \in Families THEN {o \in f_contrib : fits(o.p, o.pos, o.neg)} ELSE {})
             \cup (IF "read" \in Families THEN f_read ELSE {})
             \cup (IF "peek" \in Families THEN f_peek ELSE {})
             \cup (IF "update" \in Families THEN f_update ELSE {})
             \cup (IF "some" \in Families THEN f_some ELSE {})
             \cup (IF "clear" \in Families THEN f_clear ELSE {})
             \cup (IF "red" \in Families THEN f_red ELSE {})
             \cup (IF "bound" \in Families THEN f_bound ELSE {})
  IN {o \in all : OpExact(s, o)}

Init == st = Init0
Next == \E o \in Ops(st) : \E mo \in MApply(st, o) : st' = mo.st
Spec == Init /\ [][Next]_vars

Bounded == TLCGet("level") <= MaxDepth

(***************************************************************************)
(* Properties                                                              *)
(***************************************************************************)
\* A named clause: when it is false its name is printed, so that one pass over Ops(st)
\* can serve several properties and still tell which one failed.
Clause(name, cond) == cond \/ ~PrintT(ToJson([clause |-> name, state |-> st]))

TypeOK ==
  /\ DOMAIN st = PNames
  /\ \A q \in PNames :
       /\ Len(st[q].w) = E
       /\ Len(st[q].posL) <= MaxParts /\ Len(st[q].negL) <= MaxParts
       /\ \A i \in DOMAIN st[q].posL : Len(st[q].posL[i]) = E
       /\ \A i \in DOMAIN st[q].negL : Len(st[q].negL[i]) = E
       /\ st[q].red \in RedNames
       /\ st[q].bnd.mode \in {"full", "half"}
       /\ st[q].bnd.mode = "full" => st[q].bnd.u = NoneHalf /\ st[q].bnd.l = NoneHalf
       /\ st[q].bnd.mode = "half" => st[q].bnd.f = NoneFull

\* caches valid => equal to reduce(list) under the reduction in force
CacheCoherent == Clause("CacheCoherent", \A q \in PNames : CacheCoherentP(st[q]))

\* w' = w + BU(reduce(pos bag)) - BL(reduce(neg bag)), reads return reduce(bag): the
\* implementation-shaped model agrees with the property's formula for this operation
RefinesOp(ab, o) ==
  \A mo \in MApply(st, o) :
     \E ao \in AApply(ab, AbsOp(st, o)) : ao.st = AbsOf(mo.st) /\ ao.ret = mo.ret

Touched(o) == IF o.a = "update" THEN PNames ELSE {o.ps[i] : i \in DOMAIN o.ps}

\* nothing accumulated => parameter untouched (and every parameter not named is untouched)
NoopOp(o) ==
  o.a \in {"update", "updatesome"} =>
  \A mo \in MApply(st, o) : \A q \in PNames :
     ((st[q].posL = <<>> /\ st[q].negL = <<>>) \/ q \notin Touched(o)) => mo.st[q].w = st[q].w

\* after the default clear a second application changes nothing
IdemOp(o) ==
  (o.a \in {"update", "updatesome"} /\ o.clear) =>
     \A mo \in MApply(st, o) :
        /\ \A q \in Touched(o) : mo.st[q].posL = <<>> /\ mo.st[q].negL = <<>>
        /\ OpExact(mo.st, o)
        /\ \A m2 \in MApply(mo.st, o) : \A q \in PNames : m2.st[q].w = mo.st[q].w

\* the reduction in force (the constructor's, or the last one set) is the one every read uses,
\* whatever the number of pending parts - none, exactly ONE (the reduction is still applied:
\* stack of one part, reduce over it), or several
CustomRedOp(o) ==
  o.a = "read" =>
     LET L == IF o.side = "pos" THEN st[o.p].posL ELSE st[o.p].negL IN
     \A mo \in MApply(st, o) :
        /\ mo.ret = ReduceOpt(st[o.p].red, L)
        /\ Len(L) = 0 => ~mo.ret.some
        /\ Len(L) = 1 => mo.ret = SomeV(Reduce(st[o.p].red, <<L[1]>>))

\* Refinement, NoopWhenEmpty, Idempotent, CustomReductionUsed: for ALL operations in every reachable state
OpInvariants ==
  LET ab == AbsOf(st) IN
  \A o \in Ops(st) :
     /\ Clause("Refinement", RefinesOp(ab, o))
     /\ Clause("NoopWhenEmpty", NoopOp(o))
     /\ Clause("Idempotent", IdemOp(o))
     /\ Clause("CustomReductionUsed", CustomRedOp(o))

\* any permutation of the contributions => the same update, hence the same w'
PermSeq(L, f) == [i \in DOMAIN L |-> L[f[i]]]
OrderIndependent ==
  \A q \in PNames :
    LET ps == st[q]
        cold == [ps EXCEPT !.posC = Invalid, !.negC = Invalid]
    IN MUpdOK(cold) =>
       \A f \in Permutations(DOMAIN ps.posL), g \in Permutations(DOMAIN ps.negL) :
          LET pp == [cold EXCEPT !.posL = PermSeq(ps.posL, f), !.negL = PermSeq(ps.negL, g)]
          IN MUpdOK(pp) /\ MUpdVal(pp) = MUpdVal(cold)

\* --- range invariants of parameter dependence ------------------------------------
Staying(h, hasRange) ==
  \/ h.k = "mult"
  \/ h.k = "pow" /\ h.pw = 1
  \/ h.k = "smult" /\ hasRange
  \/ h.k = "spow" /\ h.pw >= 1 /\ hasRange
\* the bound on the reduced magnitude the property names: 1 for multiplicative, the range for the scaled kinds
MagBound(h) == IF h.k \in {"smult", "spow"} THEN h.rg ELSE S
InsideE(wv, lo, hi) == lo <= wv /\ wv <= hi

StepInsideP(ps) ==
  LET up == EffUp(ps.bnd)
      lo == EffLo(ps.bnd)
      hasRange == up.rg = up.lim - lo.lim /\ lo.rg = up.lim - lo.lim
      rp == MGetPos(ps)
      rn == MGetNeg(ps)
      n == Len(ps.w)
      pt == IF rp.some THEN rp.x ELSE Zeros(n)
      nt == IF rn.some THEN rn.x ELSE Zeros(n)
      nxt == MApplyAcc(ps)
  IN (/\ Staying(up, hasRange) /\ Staying(lo, hasRange) /\ lo.lim <= up.lim
      /\ MUpdOK(ps)
      /\ \A e \in 1..n : InsideE(ps.w[e], lo.lim, up.lim)
      /\ \A e \in 1..n : 0 <= pt[e] /\ pt[e] <= MagBound(up) /\ 0 <= nt[e] /\ nt[e] <= MagBound(lo))
     => \A e \in 1..n : InsideE(nxt.w[e], lo.lim, up.lim)

\* inductive step at every reachable state: inside + magnitudes bounded => inside after applying
StaysInside == \A q \in PNames : StepInsideP(st[q])

\* the same step for EVERY grid value inside the limits and every pair of magnitudes,
\* reachable or not (checked once, in the initial state)
GridW == {BMin + i * (S \div 4) : i \in 0..((BMax - BMin) \div (S \div 4))}
GridKinds == {[k |-> "mult", pw |-> 1], [k |-> "pow", pw |-> 1], [k |-> "smult", pw |-> 1],
              [k |-> "spow", pw |-> 1], [k |-> "spow", pw |-> 2], [k |-> "spow", pw |-> 3]}
GridStep ==
  TLCGet("level") > 1 \/
  \A ku \in GridKinds, kl \in GridKinds :
    LET up == [k |-> ku.k, lim |-> BMax, pw |-> ku.pw, rg |-> Rg]
        lo == [k |-> kl.k, lim |-> BMin, pw |-> kl.pw, rg |-> Rg]
    IN \A wv \in GridW :
       \A pm \in {i * (S \div 4) : i \in 0..(MagBound(up) \div (S \div 4))},
          nm \in {i * (S \div 4) : i \in 0..(MagBound(lo) \div (S \div 4))} :
         (HalfEOK(up, "up", wv, pm) /\ HalfEOK(lo, "lo", wv, nm)) =>
            InsideE(wv + HalfE(up, "up", wv, pm) - HalfE(lo, "lo", wv, nm), BMin, BMax)

\* sharp dependence: a parameter at or beyond a limit receives nothing that moves it further
SharpNeverFurther ==
  \A q \in PNames :
    LET ps == st[q]
        up == EffUp(ps.bnd)
        lo == EffLo(ps.bnd)
        rp == MGetPos(ps)
        rn == MGetNeg(ps)
        n == Len(ps.w)
        pt == IF rp.some THEN rp.x ELSE Zeros(n)
        nt == IF rn.some THEN rn.x ELSE Zeros(n)
        nxt == MApplyAcc(ps)
        nonneg == \A e \in 1..n : pt[e] >= 0 /\ nt[e] >= 0
    IN MUpdOK(ps) /\ nonneg =>
       /\ (up.k = "sharp" /\ lo.k \in {"none", "sharp"}) =>
             \A e \in 1..n : ps.w[e] >= up.lim => nxt.w[e] <= ps.w[e]
       /\ (lo.k = "sharp" /\ up.k \in {"none", "sharp"}) =>
             \A e \in 1..n : ps.w[e] <= lo.lim => nxt.w[e] >= ps.w[e]

(***************************************************************************)
(* Behaviour generation: one JSON line per distinct state with the         *)
(* complete outcome table of that state.                                   *)
(*                                                                         *)
(* States are printed through View: the caches are an implementation       *)
(* device (whether and when the code caches is not part of the property),  *)
(* so the view shows instead what the two reads return - by CacheCoherent  *)
(* the reduction of the lists - and the harness observes exactly that      *)
(* through Accumulator.pos/.neg.  Mech states that differ only in their    *)
(* caches have the same view and the same outcome table.  A mean that      *)
(* leaves the grid is shown as OffGrid (the harness reports any off-grid   *)
(* float the same way).                                                    *)
(***************************************************************************)
OffGrid == -777777
ReadView(r, L) ==
  IF Len(L) = 0 THEN NoneV
  ELSE SomeV([e \in 1..Len(L[1]) |->
               IF ~ReduceEOK(r, L, e) THEN OffGrid ELSE ReduceE(r, L, e)])
ViewP(ps) == [w |-> ps.w, posL |-> ps.posL, negL |-> ps.negL, red |-> ps.red, bnd |-> ps.bnd,
              pos |-> ReadView(ps.red, ps.posL), neg |-> ReadView(ps.red, ps.negL)]
View(s) == [q \in DOMAIN s |-> ViewP(s[q])]

\* (TLC evaluates invariants also on the states just beyond the depth bound: not printed)
Emit == TLCGet("level") > MaxDepth \/
        PrintT(ToJson([s |-> View(st),
                              out |-> {[op |-> o, res |-> {[st |-> View(mo.st), ret |-> mo.ret] : mo \in MApply(st, o)}] :
                                         o \in Ops(st)}]))

=============================================================================
