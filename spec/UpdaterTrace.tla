---------------------------- MODULE UpdaterTrace ----------------------------
(***************************************************************************)
(* Trace specification for executions of a real Updater recorded by the    *)
(* harness (direction B).  A batch file holds many traces:                 *)
(*   [ [hdr |-> [init |-> Mech state, waive |-> <<..>>],                   *)
(*      ev  |-> << [op, ret, st], ... >>] ]                                 *)
(* where ev.st is what the public API shows after the call: the value of   *)
(* every trainable parameter.  The specification keeps the full Mech state *)
(* (lists, caches, reduction, bind) itself; every event must be the        *)
(* outcome of MApply on it: same return value (reads, peeks) and same      *)
(* parameter values, and the step must refine the property's formula.      *)
(* An operation whose arithmetic leaves the dyadic grid is outside the     *)
(* model: it is accepted and the logged parameter values are adopted.      *)
(***************************************************************************)
EXTENDS UpdaterCore, Json, IOUtils, TLCExt

Traces == JsonDeserialize(IOEnv.TRACE_FILE)

VARIABLES tid, l, st
vars == <<tid, l, st>>

NT == Len(Traces)
Evs(t) == Traces[t].ev
MaxL(a, b) == IF a >= b THEN a ELSE b
Waived(t) == {Traces[t].hdr.waive[i] : i \in DOMAIN Traces[t].hdr.waive}

ASSUME \A i \in 1..NT : TLCSet(100 + i, 0)

WOf(s) == [q \in DOMAIN s |-> s[q].w]
Adopt(s, wr) == [q \in DOMAIN s |-> [s[q] EXCEPT !.w = wr[q]]]
TheOutcome(s, o) == CHOOSE mo \in MApply(s, o) : TRUE

Init == /\ tid \in 1..NT
        /\ l = 1
        /\ st = Traces[tid].hdr.init

Matches(e) == {mo \in MApply(st, e.op) : mo.ret = e.ret /\ WOf(mo.st) = e.st}
Free(e) == l \in Waived(tid) \/ ~OpExact(st, e.op)

Step ==
  /\ l <= Len(Evs(tid))
  /\ LET e == Evs(tid)[l] IN
       IF Free(e)
       THEN st' = Adopt(TheOutcome(st, e.op).st, e.st)
       ELSE /\ RefinesAt(st, e.op)
            /\ \A q \in DOMAIN st : CacheCoherentP(st[q])
            /\ \E mo \in Matches(e) : st' = mo.st
  /\ l' = l + 1
  /\ UNCHANGED tid

TraceSpec == Init /\ [][Step]_vars

Track ==
  /\ TLCSet(100 + tid, MaxL(TLCGet(100 + tid), l))
  /\ IF l <= Len(Evs(tid)) /\ ~Free(Evs(tid)[l])
        /\ (Matches(Evs(tid)[l]) = {} \/ ~RefinesAt(st, Evs(tid)[l].op))
     THEN PrintT(ToJson([diag |-> tid, l |-> l, refok |-> RefinesAt(st, Evs(tid)[l].op),
                         expected |-> {[ret |-> mo.ret, st |-> WOf(mo.st)] : mo \in MApply(st, Evs(tid)[l].op)},
                         state |-> st]))
     ELSE TRUE

Post ==
  PrintT(ToJson([rejected |-> {<<i, TLCGet(100 + i)>> : i \in {j \in 1..NT : TLCGet(100 + j) <= Len(Evs(j))}},
                 total |-> NT]))
=============================================================================
