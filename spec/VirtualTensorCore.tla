-------------------------- MODULE VirtualTensorCore --------------------------
(***************************************************************************)
(* Extension of the C14 specification: inferno.core.infrastructure.        *)
(* VirtualTensor - a tensor attribute that is COMPUTED from its owner on   *)
(* every access by a materialiser (name of a method of the owner, a        *)
(* function defined inside the owner's class, or an external function),    *)
(* cast to the dtype of a zero-sized reference buffer `_<name>_ref`        *)
(* registered on the owner (persistent or not), which a finaliser removes  *)
(* when the VirtualTensor object dies.                                     *)
(*                                                                         *)
(* Abs  - the virtual tensor named v of an owner: exists or not, dtype,    *)
(*        which materialiser; its value is a function of the owner's       *)
(*        present attribute `base` (nothing is cached).                    *)
(* Mech - live VirtualTensor OBJECTS (ids), which one is the owner's       *)
(*        attribute, which one a client holds, whether the finaliser of    *)
(*        each is still armed, the reference buffer (present, dtype,       *)
(*        persistent) - and reference counting: an object that is neither  *)
(*        the attribute of a living owner nor held dies; its armed         *)
(*        finaliser deletes `_<name>_ref` from the living owner BY NAME.   *)
(*        Rule R.recreate: "guarded" (a dying object leaves the buffer     *)
(*        alone when the owner's attribute is by then another              *)
(*        VirtualTensor) | "by-name" (the finaliser of a replaced object   *)
(*        deletes the NEW reference buffer).                               *)
(* state st = [alive, att, held, objs, ref, base, next]                    *)
(***************************************************************************)
EXTENDS Integers, Sequences, FiniteSets, TLC

CONSTANT MaxObjs

Ids == 1..MaxObjs
Floating == {"f16", "f32", "f64"}
DTypes == Floating \cup {"i64"}
NoObj == [live |-> FALSE, mat |-> "-", fin |-> FALSE]
NoRef == [present |-> FALSE, dt |-> "-", persist |-> FALSE]

InitState == [alive |-> TRUE, att |-> 0, held |-> 0, objs |-> [i \in Ids |-> NoObj], ref |-> NoRef, base |-> 1, next |-> 1]

Out(st, r) == [st |-> st, ret |-> r]
Err(st, e) == {Out(st, [t |-> "err", e |-> e])}
Ok(st) == {Out(st, [t |-> "ok"])}

\* what the materialisers compute from the owner
Compute(mat, base) == CASE mat = "method" -> base [] mat = "inner" -> base + 10 [] mat = "ext" -> base * 2 [] OTHER -> -1

\* reference counting: objects that are neither the attribute of a living owner nor held die,
\* and an armed finaliser of a dying object removes the reference buffer of the living owner
Collect(st, R) ==
  LET keep(i) == (st.alive /\ st.att = i) \/ st.held = i
      dying == {i \in Ids : st.objs[i].live /\ ~keep(i)}
      kills == st.alive /\ (\E i \in dying : st.objs[i].fin) /\ (R.recreate = "by-name" \/ st.att = 0)
  IN [st EXCEPT !.objs = [i \in Ids |-> IF i \in dying THEN NoObj ELSE st.objs[i]],
                !.ref = IF ~st.alive \/ kills THEN NoRef ELSE st.ref,
                !.att = IF st.alive THEN st.att ELSE 0]

\* VirtualTensor.create(owner, "v", materializer, dtype, persist):
\*   register_buffer("_v_ref", empty(0, dtype), persistent=persist) ; setattr(owner, "v", virtual)
MCreate(st, mat, dt, persist, R) ==
  LET id == st.next
      objs1 == [st.objs EXCEPT ![id] = [live |-> TRUE, mat |-> mat, fin |-> TRUE]]
  IN Ok(Collect([st EXCEPT !.objs = objs1, !.att = id, !.next = id + 1,
                           !.ref = [present |-> TRUE, dt |-> dt, persist |-> persist]], R))

\* constructor argument checks: name must be an identifier (ValueError), a string materialiser
\* must name an attribute (AttributeError) that is a method (TypeError)
MCreateBad(st, kind) ==
  Err(st, CASE kind = "badname" -> "ValueError" [] kind = "missing" -> "AttributeError" [] OTHER -> "TypeError")

Target(st, via) == IF via = "attr" THEN st.att ELSE st.held
\* every access dereferences the owner and reads `_v_ref` from it
Access(st, via) ==
  LET i == Target(st, via) IN
  IF i = 0 \/ (via = "attr" /\ ~st.alive) THEN "NoObject"
  ELSE IF ~st.alive \/ ~st.ref.present THEN "AttributeError" ELSE "ok"

MValue(st, via) ==
  LET a == Access(st, via) IN
  IF a = "NoObject" THEN Err(st, "AttributeError") ELSE IF a # "ok" THEN Err(st, a)
  ELSE {Out(st, [t |-> "val", v |-> Compute(st.objs[Target(st, via)].mat, st.base), dt |-> st.ref.dt])}

MGetDtype(st, via) ==
  LET a == Access(st, via) IN
  IF a = "NoObject" THEN Err(st, "AttributeError") ELSE IF a # "ok" THEN Err(st, a)
  ELSE {Out(st, [t |-> "dtype", dt |-> st.ref.dt])}

\* virtual.dtype = d  /  virtual.to(d): the reference buffer is converted
MSetDtype(st, via, d) ==
  LET a == Access(st, via) IN
  IF a = "NoObject" THEN Err(st, "AttributeError") ELSE IF a # "ok" THEN Err(st, a)
  ELSE Ok([st EXCEPT !.ref.dt = d])

\* owner.to(d), d floating: torch converts floating-point buffers only
MOwnerTo(st, d) ==
  Ok(IF st.ref.present /\ st.ref.dt \in Floating THEN [st EXCEPT !.ref.dt = d] ELSE st)

MInStateDict(st) == {Out(st, [t |-> "bool", b |-> st.ref.present /\ st.ref.persist])}

MApplyR(st, o, R) ==
  CASE o.a = "create" -> MCreate(st, o.mat, o.dt, o.persist, R)
    [] o.a = "create_bad" -> MCreateBad(st, o.kind)
    [] o.a = "set_base" -> Ok([st EXCEPT !.base = o.b])
    [] o.a = "value" -> MValue(st, o.via)
    [] o.a = "get_dtype" -> MGetDtype(st, o.via)
    [] o.a = "set_dtype" -> MSetDtype(st, o.via, o.d)
    [] o.a = "vt_to" -> MSetDtype(st, o.via, o.d)
    [] o.a = "owner_to" -> MOwnerTo(st, o.d)
    [] o.a = "in_sd" -> MInStateDict(st)
    [] o.a = "hold" -> Ok([st EXCEPT !.held = st.att])
    [] o.a = "release" -> Ok(Collect([st EXCEPT !.held = 0], R))
    [] o.a = "del_attr" -> Ok(Collect([st EXCEPT !.att = 0], R))
    [] o.a = "del_owner" -> Ok(Collect([st EXCEPT !.alive = FALSE], R))

Intended == [recreate |-> "guarded"]
MApply(st, o) == MApplyR(st, o, Intended)

(***************************************************************************)
(* Abs and properties                                                      *)
(***************************************************************************)
\* the owner's virtual tensor as a client sees it
AbsOf(st) ==
  IF st.alive /\ st.att # 0
  THEN [exists |-> TRUE, mat |-> st.objs[st.att].mat, dt |-> st.ref.dt]
  ELSE [exists |-> FALSE, mat |-> "-", dt |-> "-"]

\* nothing leaks: a living owner without any live VirtualTensor object has no reference buffer
NoLeak(st) == (st.alive /\ \A i \in Ids : ~st.objs[i].live) => ~st.ref.present
\* the attribute of a living owner is always usable
AttachedUsable(st) == (st.alive /\ st.att # 0) => (st.objs[st.att].live /\ st.ref.present)
\* the value is recomputed from the owner on every access, in the reference dtype
ValueIsDerived(st) ==
  (st.alive /\ st.att # 0) =>
     \A mo \in MValue(st, "attr") :
        mo.ret.t = "val" /\ mo.ret.v = Compute(AbsOf(st).mat, st.base) /\ mo.ret.dt = AbsOf(st).dt
=============================================================================
