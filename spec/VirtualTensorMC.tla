---------------------------- MODULE VirtualTensorMC ----------------------------
EXTENDS VirtualTensorCore, Json

CONSTANTS RRecreate, DtSetC     \* rule of the Mech layer; dtypes offered to create / set_dtype

R == [recreate |-> RRecreate]
VARIABLE st
vars == <<st>>

Ops(s) ==
  (IF s.alive THEN
     (IF s.next <= MaxObjs
      THEN {[a |-> "create", mat |-> m, dt |-> d, persist |-> p] : m \in {"method", "inner", "ext"}, d \in DtSetC, p \in BOOLEAN}
      ELSE {})
     \cup {[a |-> "create_bad", kind |-> k] : k \in {"badname", "missing", "notmethod"}}
     \cup {[a |-> "set_base", b |-> b] : b \in {1, 2}}
     \cup {[a |-> "owner_to", d |-> d] : d \in DtSetC \cap Floating}
     \cup {[a |-> "in_sd"], [a |-> "del_owner"]}
     \cup (IF s.att # 0 THEN {[a |-> "del_attr"]} \cup (IF s.held = 0 THEN {[a |-> "hold"]} ELSE {}) ELSE {})
   ELSE {})
  \cup {[a |-> x, via |-> v] : x \in {"value", "get_dtype"}, v \in {"attr", "held"}}
  \cup {[a |-> x, via |-> v, d |-> d] : x \in {"set_dtype", "vt_to"}, v \in {"attr", "held"}, d \in DtSetC}
  \cup (IF s.held # 0 THEN {[a |-> "release"]} ELSE {})

Init == st = InitState
Next == \E o \in Ops(st) : \E mo \in MApplyR(st, o, R) : st' = mo.st
Spec == Init /\ [][Next]_vars

TypeOK == /\ st.att \in 0..MaxObjs /\ st.held \in 0..MaxObjs /\ st.next \in 1..(MaxObjs + 1)
          /\ st.ref.present => st.ref.dt \in DTypes
RefInv == NoLeak(st)
UsableInv == AttachedUsable(st)
ValueInv == ValueIsDerived(st)
\* an operation on the virtual tensor never changes the owner's other attribute, and only
\* create / del / release / del_owner change which objects live
FrameInv == \A o \in Ops(st) : \A mo \in MApplyR(st, o, R) :
   /\ (o.a # "set_base") => mo.st.base = st.base
   /\ (o.a \notin {"create", "del_attr", "release", "del_owner"}) => mo.st.objs = st.objs

Emit == PrintT(ToJson([s |-> st, out |-> {[op |-> o, res |-> MApplyR(st, o, R)] : o \in Ops(st)}]))
=============================================================================
