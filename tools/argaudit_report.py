#!/usr/bin/env python3
"""argaudit_report.py <dir> [--anchors]  -- merge the files written under VERIF_ARGAUDIT=<dir> and list, per callable of the
library, the parameters that never received anything but one class of value (or never a non-default one)."""
import json, glob, sys, collections
d = sys.argv[1]
merged = {}
for f in glob.glob(d + "/*.json"):
    tag = f.split("/")[-1].split("-")[0]
    for q, rec in json.load(open(f)).items():
        m = merged.setdefault(q, {"calls": 0, "tags": set(), "params": {}})
        m["calls"] += rec["calls"]; m["tags"].add(tag)
        for p, pr in rec["params"].items():
            mp = m["params"].setdefault(p, {"default": pr["default"], "seen": collections.Counter(), "nondefault": 0})
            mp["seen"].update(pr["seen"]); mp["nondefault"] += pr["nondefault"]
anchors = set()
for l in open('/verif/properties.jsonl'):
    anchors.update(json.loads(l)["anchors"]["files"])
amods = {a[:-3].replace("/", ".") for a in anchors}
rows = []
for q, m in sorted(merged.items()):
    mod = ".".join(q.split(".")[:-1])
    if "--anchors" in sys.argv and not any(q.startswith(a + ".") for a in amods):
        continue
    if any(part.startswith("_") and part not in ("__init__", "__call__") for part in q.split(".")[2:]):
        continue
    for p, pr in m["params"].items():
        if pr["default"] is None:
            classes = set(pr["seen"])
            if len(classes) <= 1:
                rows.append((q, p, "REQUIRED one class only", dict(pr["seen"]), sorted(m["tags"])))
        elif pr["nondefault"] == 0:
            rows.append((q, p, f"never passed (default {pr['default']})", {}, sorted(m["tags"])))
        elif len(pr["seen"]) <= 1:
            rows.append((q, p, f"one class only (default {pr['default']})", dict(pr["seen"]), sorted(m["tags"])))
for r in rows:
    print(f"{r[0]} :: {r[1]} :: {r[2]} :: {r[3]} :: {','.join(r[4])}")
print(f"# {len(merged)} callables called, {len(rows)} parameter rows", file=sys.stderr)
