#!/venv/bin/python
"""confirm_mutant.py <PID> <src_dir> <seed_id> [--checks C01,C13] [--skip-suite]

Confirms a seeded change independently (in a scratch worktree of /repo's HEAD, removed afterwards):
 1. patch applies; 2. the demonstration exits 0 without and non-zero with the change;
 3. the repository's test suite still passes with the change (failures that are known-flaky are listed);
 4. runs the named /verif checks against the changed tree (VERIF_REPO) and records exit code / VIOLATION lines.
Stores patch.diff, demo.py, meta.json under /verif/seeded/<seed_id>/."""
import json, os, shutil, subprocess, sys, time
from pathlib import Path

pid, src, sid = sys.argv[1], Path(sys.argv[2]), sys.argv[3]
checks = [pid]
skip_suite = "--skip-suite" in sys.argv
for i, a in enumerate(sys.argv):
    if a == "--checks":
        checks = sys.argv[i + 1].split(",")
wt = Path(f"/tmp/confirm-{sid}")
dst = Path("/verif/seeded") / sid
FLAKY = ["TestTripletSTDP::test_partial_update", "test_interp_expratedecay", "TestLinearHomeostasis::test_partial_update",
         "TestSTDP::test_delayed_update", "test_forward_delayed"]


def sh(cmd, cwd=None, env=None, timeout=3600):
    p = subprocess.run(cmd, shell=True, cwd=cwd, env=env, capture_output=True, text=True, timeout=timeout)
    return p.returncode, p.stdout + p.stderr


subprocess.run(f"git -C /repo worktree remove --force {wt}", shell=True, capture_output=True)
rc, out = sh(f"git -C /repo worktree add --detach {wt} HEAD")
assert rc == 0, out
meta = json.loads((src / "meta.json").read_text()) if (src / "meta.json").exists() else {}
res = {"property": pid, "seed_id": sid, "agent_meta": meta, "repo_head": sh("git -C /repo rev-parse --short HEAD")[1].strip()}
try:
    shutil.copy(src / "demo.py", wt / "demo_seed.py")
    rc0, _ = sh("/venv/bin/python demo_seed.py", cwd=wt)
    rc, out = sh(f"git apply {src / 'patch.diff'}", cwd=wt)
    res["applies"] = (rc == 0)
    assert rc == 0, out
    rc1, o1 = sh("/venv/bin/python demo_seed.py", cwd=wt)
    res["demo_exit_clean"], res["demo_exit_changed"] = rc0, rc1
    os.remove(wt / "demo_seed.py")
    if not skip_suite:
        rc, out = sh("OMP_NUM_THREADS=4 /venv/bin/python -m pytest -q -p no:cacheprovider --timeout=900 2>&1 | tail -15", cwd=wt)
        fails = [l for l in out.splitlines() if l.startswith("FAILED") or l.startswith("ERROR")]
        res["suite_tail"] = out.splitlines()[-1] if out.splitlines() else ""
        res["suite_failures"] = fails
        res["suite_nonflaky_failures"] = [f for f in fails if not any(k in f for k in FLAKY)]
    res["checks"] = {}
    for c in checks:
        t = time.time()
        env = dict(os.environ, VERIF_REPO=str(wt), VERIF_EVIDENCE_DIR=f"/tmp/confirm-evid-{sid}")
        rc, out = sh(f"./check {c} --tier quick", cwd="/verif", env=env, timeout=5400)
        vio = [l for l in out.splitlines() if l.startswith("VIOLATION") or l.strip().startswith("signature:")]
        res["checks"][c] = {"exit": rc, "wall_s": round(time.time() - t, 1), "violation_lines": vio[:12]}
    res["caught_by"] = [c for c, r in res["checks"].items() if r["exit"] == 1]
finally:
    subprocess.run(f"git -C /repo worktree remove --force {wt}", shell=True, capture_output=True)
    shutil.rmtree(f"/tmp/confirm-evid-{sid}", ignore_errors=True)
dst.mkdir(parents=True, exist_ok=True)
shutil.copy(src / "patch.diff", dst / "patch.diff")
shutil.copy(src / "demo.py", dst / "demo.py")
(dst / "meta.json").write_text(json.dumps(res, indent=1))
print(json.dumps({k: res[k] for k in res if k not in ("agent_meta",)}, indent=1))
