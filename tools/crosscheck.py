#!/venv/bin/python
"""crosscheck.py <seed_id> <C..,C..>: run additional checks against an already confirmed seeded change
and merge the result into /verif/seeded/<seed_id>/meta.json (no test-suite rerun)."""
import json, os, subprocess, sys, time, shutil
from pathlib import Path
sid, checks = sys.argv[1], sys.argv[2].split(',')
dst = Path('/verif/seeded') / sid
meta = json.loads((dst / 'meta.json').read_text())
wt = Path(f'/tmp/cross-{sid}')
subprocess.run(f'git -C /repo worktree remove --force {wt}', shell=True, capture_output=True)
assert subprocess.run(f'git -C /repo worktree add --detach {wt} HEAD', shell=True, capture_output=True).returncode == 0
try:
    r = subprocess.run(f'git apply {dst}/patch.diff', shell=True, cwd=wt, capture_output=True, text=True)
    assert r.returncode == 0, r.stderr
    for c in checks:
        t = time.time()
        env = dict(os.environ, VERIF_REPO=str(wt), VERIF_EVIDENCE_DIR=f'/tmp/cross-evid-{sid}')
        p = subprocess.run(f'./check {c} --tier quick', shell=True, cwd='/verif', env=env, capture_output=True, text=True, timeout=5400)
        out = p.stdout + p.stderr
        vio = [l for l in out.splitlines() if l.startswith('VIOLATION') or l.strip().startswith('signature:')]
        meta['checks'][c] = {'exit': p.returncode, 'wall_s': round(time.time() - t, 1), 'violation_lines': vio[:12]}
    meta['caught_by'] = [c for c, r in meta['checks'].items() if r['exit'] == 1]
    meta['repo_head_last_run'] = subprocess.run('git -C /repo rev-parse --short HEAD', shell=True, capture_output=True, text=True).stdout.strip()
finally:
    subprocess.run(f'git -C /repo worktree remove --force {wt}', shell=True, capture_output=True)
    shutil.rmtree(f'/tmp/cross-evid-{sid}', ignore_errors=True)
(dst / 'meta.json').write_text(json.dumps(meta, indent=1))
print(sid, {c: meta['checks'][c]['exit'] for c in checks}, 'caught_by', meta['caught_by'])
