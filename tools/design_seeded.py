#!/usr/bin/env python3
"""Rewrites section D.25 (the last section) of DESIGN.md from seeded/*/meta.json."""
import json, glob
rows = []
for f in sorted(glob.glob('/verif/seeded/*/meta.json')):
    d = json.load(open(f)); am = d.get('agent_meta', {})
    summ = (am.get('summary') or '').replace('\n', ' ')
    s = summ[:115].rsplit(' ', 1)[0]
    clauses = set()
    for c, r in (d.get('checks') or {}).items():
        if not isinstance(r, dict):
            continue
        for l in r.get('violation_lines', []):
            if 'signature' in l:
                try:
                    sg = json.loads(l.split('signature:', 1)[1])
                    clauses.add(f"{sg.get('clause')}@{str(sg.get('site', sg.get('op', '')))[:28]}")
                except Exception:
                    pass
    rows.append((d['seed_id'], s, ', '.join(d.get('caught_by', [])), '; '.join(sorted(clauses))[:90], '†' if d.get('history') else ''))
n = len(rows)
out = ["### D.25 Seeded changes: which check catches which change", "",
       f"{n} realistic source changes were written by independent sub-agents (each given only the text of one",
       "property and a scratch worktree; nothing from /verif): three per property in a first round (m1–m3), two in a",
       "second (m4–m5), two in a third (m6–m7), two in a fourth (m8–m9) and three more (m10–m12) in a fifth round (ten properties) and a sixth round (the other ten; these agents were asked for changes that need a specific configuration, dtype, calling history or boundary value).  C08-m13 is the reverse of the repair of D48.  A seventh round (m13–m15, C08: m14–m16) went back to the ten properties of the fifth with the sixth round's brief, an eighth (m13–m15) to the other ten.  Two candidates of the eighth round were NOT kept because they do not violate the property as stated (C18: a custom, non-homogeneous batch reduction; the caller mutating a tensor it passed as a kernel keyword argument - C18 says nothing about either).  Each was confirmed by `tools/confirm_mutant.py` in a scratch worktree:",
       "the patch applies, its demonstration exits 0 without and non-zero with the change, the repository's suite still",
       "passes with it (failures of the randomly flaky tests of the unchanged tree excepted), and the quick tier of",
       "the named checks was run against the changed tree (`VERIF_REPO`, scratch evidence directory).  Stored as",
       "`seeded/<id>/{patch.diff, demo.py, meta.json}`; full table with what each needs in order to manifest:",
       "`notes/SEEDED.md`.  † = missed when first run; the check was strengthened (never loosened) and the entry says",
       "how (`history` in meta.json, summarised below the table).  First-run miss rate per round: 7/60, 9/40, 9/40, 6/40, 5/30, 7/30, 10/30, 6/28 (in the fourth and fifth rounds 2 + 4 of the misses were caught by a sibling check, in the sixth one; the sixth round's misses were inputs the checks had not varied: integer spike counts / spike times, a non-default epsilon, narrow non-dyadic log-normals, a relative tolerance at 1.5e-5 steps, clear(keepshape=True) between re-configurations; the seventh round's: float64 groups / connections, sub-microsecond time scales, a step time changed by a relative 2^-40, integer reward tensors, application through trainer.update() with a shared updater, in-place transforms - three of its ten misses were caught by a sibling check; the eighth round's: a draw of exactly 0.0 (probability 2^-24), a fractional order on the unused half kernel, stored +-inf, a size-1 record aliasing the caller's tensor, a complex scale, a negative scale with a reward tensor).", "",
       "| id | change (abridged) | caught by | failing clauses @ site | |", "|---|---|---|---|---|"]
for r in rows:
    out.append("| " + " | ".join(x.replace('|', '/') for x in r) + " |")
out += ["", "Strengthenings prompted by misses (†):", ""]
for f in sorted(glob.glob('/verif/seeded/*/meta.json')):
    d = json.load(open(f))
    if d.get('history'):
        out.append(f"* **{d['seed_id']}** — {d['history']}.")
out += ["", "Not every change is caught ONLY by the check of the property it was written for: a change in shared machinery",
        "(the delayed-read helper, the record's size formula, the event reducer) is caught by the specification that owns",
        "that machinery - C06-m5 by C04 and C06, C14-m2 by C13 and C14, C11-m3 by C06 and C11, C18-m5 by C07 alone",
        "(KernelSTDP with non-zero delays is outside C18's statement).", ""]
s = open('/verif/DESIGN.md').read()
i = s.index("### D.25 Seeded changes")
s = s[:i] + '\n'.join(out) + '\n'
open('/verif/DESIGN.md', 'w').write(s)
print(n, "rows")
