#!/usr/bin/env python3
"""Consolidates known_findings.d/*.json into known_findings.json: unique ids, fixed entries carry the
sha of the commit on /repo main (builders recorded the sha of their worktree commit, which changes on
cherry-pick; matched by commit subject)."""
import json, glob, subprocess, re
from pathlib import Path
ROOT = Path('/verif')
def sh(c): return subprocess.run(c, shell=True, capture_output=True, text=True).stdout
main = {}
for line in sh("git -C /repo log --format='%h %s' 9ba24ee..main").splitlines():
    h, s = line.split(' ', 1); main[s] = h
allsubj = {}
for line in sh("git -C /repo log --all --format='%h %s'").splitlines():
    h, s = line.split(' ', 1); allsubj[h] = s
base = json.loads((ROOT / 'known_findings.json').read_text())
entries = list(base['findings'])
for f in sorted(glob.glob(str(ROOT / 'known_findings.d/*.json'))):
    entries += json.loads(Path(f).read_text()).get('findings', [])
out, seen = [], set()
for e in entries:
    e = dict(e)
    if e.get('status') == 'fixed' and e.get('commit'):
        c = e['commit'][:7]
        subj = allsubj.get(c) or next((s for h, s in allsubj.items() if h.startswith(c) or c.startswith(h)), None)
        if subj and subj in main and main[subj] != c:
            new = main[subj]
            e['what'] = e['what'].replace(e['commit'], new).replace(c, new)
            e['commit'] = new
        e.pop('match', None)   # fixed entries suppress nothing
    key = (e['id'], e['property'])
    if key in seen:
        continue
    seen.add(key)
    out.append(e)
out.sort(key=lambda e: (e['property'], e['id']))
base['findings'] = out
(ROOT / 'known_findings.json').write_text(json.dumps(base, indent=1))
for f in glob.glob(str(ROOT / 'known_findings.d/*.json')):
    Path(f).unlink()
print(len(out), 'entries;', sum(1 for e in out if e['status'] == 'open'), 'open')
for e in out:
    print(e['property'], e['id'], e['status'], e.get('commit', ''))
