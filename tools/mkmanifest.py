#!/usr/bin/env python3
"""Regenerates /verif/MANIFEST.json from the table below (one entry per claimed property)."""
import json
from pathlib import Path

ROOT = Path(__file__).resolve().parent.parent
ALL = [f"C{i:02d}" for i in range(1, 21)]

TRUST = ("Small-scope: exhaustive only for the stated model-checking constants; random / sampled beyond. Trusted: TLC, "
         "the python adaptor that drives the real objects and projects their state, torch, float64 evaluation of "
         "symbolic values where used.")

CLAIMS = {
 "C01": dict(
  text="TLC exhaustively checks that the implementation-shaped ring model (pointer, storage, slicing / concatenation / gather / "
       "scatter as in the code) refines the list-of-observations model for every operation in every reachable state (N<=3 quick, "
       "N<=5 thorough; scalar and tensor offsets, in-place and not, all storage kinds and dtype conversions). Bound to the code both "
       "ways: every (sampled: quick, all: thorough) edge of TLC's emitted outcome tables is executed on a real RecordTensor (buffer and "
       "parameter) and compared (return value + pointer + full storage), and random operation histories on larger multi-dimensional "
       "records are validated by TLC against the trace specification.",
  technique="TLA+ refinement (RecordCore Mech=>Abs) model-checked by TLC + graph replay into RecordTensor + TLC trace validation",
  design="DESIGN.md 4/C01", engine="tlc-mc, tlc-gen+replay, tlc-trace"),
 "C02": dict(
  text="TLC exhaustively checks the code-shaped time-index arithmetic of select/insert (snap to grid within tolerance, older = ceil, "
       "newer = floor, elapsed since the older sample, range rejection, the two-slot write) against the list model for all pointer "
       "positions, offsets, tolerances and per-element times on/off the grid and at/beyond both limits, plus InsertThenSelect. Every "
       "emitted edge is executed on a real RecordTensor with probe interpolation/extrapolation callables that record the arguments "
       "they receive (several real step times incl. 1.3 and 0.1); the round-trip clause is executed with every shipped matching "
       "extrap/interp pair on the insert edges TLC enumerated; random float histories are trace-validated.",
  technique="TLA+ refinement (RecordCore time indexing) model-checked by TLC + probe-callable graph replay + shipped-pair round trip + trace validation",
  design="DESIGN.md 4/C02", engine="tlc-mc, tlc-gen+replay, tlc-trace"),
 "C13": dict(
  text="TLC checks from every ring state (pointer x fill level) to every (dt, duration, inclusive) of a tick grid, on all storage "
       "kinds: the size formula, newest-preserving resize (refinement against the list model), that temporal setters never fail merely "
       "because storage is uninitialised, and observation-dimension reconstrain (add refused without side effects, edit keeps tail / "
       "zero-prepends, remove never alters data, reported validity). Constraint bookkeeping of ShapedTensor is model-checked "
       "separately (code predicates vs their abstract meaning). Both graphs are replayed on real objects; random float (dt, duration) "
       "histories incl. non-representable ratios are trace-validated with ceil(duration/dt) as IEEE oracle input.",
  technique="TLA+ refinement (RecordCore resize + ConstraintsCore) model-checked by TLC + graph replay + trace validation with oracle inputs",
  design="DESIGN.md 4/C13", engine="tlc-mc, tlc-gen+replay, tlc-trace"),
 "C08": dict(
  text="TLC checks for ALL pre/post spike histories up to T (5 quick / 7 thorough; rules stdp/triplet/mstdp/mstdpet, both trace modes, "
       "delays 0..2, delayed and frozen trainer mode) that the trace-based recurrence the trainers use equals the documented pair sum "
       "(exact symbolic values), that monitors hold the closed-form traces and that sign-mode routing hands the accumulator the "
       "positive/negative parts. TLC's outcome tables are replayed into the real STDP, StableSTDP, TripletSTDP, StableTripletSTDP, MSTDP, "
       "MSTDPET on population cells in which every enumerated history pair is one synapse and on 1x1 cells (batches, reductions, "
       "per-sample rewards); random dense/direct/lateral/conv cells are trace-validated exactly in the dyadic recipe.",
  technique="TLA+ symbolic-value spec (STDPCore on STDPSym) model-checked by TLC + outcome-table replay into real trainers + exact dyadic trace validation",
  design="DESIGN.md 4/C08, notes/C08.md", engine="tlc-mc, tlc-gen+replay, tlc-trace"),
 "C18": dict(
  text="TLC checks for all histories up to T and per-step changing delays (on and off the step grid) that the event-time recurrence "
       "equals now - true last spike, that the delay-adjusted rules equal the documented function of t_delta with the causal branch "
       "iff t_delta >= 0, and the identities (delay rule = mirrored weight rule, d=0 reduces to the kernel rule). Outcome tables are "
       "replayed into the six delay-adjusted trainers and the kernel trainers; paired trainers are also compared directly; random "
       "cells are trace-validated exactly in the dyadic recipe. KernelSTDP on connections with constant whole-step delays (rule ka) "
       "is specified as the kernel over ARRIVAL times; both trainer modes (delayed / undelayed) refine it (ShiftIdentity) and "
       "populations, 1x1 cells and several-cell runs (cells sharing a neuron group or a connection) replay it.",
  technique="TLA+ spec (DelayAdjCore) model-checked by TLC + outcome-table replay + cross-implementation equality + trace validation",
  design="DESIGN.md 4/C18, notes/C18.md", engine="tlc-mc, tlc-gen+replay, tlc-trace"),
}

NOT_YET = "check under construction in this session (specification designed in DESIGN.md section 4; not yet claimed)"


def main():
    extra = ROOT / "tools" / "claims.d"
    if extra.is_dir():
        for f in sorted(extra.glob("*.json")):
            CLAIMS.update(json.loads(f.read_text()))
    checks = []
    for pid in ALL:
        c = CLAIMS.get(pid)
        if not c:
            continue
        checks.append({
            "property_id": pid,
            "quick_cmd": f"./check {pid} --tier quick",
            "thorough_cmd": f"./check {pid} --tier thorough",
            "evidence_file": f"/verif/evidence/{pid}.json",
            "replay_cmd_template": f"./check {pid} --replay {{path}}",
            "engine": c.get("engine", "tlc+conformance"),
            "level_claimed": {"category": c.get("category", "model_checking"), "text": c["text"], "design_ref": c["design"]},
            "level_note": c.get("note", TRUST),
            "technique": c["technique"],
        })
    claimed = {c["property_id"] for c in checks}
    na = []
    na_reasons = {}
    f = ROOT / "tools" / "not_applicable.json"
    if f.exists():
        na_reasons = json.loads(f.read_text())
    for pid in ALL:
        if pid not in claimed:
            na.append({"property_id": pid, "reason": na_reasons.get(pid, NOT_YET)})
    m = {
        "version": 1,
        "setup_cmd": "./setup.sh",
        "hooks": {
            "guard": "MDOMINIJANNI_INFERNO_VERIF",
            "enable": "no source hooks exist: checks import inferno from /repo's working tree (sys.path) and observe through the "
                      "public API; the variable is set by the harness only for uniformity",
            "baseline_off_cmd": "cd /repo && env -u MDOMINIJANNI_INFERNO_VERIF /venv/bin/python -m pytest -q -p no:cacheprovider --timeout=900",
            "source_commits": [], "add_only": True},
        "engines": [
            {"name": "tlc-mc", "path": "harness/tlc.py + spec/*MC.tla", "serves_properties": sorted(claimed),
             "kind_free_text": "exhaustive TLC model checking of Mech=>Abs refinement and property invariants over all operations at every reachable state"},
            {"name": "tlc-gen+replay", "path": "harness/graph.py + per-family replayers", "serves_properties": sorted(claimed),
             "kind_free_text": "TLC emits per-state outcome tables (Emit); edges replayed on the real objects (direction A)"},
            {"name": "tlc-trace", "path": "harness/tracecheck.py + spec/*Trace.tla", "serves_properties": sorted(claimed),
             "kind_free_text": "batch trace validation of executions recorded from the implementation (direction B)"},
        ],
        "checks": checks,
        "notes": "Specifications under spec/, harness under harness/, per-property notes under notes/, seeded changes under seeded/. See DESIGN.md.",
        "not_applicable": na,
    }
    (ROOT / "MANIFEST.json").write_text(json.dumps(m, indent=1))
    print("claimed:", sorted(claimed))


if __name__ == "__main__":
    main()
