#!/venv/bin/python
"""recheck_mutant.py <seed_id> [--checks C01,C13] [--tier quick|thorough]

Re-runs registered /verif checks against an already confirmed seeded change (seeded/<seed_id>/patch.diff applied
to a scratch worktree of /repo's HEAD, removed afterwards) and updates the `checks` / `caught_by` fields of its
meta.json.  Never touches /repo's working tree."""
import json, os, shutil, subprocess, sys, time
from pathlib import Path

sid = sys.argv[1]
dst = Path("/verif/seeded") / sid
meta = json.loads((dst / "meta.json").read_text())
checks = [meta["property"]]
tier = "quick"
for i, a in enumerate(sys.argv):
    if a == "--checks":
        checks = sys.argv[i + 1].split(",")
    if a == "--tier":
        tier = sys.argv[i + 1]
wt = Path(f"/tmp/recheck-{sid}")


def sh(cmd, cwd=None, env=None, timeout=7200):
    p = subprocess.run(cmd, shell=True, cwd=cwd, env=env, capture_output=True, text=True, timeout=timeout)
    return p.returncode, p.stdout + p.stderr


subprocess.run(f"git -C /repo worktree remove --force {wt}", shell=True, capture_output=True)
rc, out = sh(f"git -C /repo worktree add --detach {wt} HEAD")
assert rc == 0, out
try:
    rc, out = sh(f"git apply {dst / 'patch.diff'}", cwd=wt)
    assert rc == 0, "patch does not apply: " + out
    if not isinstance(meta.get("checks"), dict):
        meta["checks"] = {}
    for c in checks:
        t = time.time()
        env = dict(os.environ, VERIF_REPO=str(wt), VERIF_EVIDENCE_DIR=f"/tmp/recheck-evid-{sid}")
        rc, out = sh(f"./check {c} --tier {tier}", cwd="/verif", env=env)
        vio = [l for l in out.splitlines() if l.startswith("VIOLATION") or l.strip().startswith("signature:")]
        meta["checks"][c] = {"exit": rc, "tier": tier, "wall_s": round(time.time() - t, 1), "violation_lines": vio[:12]}
        if rc not in (0, 1):
            meta["checks"][c]["tail"] = out.splitlines()[-15:]
    meta["caught_by"] = sorted(c for c, r in meta["checks"].items() if r["exit"] == 1)
    meta["repo_head_last_run"] = sh("git -C /repo rev-parse --short HEAD")[1].strip()
    meta["verif_head_last_run"] = sh("git -C /verif rev-parse --short HEAD")[1].strip()
finally:
    subprocess.run(f"git -C /repo worktree remove --force {wt}", shell=True, capture_output=True)
    shutil.rmtree(f"/tmp/recheck-evid-{sid}", ignore_errors=True)
(dst / "meta.json").write_text(json.dumps(meta, indent=1))
print(sid, {c: (r["exit"], r["wall_s"]) for c, r in meta["checks"].items()}, "caught_by", meta["caught_by"])
