#!/bin/bash
# usage: tools/seed_sweep.sh <tier> <seed>...   -- runs every check with each seed against /repo, evidence to scratch;
# prints one line per (check, seed); exit 1 if any run did not exit 0
tier=$1; shift
bad=0
for s in "$@"; do
  for i in 01 02 03 04 05 06 07 08 09 10 11 12 13 14 15 16 17 18 19 20; do
    t0=$(date +%s)
    VERIF_SEED=$s VERIF_EVIDENCE_DIR=$(pwd)/scratch-evidence/$tier-$s ./check C$i --tier $tier > sweep-$tier-$s-C$i.log 2>&1; rc=$?
    echo "seed=$s C$i tier=$tier rc=$rc wall=$(( $(date +%s) - t0 ))s violations=$(grep -c '^VIOLATION' sweep-$tier-$s-C$i.log)"
    [ $rc -ne 0 ] && bad=1
  done
done
exit $bad
