#!/usr/bin/env python3
"""Writes notes/SEEDED.md: which registered check catches which confirmed seeded change."""
import json, glob
rows = []
for f in sorted(glob.glob('/verif/seeded/*/meta.json')):
    d = json.load(open(f))
    am = d.get('agent_meta', {})
    caught = d.get('caught_by', [])
    clauses = []
    for c, r in d.get('checks', {}).items():
        for l in r.get('violation_lines', []):
            if 'signature' in l:
                try:
                    s = json.loads(l.split('signature:', 1)[1])
                    clauses.append(f"{c}:{s.get('clause')}@{s.get('site', s.get('op', ''))}")
                except Exception:
                    pass
    rows.append((d['seed_id'], d['property'], (am.get('summary') or '')[:160].replace('|', '/').replace('\n', ' '),
                 (am.get('needs') or '')[:140].replace('|', '/').replace('\n', ' '),
                 'yes' if d.get('demo_exit_clean') == 0 and d.get('demo_exit_changed') not in (0, None) else 'NO',
                 d.get('suite_tail', ''), ', '.join(caught) or '**missed**', '; '.join(sorted(set(clauses)))[:200],
                 d.get('history', '')))
out = ["# Seeded changes (independent sub-agents; confirmed in scratch worktrees by tools/confirm_mutant.py)", "",
       "| id | property | change | needs | demo fails only with change | suite with change | caught by | clauses | history |",
       "|---|---|---|---|---|---|---|---|---|"]
for r in rows:
    out.append("| " + " | ".join(str(x) for x in r) + " |")
open('/verif/notes/SEEDED.md', 'w').write("\n".join(out) + "\n")
print(len(rows), "rows;", sum(1 for r in rows if r[6] == '**missed**'), "missed")
